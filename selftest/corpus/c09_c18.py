S = "systems.py"
ST = "states.py"
I = "integrators.py"


def m(id, prop, rule, file, old, new, key=None, twin=False):
    d = {"id": id, "prop": prop, "rule": rule, "edits": [{"file": file, "old": old, "new": new}]}
    if key:
        d["key"] = key
    if twin:
        d["twin"] = True
    return d


MUTANTS = [
    # ---- C09 R1: wrong / missing dependency names (incl. undoing the F3 repair)
    m("c09-undo-F3", "C09", "R1", S, '    @cache_in_state("pos")\n    def dh2_dpos(self, state: ChainState) -> ArrayLike:\n        # Copy', '    @cache_in_state("mom")\n    def dh2_dpos(self, state: ChainState) -> ArrayLike:\n        # Copy', key="GaussianEuclideanMetricSystem.dh2_dpos"),
    m("c09-h2-dep-pos", "C09", "R1", S, '    @cache_in_state("mom")\n    def h2(self, state: ChainState) -> ScalarLike:\n        return 0.5 * state.mom @ self.dh2_dmom(state)', '    @cache_in_state("pos")\n    def h2(self, state: ChainState) -> ScalarLike:\n        return 0.5 * state.mom @ self.dh2_dmom(state)', key="EuclideanMetricSystem.h2"),
    m("c09-gram-dep-mom", "C09", "R1", S, '    @cache_in_state("pos")\n    def gram(', '    @cache_in_state("mom")\n    def gram(', key="gram"),
    m("c09-neg_log_dens-nodep", "C09", "R1", S, '    @cache_in_state("pos")\n    def neg_log_dens(', '    @cache_in_state()\n    def neg_log_dens(', key="neg_log_dens"),
    m("c09-metric-dep-mom", "C09", "R1", S, '    @cache_in_state("pos")\n    def metric(self, state: ChainState) -> matrices.PositiveDefiniteMatrix:\n        return self._metric_matrix_class(\n            self.metric_func(state),\n            size', '    @cache_in_state("mom")\n    def metric(self, state: ChainState) -> matrices.PositiveDefiniteMatrix:\n        return self._metric_matrix_class(\n            self.metric_func(state),\n            size', key="ScalarRiemannianMetricSystem.metric"),
    m("c09-cache-h2-riemannian-on-mom", "C09", "R1", S, '    def h2(self, state: ChainState) -> ScalarLike:\n        return 0.5 * state.mom @ self.metric(state).inv @ state.mom', '    @cache_in_state("mom")\n    def h2(self, state: ChainState) -> ScalarLike:\n        return 0.5 * state.mom @ self.metric(state).inv @ state.mom', key="RiemannianMetricSystem.h2"),
    m("c09-mhp-dep-mom", "C09", "R1", S, '@cache_in_state_with_aux("pos", ("jacob_constr", "constr"))', '@cache_in_state_with_aux("mom", ("jacob_constr", "constr"))'),
    # ---- C09 R3/R4/R5
    m("c09-copy-shares-cache", "C09", "R3", ST, "_cache=self._cache.copy(),", "_cache=self._cache,"),
    m("c09-copy-shares-values", "C09", "R3", ST, "**{name: copy.copy(val) for name, val in self._variables.items()},", "**{name: val for name, val in self._variables.items()},"),
    m("c09-no-invalidation", "C09", "R4", ST, "            for dep in self._dependencies[name]:\n                self._cache[dep] = None\n", ""),
    m("c09-pickle-key-renamed", "C09", "R5", ST, '            "cache": {k: v', '            "cached": {k: v'),
    m("c09-pickle-swap", "C09", "R5", ST, 'self.__dict__["_variables"] = state["variables"]\n        self.__dict__["_dependencies"] = state["dependencies"]', 'self.__dict__["_variables"] = state["dependencies"]\n        self.__dict__["_dependencies"] = state["variables"]'),
    m("c09-pickle-deps-drop-invalidated", "C09", "R5", ST, '            "dependencies": self._dependencies,', '            "dependencies": {n: {k for k in d if self._cache.get(k) is not None} for n, d in self._dependencies.items()},'),
    m("c09-twin-pickle-deps-only-cached", "C09", None, ST, '            "dependencies": self._dependencies,', '            "dependencies": {n: {k for k in d if k in self._cache} for n, d in self._dependencies.items()},', twin=True),
    m("c09-undo-F15-identity", "C09", "R8", "matrices.py", "        return other.copy()\n\n    def _right_matrix_multiply(self, other: NDArray) -> NDArray:\n        return other.copy()", "        return other\n\n    def _right_matrix_multiply(self, other: NDArray) -> NDArray:\n        return other"),
    m("c09-undo-F15-dh2_dpos", "C09", "R8", S, "        return state.pos.copy()", "        return state.pos"),
    m("c09-cached-view-of-state", "C09", "R8", S, "        return state.pos.copy()", "        return np.asarray(state.pos)"),
    m("c09-twin-dh2_dpos-np-array", "C09", None, S, "        return state.pos.copy()", "        return np.array(state.pos)", twin=True),
    m("c09-key-without-system-id", "C09", "R6", ST, '    return (f"{type(system).__name__}.{method}", id(system))', '    return f"{type(system).__name__}.{method}"'),
    m("c09-no-registration", "C09", "R6", ST, "            if key not in state._cache:\n                for dep in depends_on:\n                    state._dependencies[dep].add(key)\n            if key not in state._cache or state._cache[key] is None:", "            if key not in state._cache or state._cache[key] is None:"),
    m("c09-marker-not-recognised", "C09", "R6", ST, "            if key not in state._cache or state._cache[key] is None:\n                state._cache[key] = method(self, state)", "            if key not in state._cache:\n                state._cache[key] = method(self, state)"),
    m("c09-aux-keys-not-registered", "C09", "R6", ST, "            for _i, key in enumerate(keys):\n                if key not in state._cache:\n                    for dep in depends_on:\n                        state._dependencies[dep].add(key)", "            if prim_key not in state._cache:\n                for dep in depends_on:\n                    state._dependencies[dep].add(prim_key)"),
    # ---- C09 R7
    m("c09-inplace-subscript", "C09", "R7", S, "        state.pos += dt * self.dh2_dmom(state)", "        state.pos[:] = state.pos + dt * self.dh2_dmom(state)"),
    m("c09-inplace-alias", "C09", "R7", I, "        mom_init = state.mom.copy()\n        state.mom -= time_step * self.system.dh2_dpos(state)", "        mom_init = state.mom.copy()\n        mom = state.mom\n        mom -= time_step * self.system.dh2_dpos(state)"),
    m("c09-project-not-assigned", "C09", "R7", I, "        state.mom = self.system.project_onto_cotangent_space(state.mom, state)", "        self.system.project_onto_cotangent_space(state.mom, state)"),
    # ---- twins (must stay silent)
    m("c09-twin-cache-dict-copy", "C09", None, ST, "_cache=self._cache.copy(),", "_cache=dict(self._cache),", twin=True),
    m("c09-twin-del-entry", "C09", None, ST, "                self._cache[dep] = None\n", "                self._cache.pop(dep, None)\n", twin=True),
    m("c09-twin-extra-dep", "C09", None, S, '    @cache_in_state("mom")\n    def h2(self, state: ChainState) -> ScalarLike:\n        return 0.5 * state.mom @ self.dh2_dmom(state)', '    @cache_in_state("mom", "pos")\n    def h2(self, state: ChainState) -> ScalarLike:\n        return 0.5 * state.mom @ self.dh2_dmom(state)', twin=True),
    # ---- C18
    m("c18-overbroad-grad", "C18", "R1", S, '    @cache_in_state_with_aux("pos", "neg_log_dens")', '    @cache_in_state_with_aux(("pos", "mom"), "neg_log_dens")'),
    m("c18-overbroad-constr", "C18", "R1", S, '    @cache_in_state("pos")\n    def constr(', '    @cache_in_state("pos", "mom")\n    def constr('),
    m("c18-undecorated-user-call", "C18", "R2", S, '    @cache_in_state("pos")\n    def constr(', '    def constr('),
    m("c18-aux-swapped", "C18", "R3", S, '@cache_in_state_with_aux("pos", ("jacob_constr", "constr"))', '@cache_in_state_with_aux("pos", ("constr", "jacob_constr"))'),
    m("c18-aux-misnamed", "C18", "R3", S, '    @cache_in_state_with_aux("pos", "neg_log_dens")', '    @cache_in_state_with_aux("pos", "neg_log_density")'),
    m("c18-copy-drops-cache", "C18", "R4", ST, "_cache=self._cache.copy(),", "_cache={},"),
    m("c18-copy-drops-cache-2", "C18", "R4", ST, "            _cache=self._cache.copy(),\n", ""),
    m("c18-setattr-clears-all", "C18", "R4", ST, "            for dep in self._dependencies[name]:\n                self._cache[dep] = None\n", "            self._cache.clear()\n"),
    m("c18-call-before-hit-test", "C18", "R4", ST, "            if key not in state._cache or state._cache[key] is None:\n                state._cache[key] = method(self, state)", "            val = method(self, state)\n            if key not in state._cache or state._cache[key] is None:\n                state._cache[key] = val"),
    m("c18-aux-not-stored", "C18", "R4", ST, "                if isinstance(vals, tuple):\n                    for k, v in zip(keys, vals, strict=False):\n                        state._cache[k] = v\n                else:\n                    state._cache[prim_key] = vals", "                if isinstance(vals, tuple):\n                    state._cache[prim_key] = vals[0]\n                else:\n                    state._cache[prim_key] = vals"),
    m("c18-h1flow-writes-pos", "C18", "R5", S, "        state.mom -= dt * self.dh1_dpos(state)", "        state.mom -= dt * self.dh1_dpos(state)\n        state.pos = state.pos + 0.0"),
    m("c18-transition-builds-fresh-state", "C18", "R6", "transitions.py", "        state.mom = self.system.sample_momentum(state, rng)\n        return state, None\n\n\nclass CorrelatedMomentumTransition", "        from mici.states import ChainState\n\n        state = ChainState(pos=state.pos, mom=self.system.sample_momentum(state, rng), dir=state.dir)\n        return state, None\n\n\nclass CorrelatedMomentumTransition"),
    m("c18-twin-h2-extra-dep", "C18", None, S, '    @cache_in_state("mom")\n    def h2(self, state: ChainState) -> ScalarLike:\n        return 0.5 * state.mom @ self.dh2_dmom(state)', '    @cache_in_state("mom", "pos")\n    def h2(self, state: ChainState) -> ScalarLike:\n        return 0.5 * state.mom @ self.dh2_dmom(state)', twin=True),
    m("c18-setstate-deps-fromkeys", "C18", "R7", ST, 'self.__dict__["_dependencies"] = state["dependencies"]', 'self.__dict__["_dependencies"] = dict.fromkeys(state["variables"], set())'),
    m("c18-init-deps-fromkeys", "C18", "R7", ST, "            _dependencies = {name: set() for name in variables}", "            _dependencies = dict.fromkeys(variables, set())"),
    m("c18-init-deps-shared-comprehension", "C18", "R7", ST, "            _dependencies = {name: set() for name in variables}", "            empty = set()\n            _dependencies = {name: empty for name in variables}"),
    m("c18-twin-init-deps-renamed", "C18", None, ST, "            _dependencies = {name: set() for name in variables}", "            _dependencies = {var: set() for var in variables}", twin=True),
    m("c18-miss-not-stored-readonly", "C18", "R4", ST, "                state._cache[key] = method(self, state)\n", "                val = method(self, state)\n                if state._read_only:\n                    return val\n                state._cache[key] = val\n", key="miss-not-stored"),
    m("c18-twin-miss-stored-via-local", "C18", None, ST, "                state._cache[key] = method(self, state)\n", "                val = method(self, state)\n                state._cache[key] = val\n", twin=True),
    m("c18-metric-bypasses-wrapper", "C18", "R2", S, "        return self._metric_matrix_class(\n            self.metric_func(state),\n            size=state.pos.shape[0],", "        return self._metric_matrix_class(\n            self._metric_func(state.pos),\n            size=state.pos.shape[0],", key="bypasses"),
    m("c18-aux-padded-with-none-loop", "C18", "R4", "states.py", '                if isinstance(vals, tuple):\n                    for k, v in zip(keys, vals, strict=False):\n                        state._cache[k] = v\n                else:\n                    state._cache[prim_key] = vals\n', '                if not isinstance(vals, tuple):\n                    vals = (vals,)\n                for i, k in enumerate(keys):\n                    state._cache[k] = vals[i] if i < len(vals) else None\n'),
    m("c18-twin-aux-store-enumerate", "C18", None, "states.py", '                if isinstance(vals, tuple):\n                    for k, v in zip(keys, vals, strict=False):\n                        state._cache[k] = v\n                else:\n                    state._cache[prim_key] = vals\n', '                if isinstance(vals, tuple):\n                    for i, v in enumerate(vals[: len(keys)]):\n                        state._cache[keys[i]] = v\n                else:\n                    state._cache[prim_key] = vals\n', twin=True),
]
