SA = "samplers.py"


def m(id, rule, old, new, key=None, twin=False):
    d = {"id": id, "prop": "C15", "rule": rule, "edits": [{"file": SA, "old": old, "new": new}]}
    if key:
        d["key"] = key
    if twin:
        d["twin"] = True
    return d


H = """    except KeyboardInterrupt as e:
        exception = e
        logger.exception("""

MUTANTS = [
    m("c15-handler-reraises", "R1", "            f\" statistics computed before interruption will be returned.\",\n        )\n    else:", "            f\" statistics computed before interruption will be returned.\",\n        )\n        raise\n    else:"),
    m("c15-catch-exception-only", "R1", H, H.replace("except KeyboardInterrupt as e", "except Exception as e")),
    m("c15-no-finally", "R1", "    finally:\n        # flush any updates to memory-mapped chain data to disk before exiting\n        _flush_memmap_chain_data(chain_traces, chain_stats)\n", ""),
    m("c15-flush-traces-only", "R1", "        _flush_memmap_chain_data(chain_traces, chain_stats)\n    return state", "        _flush_memmap_chain_data(chain_traces, None)\n    return state"),
    m("c15-interrupt-not-returned", "R1", "    return state, adapter_states, exception\n\n\ndef _collate_chain_outputs(", "    return state, adapter_states, None\n\n\ndef _collate_chain_outputs("),
    m("c15-seq-no-break", "R2", "        # If returned handled exception was a manual interrupt break and return\n        if isinstance(exception, KeyboardInterrupt):\n            break\n", ""),
    m("c15-seq-break-before-append", "R2", "        if not isinstance(exception, AdaptationError):\n            chain_outputs.append(outputs)\n        # If returned handled exception was a manual interrupt break and return\n        if isinstance(exception, KeyboardInterrupt):\n            break\n", "        # If returned handled exception was a manual interrupt break and return\n        if isinstance(exception, KeyboardInterrupt):\n            break\n        if not isinstance(exception, AdaptationError):\n            chain_outputs.append(outputs)\n"),
    m("c15-worker-no-put", "R2", "            if isinstance(exception, KeyboardInterrupt):\n                iter_queue.put(exception)\n                break\n", "            if isinstance(exception, KeyboardInterrupt):\n                break\n"),
    m("c15-parent-raises-on-item", "R2", "                    elif isinstance(iter_queue_item, KeyboardInterrupt):\n                        exception = iter_queue_item\n                        break\n", ""),
    m("c15-parent-handler-reraises", "R2", "            # Interrupts handled in child processes therefore ignore here\n            exception = e\n", "            # Interrupts handled in child processes therefore ignore here\n            exception = e\n            raise\n"),
    m("c15-stage-loop-continues", "R2", "                    if isinstance(exception, KeyboardInterrupt):\n                        # Adaptation in an interrupted stage is incomplete (possibly for\n                        # only some of the chains) so adapters are not finalized\n                        return MCMCSampleChainsOutputs(chain_states, traces, stats)\n", ""),
    m("c15-twin-seq-elif", None, "        if not isinstance(exception, AdaptationError):\n            chain_outputs.append(outputs)\n        # If returned handled exception was a manual interrupt break and return\n        if isinstance(exception, KeyboardInterrupt):\n            break\n", "        if isinstance(exception, KeyboardInterrupt):\n            chain_outputs.append(outputs)\n            break\n        if not isinstance(exception, AdaptationError):\n            chain_outputs.append(outputs)\n", twin=True),
    m("c15-twin-catch-base", None, H, H.replace("except KeyboardInterrupt as e", "except (KeyboardInterrupt, SystemExit) as e"), twin=True),
    m("c15-memmap-fill-only-floats", "R5", "    memmap[:] = default_val\n", "    if np.issubdtype(memmap.dtype, np.inexact):\n        memmap[:] = default_val\n", key="fill-not-on-every-path"),
    m("c15-memmap-fill-zero", "R5", "    memmap[:] = default_val\n", "    memmap[:] = 0\n"),
    m("c15-twin-memmap-fill-method", None, "    memmap[:] = default_val\n", "    memmap.fill(default_val)\n", twin=True),
    m("c15-parent-keeps-waiting-after-interrupt", "R2", "                    elif isinstance(iter_queue_item, KeyboardInterrupt):\n                        exception = iter_queue_item\n                        break", "                    elif isinstance(iter_queue_item, KeyboardInterrupt):\n                        exception = iter_queue_item\n                        chains_completed += 1", key="waits-after-interrupt"),
    m("c15-undo-F21", "R2", "                    if isinstance(exception, KeyboardInterrupt):\n                        # Adaptation in an interrupted stage is incomplete (possibly for\n                        # only some of the chains) so adapters are not finalized\n                        return MCMCSampleChainsOutputs(chain_states, traces, stats)\n                    if len(adapter_states) > 0:", "                    if len(adapter_states) > 0:", key="finalize-after-interrupt"),
    {'id': 'c15-interrupt-rolls-state-back', 'prop': 'C15', 'rule': 'R6', 'edits': [{'file': 'samplers.py', 'old': '    except KeyboardInterrupt as e:\n        exception = e\n        logger.exception(', 'new': '    except KeyboardInterrupt as e:\n        exception = e\n        state = init_state\n        logger.exception('}], 'key': 'final-state-invalid'},
    {'id': 'c15-sequential-drops-interrupted-chain', 'prop': 'C15', 'rule': 'R6', 'edits': [{'file': 'samplers.py', 'old': '        if not isinstance(exception, AdaptationError):\n            chain_outputs.append(outputs)\n        # If returned handled exception was a manual interrupt break and return\n', 'new': '        if exception is None:\n            chain_outputs.append(outputs)\n        # If returned handled exception was a manual interrupt break and return\n'}], 'key': 'final-state-missing'},
    {'id': 'c15-twin-sequential-index-loop', 'prop': 'C15', 'rule': None, 'edits': [{'file': 'samplers.py', 'old': '    for chain_index, (chain_iterator, chain_kwargs) in enumerate(\n        zip(chain_iterators, per_chain_kwargs, strict=True),\n    ):', 'new': '    pairs = list(zip(chain_iterators, per_chain_kwargs, strict=True))\n    for chain_index in range(len(pairs)):\n        chain_iterator, chain_kwargs = pairs[chain_index]'}], 'twin': True},
]
