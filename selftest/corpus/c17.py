A = "adapters.py"


def m(id, rule, old, new, key=None, twin=False):
    d = {"id": id, "prop": "C17", "rule": rule, "edits": [{"file": A, "old": old, "new": new}]}
    if key:
        d["key"] = key
    if twin:
        d["twin"] = True
    return d


MUTANTS = [
    m("c17-error-weight-flipped", "R1", '        adapt_state["adapt_stat_error"] *= 1 - error_weight', '        adapt_state["adapt_stat_error"] *= error_weight'),
    m("c17-error-weights-differ", "R1", "        error_weight = 1 / (self.iter_offset + adapt_state[\"iter\"])\n        adapt_state[\"adapt_stat_error\"] *= 1 - error_weight", "        error_weight = 1 / (self.iter_offset + adapt_state[\"iter\"])\n        adapt_state[\"adapt_stat_error\"] *= 1 - 1 / adapt_state[\"iter\"]"),
    m("c17-error-sign", "R1", "            self.adapt_stat_target - self.adapt_stat_func(trans_stats)", "            self.adapt_stat_func(trans_stats) - self.adapt_stat_target"),
    m("c17-sqrt-dropped", "R1", '            * adapt_state["iter"] ** 0.5\n', '            * adapt_state["iter"]\n'),
    m("c17-smoothing-uses-error-weight", "R1", '        adapt_state["smoothed_log_step_size"] += smoothing_weight * log_step_size', '        adapt_state["smoothed_log_step_size"] += error_weight * log_step_size'),
    m("c17-step-size-smoothed", "R1", "        transition.integrator.step_size = exp(log_step_size)", "        transition.integrator.step_size = exp(adapt_state[\"smoothed_log_step_size\"])"),
    m("c17-welford-mean-n-1", "R1", '        adapt_state["mean"] += pos_minus_mean / adapt_state["iter"]\n        adapt_state["sum_diff_sq"]', '        adapt_state["mean"] += pos_minus_mean / (adapt_state["iter"] + 1)\n        adapt_state["sum_diff_sq"]'),
    m("c17-welford-m2-old-mean-twice", "R1", '        adapt_state["sum_diff_sq"] += pos_minus_mean * (\n            chain_state.pos - adapt_state["mean"]\n        )', '        adapt_state["sum_diff_sq"] += pos_minus_mean * pos_minus_mean'),
    m("c17-merge-cross-term", "R1", '                        mean_diff**2 * (adapt_state["iter"] * n_iter_prev) / n_iter', '                        mean_diff**2 * (adapt_state["iter"] * n_iter_prev) / n_iter_prev'),
    m("c17-merge-mean-diff-after-update", "R1", '                    mean_diff = mean_est - adapt_state["mean"]\n                    mean_est *= n_iter_prev\n                    mean_est += adapt_state["iter"] * adapt_state["mean"]\n                    mean_est /= n_iter\n                    var_est += adapt_state["sum_diff_sq"]', '                    mean_est *= n_iter_prev\n                    mean_est += adapt_state["iter"] * adapt_state["mean"]\n                    mean_est /= n_iter\n                    mean_diff = mean_est - adapt_state["mean"]\n                    var_est += adapt_state["sum_diff_sq"]'),
    m("c17-reg-weight", "R1", "        covar_est *= n_iter / (self.reg_iter_offset + n_iter)", "        covar_est *= n_iter / (self.reg_iter_offset + n_iter + 1)"),
    m("c17-drop-inv", "R2", "        transition.system.metric = PositiveDiagonalMatrix(var_est).inv", "        transition.system.metric = PositiveDiagonalMatrix(var_est)"),
    m("c17-divide-by-n", "R2", "        var_est /= n_iter - 1", "        var_est /= n_iter"),
    m("c17-guard-lt-1", "R2", "        if n_iter < 2:  # noqa: PLR2004\n            msg = \"At least two chain samples required to compute a variance estimates.\"\n            raise AdaptationError(msg)\n        var_est /=", "        if n_iter < 1:  # noqa: PLR2004\n            msg = \"At least two chain samples required to compute a variance estimates.\"\n            raise AdaptationError(msg)\n        var_est /="),
    m("c17-finalize-unsmoothed", "R2", '                adapt_states["smoothed_log_step_size"],\n            )', '                adapt_states["log_step_size_reg_target"],\n            )'),
    m("c17-geometric-reducer", "R2", "    return exp(sum(x for x in log_step_sizes) / len(log_step_sizes))", "    return sum(x for x in log_step_sizes) / len(log_step_sizes)"),
    m("c17-search-directions-swapped", "R3", "                if step_size_too_big:\n                    integrator.step_size /= 2\n                else:\n                    integrator.step_size *= 2", "                if step_size_too_big:\n                    integrator.step_size *= 2\n                else:\n                    integrator.step_size /= 2"),
    m("c17-threshold", "R3", "        delta_h_threshold = log(2)", "        delta_h_threshold = log(20)"),
    # twins
    m("c17-twin-welford-form", None, '        adapt_state["mean"] += pos_minus_mean / adapt_state["iter"]\n        adapt_state["sum_diff_sq"]', '        adapt_state["mean"] *= 1 - 1 / adapt_state["iter"]\n        adapt_state["mean"] += chain_state.pos / adapt_state["iter"]\n        adapt_state["sum_diff_sq"]', twin=True),
    m("c17-twin-smoothing-power", None, '        smoothing_weight = (1 / adapt_state["iter"]) ** self.iter_decay_coeff', '        smoothing_weight = adapt_state["iter"] ** (-self.iter_decay_coeff)', twin=True),
    m("c17-twin-merge-form", None, '                    mean_est *= n_iter_prev\n                    mean_est += adapt_state["iter"] * adapt_state["mean"]\n                    mean_est /= n_iter\n                    var_est +=', '                    mean_est += (adapt_state["mean"] - mean_est) * adapt_state["iter"] / n_iter\n                    var_est +=', twin=True),
    m("c17-target-or-default", "R4", '        if self.log_step_size_reg_target is None:\n            adapt_state["log_step_size_reg_target"] = log(10 * init_step_size)\n        else:\n            adapt_state["log_step_size_reg_target"] = self.log_step_size_reg_target\n', '        adapt_state["log_step_size_reg_target"] = self.log_step_size_reg_target or log(10 * init_step_size)\n'),
    m("c17-target-truthiness-branch", "R4", "        if self.log_step_size_reg_target is None:\n            adapt_state[\"log_step_size_reg_target\"] = log(10 * init_step_size)", "        if not self.log_step_size_reg_target:\n            adapt_state[\"log_step_size_reg_target\"] = log(10 * init_step_size)"),
    m("c17-default-target-without-10", "R4", "            adapt_state[\"log_step_size_reg_target\"] = log(10 * init_step_size)", "            adapt_state[\"log_step_size_reg_target\"] = log(init_step_size)"),
    m("c17-iter-starts-at-one", "R4", '        adapt_state = {\n            "iter": 0,', '        adapt_state = {\n            "iter": 1,'),
    m("c17-smoothed-starts-at-one", "R4", '            "smoothed_log_step_size": 0.0,', '            "smoothed_log_step_size": 1.0,'),
    m("c17-welford-mean-init-ones", "R4", '            "mean": np.zeros_like(chain_state.pos),', '            "mean": np.ones_like(chain_state.pos),'),
    m("c17-twin-target-ifexp", None, '        if self.log_step_size_reg_target is None:\n            adapt_state["log_step_size_reg_target"] = log(10 * init_step_size)\n        else:\n            adapt_state["log_step_size_reg_target"] = self.log_step_size_reg_target\n', '        adapt_state["log_step_size_reg_target"] = self.log_step_size_reg_target if self.log_step_size_reg_target is not None else log(10 * init_step_size)\n', twin=True),
    m("c17-search-nan-only-first", "R3", "                if s == 0 or np.isnan(delta_h):", "                if s == 0:"),
    m("c17-search-return-condition-inverted", "R3", "                if (step_size_too_big and delta_h <= delta_h_threshold) or (\n                    not step_size_too_big and delta_h > delta_h_threshold\n                ):", "                if (step_size_too_big and delta_h > delta_h_threshold) or (\n                    not step_size_too_big and delta_h <= delta_h_threshold\n                ):"),
    m("c17-search-direction-reset-every-iteration", "R3", "                if s == 0 or np.isnan(delta_h):\n                    step_size_too_big", "                if True:\n                    step_size_too_big"),
    m("c17-twin-search-isnan-first", None, "                if s == 0 or np.isnan(delta_h):", "                if np.isnan(delta_h) or s == 0:", twin=True),
    m("c17-no-refresh", "R2", "        transition.system.metric = DensePositiveDefiniteMatrix(covar_est).inv\n" + '        # Resample momentum to account for altered distribution due to new metric\n        for chain_state, rng in zip(chain_states, rngs, strict=True):\n            # Values cached in state which depend on the metric (for example the Gram\n            # matrix of a constrained system) are keyed only on the position so reassign\n            # position to force their recomputation under the new metric\n            chain_state.pos = chain_state.pos\n            chain_state.mom = transition.system.sample_momentum(chain_state, rng)\n', "        transition.system.metric = DensePositiveDefiniteMatrix(covar_est).inv\n"),
    m("c17-undo-F17", "R5", "        transition.system.metric = DensePositiveDefiniteMatrix(covar_est).inv\n" + '        # Resample momentum to account for altered distribution due to new metric\n        for chain_state, rng in zip(chain_states, rngs, strict=True):\n            # Values cached in state which depend on the metric (for example the Gram\n            # matrix of a constrained system) are keyed only on the position so reassign\n            # position to force their recomputation under the new metric\n            chain_state.pos = chain_state.pos\n            chain_state.mom = transition.system.sample_momentum(chain_state, rng)\n', "        transition.system.metric = DensePositiveDefiniteMatrix(covar_est).inv\n        for chain_state, rng in zip(chain_states, rngs, strict=True):\n            chain_state.mom = transition.system.sample_momentum(chain_state, rng)\n"),
]
