SO = "solvers.py"
S = "systems.py"
I = "integrators.py"


def m(id, rule, file, old, new, key=None, twin=False):
    d = {"id": id, "prop": "C04", "rule": rule, "edits": [{"file": file, "old": old, "new": new}]}
    if key:
        d["key"] = key
    if twin:
        d["twin"] = True
    return d


QN_TAIL = "            mu += delta_mu\n            state.pos -= delta_pos\n    except (ValueError, LinAlgError) as e:\n        # Make robust to errors in intermediate linear algebra ops\n        msg = f\"{type(e)} at iteration {i} of quasi-Newton"
LS = """            for line_search_iter in range(max_line_search_iters):
                # Halve step size before each retry so that step_size is always the
                # scaling actually applied to the position
                if line_search_iter > 0:
                    step_size *= 0.5
                state.pos = pos_curr + step_size * delta_pos
                new_error = norm(system.constr(state))
                if new_error < error:
                    break
            mu += step_size * delta_mu
"""
LS_OLD = """            for _ in range(max_line_search_iters):
                state.pos = pos_curr + step_size * delta_pos
                new_error = norm(system.constr(state))
                if new_error < error:
                    break
                step_size *= 0.5
            mu += step_size * delta_mu
"""

MUTANTS = [
    m("c04-seed-tolerances-swapped", "R1", SO, "            if error < constraint_tol and norm(delta_pos) < position_tol:\n                state.mom -= np.sign(time_step) * dh2_flow_mom_dmom @ mu\n                return state\n            mu += delta_mu\n            state.pos -= delta_pos\n    except (ValueError, LinAlgError) as e:\n        # Make robust to errors in intermediate linear algebra ops\n        msg = f\"{type(e)} at iteration {i} of Newton", "            if error < position_tol and norm(delta_pos) < constraint_tol:\n                state.mom -= np.sign(time_step) * dh2_flow_mom_dmom @ mu\n                return state\n            mu += delta_mu\n            state.pos -= delta_pos\n    except (ValueError, LinAlgError) as e:\n        # Make robust to errors in intermediate linear algebra ops\n        msg = f\"{type(e)} at iteration {i} of Newton"),
    m("c04-ls-return-skips-test", "R1", SO, "            if error < constraint_tol and (\n                i == 0 or norm(step_size * delta_pos) < position_tol\n            ):", "            if i == 0 or norm(step_size * delta_pos) < position_tol:"),
    m("c04-final-raise-removed", "R1", SO, "    msg = (\n        f\"Quasi-Newton solver did not converge with {max_iters} iterations. \"\n        f\"Last |constr|={error:.1e}, |delta_pos|={norm(delta_pos)}.\"\n    )\n    raise ConvergenceError(msg)\n", "    return state\n"),
    m("c04-undo-F12", "R3", SO, LS, LS_OLD, key="newton_with_line_search"),
    m("c04-mu-assigned-not-accumulated", "R3", SO, QN_TAIL, QN_TAIL.replace("mu += delta_mu", "mu = delta_mu")),
    m("c04-pos-update-half", "R3", SO, QN_TAIL, QN_TAIL.replace("state.pos -= delta_pos", "state.pos -= 0.5 * delta_pos")),
    m("c04-drop-sign", "R3", SO, "            if error < constraint_tol and norm(delta_pos) < position_tol:\n                state.mom -= np.sign(time_step) * dh2_flow_mom_dmom @ mu\n                return state\n" + QN_TAIL, "            if error < constraint_tol and norm(delta_pos) < position_tol:\n                state.mom -= dh2_flow_mom_dmom @ mu\n                return state\n" + QN_TAIL),
    m("c04-no-abs-time", "R3", SO, "    dh2_flow_pos_dmom, dh2_flow_mom_dmom = system.dh2_flow_dmom(\n        state_prev,\n        abs(time_step),\n    )\n    inv_jacob_constr_inner_product", "    dh2_flow_pos_dmom, dh2_flow_mom_dmom = system.dh2_flow_dmom(\n        state_prev,\n        time_step,\n    )\n    inv_jacob_constr_inner_product"),
    m("c04-delta-mu-current-jacobian", "R3", SO, "            delta_mu = jacob_constr_prev.T @ (inv_jacob_constr_inner_product @ constr)", "            delta_mu = system.jacob_constr(state).T @ (inv_jacob_constr_inner_product @ constr)"),
    m("c04-step_a-no-projection", "R4", I, "        self.system.h1_flow(state, time_step)\n        self._project_onto_cotangent_space(state)", "        self.system.h1_flow(state, time_step)"),
    m("c04-no-projection-after-retraction", "R4", I, "                self.system.dh1_dpos(state)\n            self._project_onto_cotangent_space(state)\n", "                self.system.dh1_dpos(state)\n"),
    m("c04-retraction-prev-is-state", "R4", I, "            self._h2_flow_retraction_onto_manifold(state, state_prev, time_step_inner)", "            self._h2_flow_retraction_onto_manifold(state, state, time_step_inner)"),
    m("c04-projection-uses-metric", "R5", S, "            self.inv_gram(state) @ (self.jacob_constr(state) @ (self.metric.inv @ mom))", "            self.inv_gram(state) @ (self.jacob_constr(state) @ (self.metric @ mom))"),
    m("c04-projection-sign", "R5", S, "        mom -= self.jacob_constr(state).T @ (\n            self.inv_gram(state)", "        mom += self.jacob_constr(state).T @ (\n            self.inv_gram(state)"),
    m("c04-projection-no-transpose", "R5", S, "        mom -= self.jacob_constr(state).T @ (\n            self.inv_gram(state)", "        mom -= self.jacob_constr(state) @ (\n            self.inv_gram(state)"),
    m("c04-gram-uses-metric", "R5", S, "            self.jacob_constr(state),\n            self.metric.inv,\n        )", "            self.jacob_constr(state),\n            self.metric,\n        )"),
    m("c04-sample-momentum-unprojected", "R6", S, "        mom = super().sample_momentum(state, rng)\n        return self.project_onto_cotangent_space(mom, state)", "        mom = super().sample_momentum(state, rng)\n        return mom"),
    m("c04-twin-ls-form", None, SO, LS, """            for line_search_iter in range(max_line_search_iters):
                step_size = 0.5**line_search_iter
                state.pos = pos_curr + step_size * delta_pos
                new_error = norm(system.constr(state))
                if new_error < error:
                    break
            mu += step_size * delta_mu
""", twin=True),
    m("c04-twin-update-order", None, SO, QN_TAIL, QN_TAIL.replace("            mu += delta_mu\n            state.pos -= delta_pos\n", "            state.pos -= delta_pos\n            mu += delta_mu\n"), twin=True),
]

MUTANTS += [
    m("c04-inner-product-no-transpose", "R5", S, "            return matrices.DensePositiveDefiniteMatrix(\n                jacob_constr_1 @ (inner_product_matrix @ jacob_constr_1.T),\n            )\n        return matrices.DenseSquareMatrix(\n            jacob_constr_1 @ (inner_product_matrix @ jacob_constr_2.T),", "            return matrices.DensePositiveDefiniteMatrix(\n                jacob_constr_1 @ (inner_product_matrix @ jacob_constr_1.T),\n            )\n        return matrices.DenseSquareMatrix(\n            jacob_constr_2 @ (inner_product_matrix @ jacob_constr_1.T),"),
]
