SG = "stagers.py"
SA = "samplers.py"
T = "transitions.py"


def m(id, rule, file, old, new, key=None, twin=False):
    d = {"id": id, "prop": "C16", "rule": rule, "edits": [{"file": file, "old": old, "new": new}]}
    if key:
        d["key"] = key
    if twin:
        d["twin"] = True
    return d


MUTANTS = [
    m("c16-slow-length-drops-final", "R1", SG, "            n_slow_stage_iter = (\n                n_warm_up_iter - n_init_fast_stage_iter - n_final_fast_stage_iter\n            )", "            n_slow_stage_iter = (\n                n_warm_up_iter - n_init_fast_stage_iter\n            )"),
    m("c16-main-gets-adapters", "R1", SG, "            sampling_stages[\"Main non-adaptive\"] = ChainStage(\n                n_iter=n_main_iter,\n                adapters=None,\n                trace_funcs=trace_funcs,\n                record_stats=True,\n            )\n        return sampling_stages\n\n\nclass WindowedWarmUpStager", "            sampling_stages[\"Main non-adaptive\"] = ChainStage(\n                n_iter=n_main_iter,\n                adapters=adapters,\n                trace_funcs=trace_funcs,\n                record_stats=True,\n            )\n        return sampling_stages\n\n\nclass WindowedWarmUpStager"),
    m("c16-fast-stage-all-adapters", "R1", SG, "                n_iter=n_final_fast_stage_iter,\n                adapters=fast_adapters,", "                n_iter=n_final_fast_stage_iter,\n                adapters=adapters,"),
    m("c16-window-gets-fast-only", "R1", SG, "                        n_iter=n_iter,\n                        adapters=adapters,", "                        n_iter=n_iter,\n                        adapters=fast_adapters,"),
    m("c16-fast-filter-inverted", "R1", SG, "[adapter for adapter in adapter_list if adapter.is_fast]", "[adapter for adapter in adapter_list if not adapter.is_fast]"),
    m("c16-no-clamp", "R1", SG, "                if counter_next > n_slow_stage_iter or n_window_iter < 1:\n                    n_window_iter = n_slow_stage_iter - counter\n", ""),
    m("c16-counter-not-coupdated", "R1", SG, "                counter += n_window_iter\n", "                counter += n_window_iter + 1\n"),
    m("c16-seed-max1", "R1", SG, "            n_init_fast_stage_iter = int(0.15 * n_warm_up_iter)\n            n_final_fast_stage_iter = int(0.1 * n_warm_up_iter)", "            n_init_fast_stage_iter = max(1, int(0.15 * n_warm_up_iter))\n            n_final_fast_stage_iter = max(1, int(0.1 * n_warm_up_iter))"),
    m("c16-warmup-main-swapped-len", "R1", SG, "            sampling_stages[\"Adaptive warm up\"] = ChainStage(\n                n_iter=n_warm_up_iter,", "            sampling_stages[\"Adaptive warm up\"] = ChainStage(\n                n_iter=n_warm_up_iter + 1,"),
    m("c16-transition-writes-step-size", "R2", T, "        stats[\"metrop_accept_prob\"] = accept_prob\n", "        stats[\"metrop_accept_prob\"] = accept_prob\n        self.integrator.step_size *= 1.0\n"),
    m("c16-finalize-wrong-adapters", "R2", SA, "                            stage.adapters,\n                            self.transitions,", "                            adapters,\n                            self.transitions,"),
    m("c16-undo-F9", "R3", SA, "                    if stage.n_iter == 0:\n                        # Nothing to sample, adapt or finalize in an empty stage\n                        continue\n", ""),
    m("c16-twin-guard-positive", None, SA, "                    if stage.n_iter == 0:\n                        # Nothing to sample, adapt or finalize in an empty stage\n                        continue\n", "                    if not stage.n_iter > 0:\n                        continue\n", twin=True),
    m("c16-twin-fractions", None, SG, "            n_init_fast_stage_iter = int(0.15 * n_warm_up_iter)", "            n_init_fast_stage_iter = int(0.2 * n_warm_up_iter)", twin=True),
    m("c16-finalize-guard-all", "R2", SA, "                    if len(adapter_states) > 0:\n                        _finalize_adapters(", "                    if adapter_states and all(adapter_states.values()):\n                        _finalize_adapters("),
    m("c16-finalize-only-first-transition", "R2", SA, "    for trans_key, adapter_states_list in adapter_states_dict.items():\n        for adapter_states, adapter in zip(", "    for trans_key, adapter_states_list in list(adapter_states_dict.items())[:1]:\n        for adapter_states, adapter in zip("),
    m("c16-finalize-wrong-transition", "R2", SA, "            adapter.finalize(adapter_states, chain_states, transitions[trans_key], rngs)", "            adapter.finalize(adapter_states, chain_states, next(iter(transitions.values())), rngs)"),
    m("c16-finalize-skip-fast", "R2", SA, "            adapter.finalize(adapter_states, chain_states, transitions[trans_key], rngs)", "            if not adapter.is_fast:\n                adapter.finalize(adapter_states, chain_states, transitions[trans_key], rngs)"),
    m("c16-twin-finalize-guard-truthy", None, SA, "                    if len(adapter_states) > 0:\n                        _finalize_adapters(", "                    if adapter_states:\n                        _finalize_adapters(", twin=True),
    m("c16-undo-F18", "R1", SG, "                if counter_next > n_slow_stage_iter or n_window_iter < 1:", "                if counter_next > n_slow_stage_iter:", key="no-progress"),
    m("c16-progress-guard-on-wrong-var", "R1", SG, "                if counter_next > n_slow_stage_iter or n_window_iter < 1:", "                if counter_next > n_slow_stage_iter or counter_next < 1:", key="no-progress"),
    m("c16-progress-guard-and", "R1", SG, "                if counter_next > n_slow_stage_iter or n_window_iter < 1:", "                if counter_next > n_slow_stage_iter and n_window_iter < 1:"),
    {"id": "c16-twin-progress-by-max", "prop": "C16", "rule": None, "twin": True, "edits": [
        {"file": SG, "old": "                if counter_next > n_slow_stage_iter or n_window_iter < 1:", "new": "                if counter_next > n_slow_stage_iter:"},
        {"file": SG, "old": "            n_window_iter = n_init_slow_window_iter\n", "new": "            n_window_iter = max(1, n_init_slow_window_iter)\n"},
        {"file": SG, "old": "                n_window_iter = int(self.slow_window_multiplier * n_window_iter)", "new": "                n_window_iter = max(1, int(self.slow_window_multiplier * n_window_iter))"}]},
    {"id": "c16-twin-progress-by-validation", "prop": "C16", "rule": None, "twin": True, "edits": [
        {"file": SG, "old": "                if counter_next > n_slow_stage_iter or n_window_iter < 1:", "new": "                if counter_next > n_slow_stage_iter:"},
        {"file": SG, "old": "        self.n_init_slow_window_iter = n_init_slow_window_iter\n", "new": "        if n_init_slow_window_iter < 1 or slow_window_multiplier < 1:\n            raise ValueError(\"window settings\")\n        self.n_init_slow_window_iter = n_init_slow_window_iter\n"}]},
    m("c16-twin-progress-guard-le0", None, SG, "                if counter_next > n_slow_stage_iter or n_window_iter < 1:", "                if n_window_iter <= 0 or counter_next > n_slow_stage_iter:", twin=True),
    m("c16-warmup-stage-needs-adapters", "R1", SG, "        if n_warm_up_iter > 0:\n            warm_up_trace_funcs = trace_funcs if trace_warm_up else None\n            sampling_stages[\"Adaptive warm up\"]", "        if n_warm_up_iter > 0 and (adapters or trace_warm_up):\n            warm_up_trace_funcs = trace_funcs if trace_warm_up else None\n            sampling_stages[\"Adaptive warm up\"]", key="condition"),
    m("c16-twin-warmup-cond-flipped", None, SG, "        if n_warm_up_iter > 0:\n            warm_up_trace_funcs = trace_funcs if trace_warm_up else None\n            sampling_stages[\"Adaptive warm up\"]", "        if 0 < n_warm_up_iter:\n            warm_up_trace_funcs = trace_funcs if trace_warm_up else None\n            sampling_stages[\"Adaptive warm up\"]", twin=True),
    m("c16-update-skipped-without-stats", "R2", SA, "                    state, trans_stats = transition.sample(state, rng)\n                    if adapters is not None and trans_key in adapters:", "                    state, trans_stats = transition.sample(state, rng)\n                    if trans_stats is None:\n                        continue\n                    if adapters is not None and trans_key in adapters:", key="adapter.update:condition"),
    m("c16-record-stats-from-trace-funcs", "R1", SG, "            record_stats = trace_warm_up\n            # initial fast adaptation stage", "            record_stats = warm_up_trace_funcs is not None\n            # initial fast adaptation stage", key="record_stats"),
    {'id': 'c16-stages-restart-from-initial-states', 'prop': 'C16', 'rule': 'R5', 'edits': [{'file': 'samplers.py', 'old': '                            init_state=chain_states,\n', 'new': '                            init_state=init_states,\n'}], 'key': 'iteration-count'},
    {'id': 'c16-finalize-with-initial-states', 'prop': 'C16', 'rule': 'R5', 'edits': [{'file': 'samplers.py', 'old': '                            adapter_states,\n                            chain_states,\n                            stage.adapters,', 'new': '                            adapter_states,\n                            init_states,\n                            stage.adapters,'}], 'key': 'finalize-chain-states'},
    {'id': 'c16-twin-sequential-index-loop', 'prop': 'C16', 'rule': None, 'edits': [{'file': 'samplers.py', 'old': '    for chain_index, (chain_iterator, chain_kwargs) in enumerate(\n        zip(chain_iterators, per_chain_kwargs, strict=True),\n    ):', 'new': '    pairs = list(zip(chain_iterators, per_chain_kwargs, strict=True))\n    for chain_index in range(len(pairs)):\n        chain_iterator, chain_kwargs = pairs[chain_index]'}], 'twin': True},
]
