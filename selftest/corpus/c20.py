U = "utils.py"


def m(id, rule, old, new, key=None, twin=False):
    d = {"id": id, "prop": "C20", "rule": rule, "edits": [{"file": U, "old": old, "new": new}]}
    if key:
        d["key"] = key
    if twin:
        d["twin"] = True
    return d


MUTANTS = [
    m("c20-undo-F1", "R1", "    if val > -LOG_2:\n", "    if val > LOG_2:\n", key="log1m_exp"),
    m("c20-threshold-too-close", "R1", "    if val > -LOG_2:\n", "    if val > -0.001:\n", key="cancellation"),
    m("c20-lse-no-inf-guard", "R1", "    if val1 == -inf and val2 == -inf:\n        return -inf\n    if val1 > val2:\n        return val1 + log1p_exp(val2 - val1)", "    if val1 > val2:\n        return val1 + log1p_exp(val2 - val1)", key="inf-inf"),
    m("c20-lde-no-equal-guard", "R1", "    if val1 == val2:\n        return -inf\n", ""),
    m("c20-log1p_exp-wrong-branch", "R1", "    if val > 0.0:\n        return val + log1p(exp(-val))\n    return log1p(exp(val))", "    if val > 0.0:\n        return val + log1p(-exp(-val))\n    return log1p(exp(val))"),
    m("c20-lde-args-swapped", "R1", "    return val1 + log1m_exp(val2 - val1)", "    return val1 + log1m_exp(val1 - val2)"),
    m("c20-undo-F13", "R2", "        if isinstance(other, LogRepFloat):\n            self.log_val = log_sum_exp(self.log_val, other.log_val)\n        elif other != 0:\n            self.log_val = log_sum_exp(self.log_val, log(other))\n        return self", "        if other == 0:\n            return self\n        if isinstance(other, LogRepFloat):\n            self.log_val = log_sum_exp(self.log_val, other.log_val)\n        else:\n            self.log_val = log_sum_exp(self.log_val, log(other))\n        return self"),
    m("c20-iadd-no-zero-guard", "R2", "        elif other != 0:\n            self.log_val = log_sum_exp(self.log_val, log(other))", "        else:\n            self.log_val = log_sum_exp(self.log_val, log(other))"),
    m("c20-mul-via-val", "R2", "            return LogRepFloat(log_val=self.log_val + other.log_val)", "            return LogRepFloat(val=self.val * other.val)"),
    m("c20-div-as-add", "R2", "            return LogRepFloat(log_val=self.log_val - other.log_val)", "            return LogRepFloat(log_val=self.log_val + other.log_val)"),
    m("c20-sub-guard-strict", "R2", "            if self.log_val >= other.log_val:\n                return LogRepFloat(log_val=log_diff_exp(", "            if self.log_val > other.log_val:\n                return LogRepFloat(log_val=log_diff_exp("),
    m("c20-twin-sub-guard-flipped", None, "            if self.log_val >= other.log_val:\n                return LogRepFloat(log_val=log_diff_exp(", "            if other.log_val <= self.log_val:\n                return LogRepFloat(log_val=log_diff_exp(", twin=True),
    m("c20-sub-args-swapped", "R2", "                return LogRepFloat(log_val=log_diff_exp(self.log_val, other.log_val))", "                return LogRepFloat(log_val=log_diff_exp(other.log_val, self.log_val))"),
    m("c20-lt-le", "R2", "    def __lt__(self, other: ScalarLike) -> bool:\n        if isinstance(other, LogRepFloat):\n            return self.log_val < other.log_val", "    def __lt__(self, other: ScalarLike) -> bool:\n        if isinstance(other, LogRepFloat):\n            return self.log_val <= other.log_val"),
    m("c20-ge-linear-gt", "R2", "            return self.log_val >= other.log_val\n        return self.val >= other", "            return self.log_val >= other.log_val\n        return self.val > other"),
    m("c20-ctor-ge", "R2", "            if val > 0:\n                self.log_val = log(val)", "            if val >= 0:\n                self.log_val = log(val)"),
    m("c20-add-mutates-self", "R3", "            return LogRepFloat(log_val=log_sum_exp(self.log_val, other.log_val))\n        return self.val + other", "            self.log_val = log_sum_exp(self.log_val, other.log_val)\n            return self\n        return self.val + other"),
    m("c20-rtruediv-inverted", "R2", "    def __rtruediv__(self, other: ScalarLike) -> ScalarLike:\n        return other / self.val", "    def __rtruediv__(self, other: ScalarLike) -> ScalarLike:\n        return self.val / other"),
    m("c20-rsub-sign", "R2", "        return (-self).__radd__(other)", "        return self.__sub__(other)"),
    m("c20-twin-threshold", None, "    if val > -LOG_2:\n", "    if val > -0.6931471805599453:\n", twin=True),
    m("c20-twin-lse-sym", None, "            return LogRepFloat(log_val=log_sum_exp(self.log_val, other.log_val))", "            return LogRepFloat(log_val=log_sum_exp(other.log_val, self.log_val))", twin=True),
    m("c20-twin-threshold-1", None, "    if val > -LOG_2:\n", "    if val > -1.0:\n", twin=True),
    {"id": "c20-val-cached-property", "prop": "C20", "rule": "R3", "key": "memoised-on-mutable", "edits": [{"file": U, "old": "from math import exp,", "new": "from functools import cached_property\nfrom math import exp,"}, {"file": U, "old": "    @property\n    def val(self) -> float:\n        try:\n            return exp(self.log_val)", "new": "    @cached_property\n    def val(self) -> float:\n        try:\n            return exp(self.log_val)"}]},
    m("c20-val-lazy-slot", "R3", "    def val(self) -> float:\n        try:\n            return exp(self.log_val)", "    def val(self) -> float:\n        if getattr(self, \"_val\", None) is not None:\n            return self._val\n        try:\n            self._val = exp(self.log_val)\n            return self._val", key="memoised-on-mutable"),
    m("c20-twin-val-local", None, "    def val(self) -> float:\n        try:\n            return exp(self.log_val)", "    def val(self) -> float:\n        log_val = self.log_val\n        try:\n            return exp(log_val)", twin=True),
    m("c20-cmp-safe-log-gt", "R2", "            return self.log_val > other.log_val\n        return self.val > other", "            return self.log_val > other.log_val\n        return self.log_val > (log(other) if other > 0 else -inf)"),
    m("c20-twin-cmp-safe-log-lt", None, "            return self.log_val < other.log_val\n        return self.val < other", "            return self.log_val < other.log_val\n        return self.log_val < (log(other) if other > 0 else -inf)", twin=True),
    m("c20-twin-cmp-log-space", None, "            return self.log_val < other.log_val\n        return self.val < other", "            return self.log_val < other.log_val\n        return other > 0 and self.log_val < log(other)", twin=True),
    m("c20-twin-cmp-swapped", None, "            return self.log_val >= other.log_val\n        return self.val >= other", "            return other.log_val <= self.log_val\n        return other <= self.val", twin=True),
    m("c20-lse-no-max-factoring", "R1", "    if val1 == -inf and val2 == -inf:\n        return -inf\n    if val1 > val2:\n        return val1 + log1p_exp(val2 - val1)\n    return val2 + log1p_exp(val1 - val2)", "    if val1 == -inf:\n        return val2\n    return val1 + log1p_exp(val2 - val1)", key="correction-argument-positive"),
    m("c20-twin-lse-ge", None, "    if val1 > val2:\n        return val1 + log1p_exp(val2 - val1)\n    return val2 + log1p_exp(val1 - val2)", "    if val1 >= val2:\n        return val1 + log1p_exp(val2 - val1)\n    return val2 + log1p_exp(val1 - val2)", twin=True),
    m("c20-mul-linearised", "R2", "            return LogRepFloat(log_val=self.log_val + other.log_val)", "            return exp(self.log_val + other.log_val)"),
    m("c20-twin-div-named", None, "            return LogRepFloat(log_val=self.log_val - other.log_val)", "            log_ratio = self.log_val - other.log_val\n            return LogRepFloat(log_val=log_ratio)", twin=True),
]
