M = "matrices.py"


def m(id, rule, old, new, key=None, twin=False):
    d = {"id": id, "prop": "C10", "rule": rule, "edits": [{"file": M, "old": old, "new": new}]}
    if key:
        d["key"] = key
    if twin:
        d["twin"] = True
    return d


MUTANTS = [
    m("c10-eig-right-order", "R1", "        return ((other @ self.eigvec) @ self.diag_eigval) @ self.eigvec.T", "        return ((other @ self.eigvec.T) @ self.diag_eigval) @ self.eigvec"),
    m("c10-invtri-drop-trans", "R1", "            other.T,\n            lower=self.lower,\n            trans=1,\n            check_finite=False,\n        ).T", "            other.T,\n            lower=self.lower,\n            check_finite=False,\n        ).T"),
    m("c10-trifact-left-no-T", "R1", "        return self.sign * (self.factor @ (self.factor.T @ other))", "        return self.sign * (self.factor @ (self.factor @ other))"),
    m("c10-trifact-array-no-sign", "R1", "        return self.sign * (self.factor @ self.factor.array.T)", "        return self.factor @ self.factor.array.T"),
    m("c10-lowrank-right-order", "R1", "                * (other @ self.left_factor_matrix)\n                @ self.inner_square_matrix\n            )\n            @ self.right_factor_matrix", "                * (other @ self.right_factor_matrix.T)\n                @ self.inner_square_matrix\n            )\n            @ self.left_factor_matrix.T"),
    m("c10-scaledorth-transpose", "R1", "        return ScaledOrthogonalMatrix(self._scalar, self._orth_array.T)\n\n    def _construct_inv", "        return ScaledOrthogonalMatrix(self._scalar, self._orth_array)\n\n    def _construct_inv"),
    m("c10-diag-right", "R1", "    def _right_matrix_multiply(self, other: NDArray) -> NDArray:\n        return self.diagonal * other", "    def _right_matrix_multiply(self, other: NDArray) -> NDArray:\n        return other / self.diagonal"),
    m("c10-undo-F6-capacitance", "R2", "                self.inner_square_matrix.inv.array\n                + self._sign\n                * (\n                    self.right_factor_matrix\n                    @ (self.square_matrix.inv @ self.left_factor_matrix.array)\n                ),", "                self.inner_square_matrix.inv.array\n                + (\n                    self.right_factor_matrix\n                    @ (self.square_matrix.inv @ self.left_factor_matrix.array)\n                ),"),
    m("c10-undo-F6-sqrt", "R2", "            i_inner + self._sign * (l_matrix.T @ (k_matrix @ l_matrix.array)),", "            i_inner + (l_matrix.T @ (k_matrix @ l_matrix.array)),"),
    m("c10-diagonal-no-sign", "R2", "        return self.square_matrix.diagonal + self._sign * (", "        return self.square_matrix.diagonal + ("),
    m("c10-eig-inv-not-reciprocal", "R4", "    def _construct_inv(self) -> EigendecomposedSymmetricMatrix:\n        return EigendecomposedSymmetricMatrix(self.eigvec, 1 / self.eigval)\n\n    def _construct_array", "    def _construct_inv(self) -> EigendecomposedSymmetricMatrix:\n        return EigendecomposedSymmetricMatrix(self.eigvec, self.eigval)\n\n    def _construct_array"),
    m("c10-eig-sqrt-no-root", "R4", "        return EigendecomposedPositiveDefiniteMatrix(self.eigvec, self.eigval**0.5)", "        return EigendecomposedPositiveDefiniteMatrix(self.eigvec, self.eigval)"),
    m("c10-trifact-inv-no-T", "R4", "            factor=self.factor.inv.T,\n            sign=self._sign,", "            factor=self.factor.inv,\n            sign=self._sign,"),
    m("c10-trifact-scalar-no-root", "R4", "            factor=abs(scalar) ** 0.5 * self.factor,\n            sign=self.sign * np.sign(scalar),", "            factor=abs(scalar) * self.factor,\n            sign=self.sign * np.sign(scalar),"),
    m("c10-trifact-scalar-sign-lost", "R4", "            factor=abs(scalar) ** 0.5 * self.factor,\n            sign=self.sign * np.sign(scalar),", "            factor=abs(scalar) ** 0.5 * self.factor,\n            sign=self.sign,"),
    m("c10-lowrank-inv-sign-kept", "R4", "            self.capacitance_matrix.inv,\n            self.inner_square_matrix.inv,\n            -self._sign,", "            self.capacitance_matrix.inv,\n            self.inner_square_matrix.inv,\n            self._sign,"),
    m("c10-lowrank-inv-no-cap-inverse", "R4", "            self.capacitance_matrix.inv,\n            self.inner_symmetric_matrix.inv,\n            -self._sign,", "            self.capacitance_matrix,\n            self.inner_symmetric_matrix.inv,\n            -self._sign,"),
    m("c10-lowrank-scalar-inner-unscaled", "R4", "            self.right_factor_matrix,\n            scalar * self.square_matrix,\n            scalar * self.inner_square_matrix,", "            self.right_factor_matrix,\n            scalar * self.square_matrix,\n            self.inner_square_matrix,"),
    m("c10-scaledident-inv", "R4", "        return ScaledIdentityMatrix(1 / self._scalar, self.shape[0])", "        return ScaledIdentityMatrix(self._scalar, self.shape[0])"),
    m("c10-posdiag-sqrt", "R4", "        return PositiveDiagonalMatrix(self.diagonal**0.5)", "        return PositiveDiagonalMatrix(self.diagonal)"),
    m("c10-invtri-scalar", "R4", "            self._inverse_array / scalar,", "            self._inverse_array * scalar,"),
    m("c10-dense-scalar-wrong-class", "R4", "        if (scalar > 0) == (self._sign == 1):\n            return DensePositiveDefiniteMatrix(\n                scalar * self.array,", "        if (scalar > 0) == (self._sign == 1):\n            return DensePositiveDefiniteMatrix(\n                abs(scalar) * self.array,"),
    m("c10-seed-capacitance-not-transposed", "R5", "                self._capacitance_matrix.T\n                if self._capacitance_matrix is not None\n                else None", "                self._capacitance_matrix\n                if self._capacitance_matrix is not None\n                else None"),
    m("c10-scalar-capacitance-multiplied", "R5", "            scalar * self.inner_symmetric_matrix,\n            (\n                self._capacitance_matrix / scalar", "            scalar * self.inner_symmetric_matrix,\n            (\n                self._capacitance_matrix * scalar"),
    m("c10-inv-capacitance-wrong", "R5", "            self.capacitance_matrix.inv,\n            self.inner_square_matrix.inv,\n            -self._sign,", "            self.capacitance_matrix.inv,\n            self.inner_square_matrix,\n            -self._sign,"),
    m("c10-tri-transpose-lower-kept", "R5", "            self.array.T,\n            lower=not self.lower,", "            self.array.T,\n            lower=self.lower,"),
    m("c10-invtri-inv-lower-flipped", "R5", "        return TriangularMatrix(\n            self._inverse_array,\n            lower=self.lower,", "        return TriangularMatrix(\n            self._inverse_array,\n            lower=not self.lower,"),
    m("c10-product-transpose-not-reversed", "R7", "        return type(self)(tuple(matrix.T for matrix in reversed(self.matrices)))", "        return type(self)(tuple(matrix.T for matrix in self.matrices))"),
    m("c10-product-inv-not-reversed", "R7", "            tuple(matrix.inv for matrix in reversed(self.matrices)),", "            tuple(matrix.inv for matrix in self.matrices),"),
    m("c10-product-left-order", "R7", "        for matrix in reversed(self.matrices):\n            other = matrix @ other\n        return other", "        for matrix in self.matrices:\n            other = matrix @ other\n        return other"),
    m("c10-product-scalar-at-end-twice", "R7", "        return type(self)((ScaledIdentityMatrix(scalar, self.shape[0]), *self.matrices))", "        return type(self)((ScaledIdentityMatrix(scalar, self.shape[0]), *self.matrices, ScaledIdentityMatrix(scalar, self.shape[0])))"),
    m("c10-blockdiag-right-axis", "R7", "                    self._split(other, axis=-1),\n                    strict=True,\n                )\n            ],\n            axis=-1,", "                    self._split(other, axis=-1),\n                    strict=True,\n                )\n            ],\n            axis=0,"),
    m("c10-blockdiag-right-order", "R7", "                part @ block\n                for block, part in zip(\n                    self._blocks,\n                    self._split(other, axis=-1),", "                block @ part\n                for block, part in zip(\n                    self._blocks,\n                    self._split(other, axis=-1),"),
    m("c10-blockdiag-inv-T", "R7", "        return type(self)(tuple(block.inv for block in self._blocks))", "        return type(self)(tuple(block.inv.T for block in self._blocks))"),
    m("c10-blockrow-transpose-no-T", "R7", "        return BlockColumnMatrix(tuple(block.T for block in self._blocks))", "        return BlockColumnMatrix(tuple(block for block in self._blocks))"),
    m("c10-blockrow-array-axis", "R7", "        return np.concatenate([block.array for block in self._blocks], axis=1)", "        return np.concatenate([block.array for block in self._blocks], axis=0)"),
    m("c10-blockcol-left-axis", "R7", "        return np.concatenate([block @ other for block in self._blocks], axis=0)", "        return np.concatenate([block @ other for block in self._blocks], axis=-1)"),
    m("c10-invlu-right-trans", "R1", "            other.T,\n            not self._inv_lu_transposed,\n            check_finite=False,\n        ).T", "            other.T,\n            self._inv_lu_transposed,\n            check_finite=False,\n        ).T"),
    m("c10-invlu-left-trans", "R1", "            other,\n            self._inv_lu_transposed,\n            check_finite=False,\n        )", "            other,\n            not self._inv_lu_transposed,\n            check_finite=False,\n        )"),
    m("c10-densesquare-transpose-flag", "R5", "        return DenseSquareMatrix(self._array.T, lu_and_piv, not self._lu_transposed)", "        return DenseSquareMatrix(self._array.T, lu_and_piv, self._lu_transposed)"),
    m("c10-invlu-transpose-flag", "R5", "            self._inv_lu_and_piv,\n            inv_lu_transposed=not self._inv_lu_transposed,", "            self._inv_lu_and_piv,\n            inv_lu_transposed=self._inv_lu_transposed,"),
    m("c10-densesym-inv", "R4", "    def _construct_inv(self) -> EigendecomposedSymmetricMatrix:\n        return EigendecomposedSymmetricMatrix(self.eigvec, 1 / self.eigval)\n\n\nclass OrthogonalMatrix", "    def _construct_inv(self) -> EigendecomposedSymmetricMatrix:\n        return EigendecomposedSymmetricMatrix(self.eigvec, self.eigval)\n\n\nclass OrthogonalMatrix"),
    m("c10-identity-scalar", "R4", "        if scalar > 0:\n            return PositiveScaledIdentityMatrix(scalar, self.shape[0])\n        return ScaledIdentityMatrix(scalar, self.shape[0])", "        if scalar > 0:\n            return PositiveScaledIdentityMatrix(scalar, self.shape[0])\n        return ScaledIdentityMatrix(-scalar, self.shape[0])"),
    m("c10-twin-assoc", None, "        return self.eigvec @ (self.diag_eigval @ (self.eigvec.T @ other))", "        return (self.eigvec @ self.diag_eigval) @ (self.eigvec.T @ other)", twin=True),
    m("c10-twin-scalar-order", None, "        return ScaledIdentityMatrix(scalar * self._scalar, self.shape[0])", "        return ScaledIdentityMatrix(self._scalar * scalar, self.shape[0])", twin=True),
    m("c10-twin-sign-position", None, "        return self.sign * (self.factor @ (self.factor.T @ other))", "        return self.factor @ (self.sign * (self.factor.T @ other))", twin=True),
    m("c10-product-array-missing-transpose", "R1", "        _array = rect_matrix @ (pos_def_matrix @ rect_matrix.T.array)", "        _array = rect_matrix @ (pos_def_matrix @ rect_matrix.array)"),
    m("c10-product-array-inner-inverted", "R1", "        _array = rect_matrix @ (pos_def_matrix @ rect_matrix.T.array)", "        _array = rect_matrix @ (pos_def_matrix.inv @ rect_matrix.T.array)"),
    m("c10-twin-product-array-regrouped", None, "        _array = rect_matrix @ (pos_def_matrix @ rect_matrix.T.array)", "        _array = (rect_matrix @ pos_def_matrix) @ rect_matrix.T.array", twin=True),
    m("c10-sqrt-from-inverse-cache", "R9", "        if self._sqrt is None:\n            self._sqrt = self._construct_sqrt()\n", "        if self._sqrt is None:\n            inv = self._inv\n            if isinstance(inv, PositiveDefiniteMatrix) and inv._sqrt is not None:\n                self._sqrt = inv._sqrt.inv\n            else:\n                self._sqrt = self._construct_sqrt()\n", key="slot-source"),
    m("c10-inv-returns-fresh", "R9", "        if self._inv is None:\n            self._inv = self._construct_inv()\n        return self._inv", "        if self._inv is None:\n            self._inv = self._construct_inv()\n        return self._construct_inv()", key="returns"),
    m("c10-triangular-only-lower-enforced", "R6", '        array = _make_array_triangular(array, lower=lower) if make_triangular else array\n', '        array = _make_array_triangular(array, lower=lower) if make_triangular and lower else array\n'),
    m("c10-twin-triangular-if-statement", None, '        array = _make_array_triangular(array, lower=lower) if make_triangular else array\n', '        if make_triangular:\n            array = _make_array_triangular(array, lower=lower)\n', twin=True),
]
