I = "integrators.py"


def m(id, prop, rule, old, new, key=None, twin=False, file=I):
    d = {"id": id, "prop": prop, "rule": rule, "edits": [{"file": file, "old": old, "new": new}]}
    if key:
        d["key"] = key
    if twin:
        d["twin"] = True
    return d


CHK_B_ADJ = """        state_back = state.copy()
        self._step_b_fwd(state_back, -time_step)
        rev_diff = self.reverse_check_norm(state_back.mom - mom_init)
        if rev_diff > self.reverse_check_tol:"""

MUTANTS = [
    m("c02-no-copy", "C02", "R1", "        state = state.copy()\n        try:\n            self._step(state, state.dir * self.step_size)", "        try:\n            self._step(state, state.dir * self.step_size)"),
    m("c02-drop-dir", "C02", "R2", "self._step(state, state.dir * self.step_size)", "self._step(state, self.step_size)"),
    m("c02-leapfrog-asym", "C02", "R3", "        self.system.h1_flow(state, 0.5 * time_step)\n        self.system.h2_flow(state, time_step)\n        self.system.h1_flow(state, 0.5 * time_step)", "        self.system.h1_flow(state, 0.25 * time_step)\n        self.system.h2_flow(state, time_step)\n        self.system.h1_flow(state, 0.75 * time_step)"),
    # A B C* C B* A* is a different but still symmetric scheme: must stay silent
    m("c02-twin-implicit-reorder", "C02", None, "        self._step_c_fwd(state, 0.5 * time_step)\n        self._step_c_adj(state, 0.5 * time_step)", "        self._step_c_adj(state, 0.5 * time_step)\n        self._step_c_fwd(state, 0.5 * time_step)", twin=True),
    m("c02-implicit-asym-order", "C02", "R3", "        self._step_c_adj(state, 0.5 * time_step)\n        self._step_b_adj(state, 0.5 * time_step)", "        self._step_b_adj(state, 0.5 * time_step)\n        self._step_c_adj(state, 0.5 * time_step)"),
    m("c02-check-deleted", "C02", "R4", CHK_B_ADJ + "\n            msg = (\n                f\"Non-reversible step. Distance between initial and forward-backward \"\n                f\"integrated momentums = {rev_diff:.1e}.\"\n            )\n            raise NonReversibleStepError(msg)\n", ""),
    m("c02-check-flipped", "C02", "R4", CHK_B_ADJ, CHK_B_ADJ.replace("rev_diff > self", "rev_diff < self")),
    m("c02-check-not-negated", "C02", "R4", CHK_B_ADJ, CHK_B_ADJ.replace("state_back, -time_step", "state_back, time_step")),
    m("c02-check-compares-state", "C02", "R4", CHK_B_ADJ, CHK_B_ADJ.replace("state_back.mom - mom_init", "state.mom - mom_init")),
    m("c02-check-wrong-var", "C02", "R4", "        rev_diff = self.reverse_check_norm(state_back.pos - pos_init)", "        rev_diff = self.reverse_check_norm(state_back.mom - state.mom)"),
    m("c02-saved-without-copy", "C02", "R4", "        pos_init = state.pos.copy()\n        state.pos += time_step * self.system.dh2_dmom(state)", "        pos_init = state.pos\n        state.pos += time_step * self.system.dh2_dmom(state)"),
    m("c02-constrained-check-after-loop", "C02", "R4", """            state_back = state.copy()
            self._h2_flow_retraction_onto_manifold(state_back, state, -time_step_inner)
            rev_diff = self.reverse_check_norm(state_back.pos - state_prev.pos)
            if rev_diff > self.reverse_check_tol:
                msg = (
                    f"Non-reversible step. Distance between initial and "
                    f"forward-backward integrated positions = {rev_diff:.1e}."
                )
                raise NonReversibleStepError(msg)""", """        state_back = state.copy()
        self._h2_flow_retraction_onto_manifold(state_back, state, -time_step_inner)
        rev_diff = self.reverse_check_norm(state_back.pos - state_prev.pos)
        if rev_diff > self.reverse_check_tol:
            msg = (
                f"Non-reversible step. Distance between initial and "
                f"forward-backward integrated positions = {rev_diff:.1e}."
            )
            raise NonReversibleStepError(msg)"""),
    m("c02-raise-wrong-class", "C02", "R4", "                raise NonReversibleStepError(msg)\n\n    def _step(self, state: ChainState, time_step: float) -> None:\n        self._step_a(state, 0.5 * time_step)\n        self._step_b(state, time_step)", "                raise ValueError(msg)\n\n    def _step(self, state: ChainState, time_step: float) -> None:\n        self._step_a(state, 0.5 * time_step)\n        self._step_b(state, time_step)"),
    # twins
    m("c02-twin-half", "C02", None, "        self.system.h1_flow(state, 0.5 * time_step)\n        self.system.h2_flow(state, time_step)\n        self.system.h1_flow(state, 0.5 * time_step)", "        half = time_step / 2\n        self.system.h1_flow(state, half)\n        self.system.h2_flow(state, 2 * half)\n        self.system.h1_flow(state, half)", twin=True),
    m("c02-twin-new-name", "C02", None, "        state = state.copy()\n        try:\n            self._step(state, state.dir * self.step_size)\n", "        new_state = state.copy()\n        state = new_state\n        try:\n            self._step(new_state, new_state.dir * self.step_size)\n", twin=True),
    m("c02-twin-check-ge", "C02", None, CHK_B_ADJ, CHK_B_ADJ.replace("rev_diff > self.reverse_check_tol", "self.reverse_check_tol < rev_diff"), twin=True),
    # ---- C06
    m("c06-undo-F2", "C06", "R1", "        self._step_a(state, 0.5 * time_step)\n        self._step_b_fwd(state, 0.5 * time_step)", "        self._step_a(state, time_step)\n        self._step_b_fwd(state, 0.5 * time_step)", key="ImplicitLeapfrogIntegrator"),
    m("c06-leapfrog-full-kick", "C06", "R1", "        self.system.h1_flow(state, 0.5 * time_step)\n        self.system.h2_flow(state, time_step)\n        self.system.h1_flow(state, 0.5 * time_step)", "        self.system.h1_flow(state, time_step)\n        self.system.h2_flow(state, time_step)\n        self.system.h1_flow(state, time_step)"),
    m("c06-inner-step-not-divided", "C06", "R1", "        time_step_inner = time_step / self.n_inner_step", "        time_step_inner = time_step"),
    m("c06-midpoint-full", "C06", "R1", "        self._step_a_fwd(state, time_step / 2)\n        self._step_a_adj(state, time_step / 2)", "        self._step_a_fwd(state, time_step)\n        self._step_a_adj(state, time_step)"),
    m("c06-sign-flip", "C06", "R1", "        state.mom -= time_step * self.system.dh2_dpos(state)", "        state.mom += time_step * self.system.dh2_dpos(state)"),
    m("c06-midpoint-sign", "C06", "R1", "                    -time_step * self.system.dh_dpos(state),", "                    time_step * self.system.dh_dpos(state),"),
    m("c06-wrong-derivative", "C06", "R1", "        state.pos += time_step * self.system.dh2_dmom(state)\n        state_back = state.copy()", "        state.pos += time_step * self.system.dh2_dpos(state)\n        state_back = state.copy()"),
    m("c06-dep-coeff-1", "C06", "R3", "            0.5 - sum(free_coefficients[(n_free_coefficients) % 2 :: 2]),", "            1 - sum(free_coefficients[(n_free_coefficients) % 2 :: 2]),"),
    m("c06-slice-parity", "C06", "R3", "            1 - 2 * sum(free_coefficients[(n_free_coefficients + 1) % 2 :: 2]),", "            1 - 2 * sum(free_coefficients[(n_free_coefficients) % 2 :: 2]),"),
    m("c06-mirror-slice", "C06", "R3", "        self.coefficients = coefficients + coefficients[-2::-1]", "        self.coefficients = coefficients + coefficients[::-1]"),
    m("c06-flows-count", "C06", "R3", "        self.flows = [flow_a, flow_b] * (n_free_coefficients + 1) + [flow_a]", "        self.flows = [flow_a, flow_b] * n_free_coefficients + [flow_a]"),
    m("c06-bcss-literal", "C06", "R1", "            (a_0, b_1, a_1),", "            (a_0, a_1, b_1),", twin=True),  # still consistent+symmetric: a different (valid) scheme -> must stay silent
    m("c06-drop-dir", "C06", "R0", "self._step(state, state.dir * self.step_size)", "self._step(state, state.dir * self.step_size * 2)"),
    m("c06-twin-div", "C06", None, "        self._step_a(state, 0.5 * time_step)\n        self._step_b(state, time_step)\n        self._step_a(state, 0.5 * time_step)", "        self._step_a(state, time_step / 2)\n        self._step_b(state, time_step)\n        self._step_a(state, time_step / 2)", twin=True),
]

DEF_C_ADJ = "    def _step_c_adj(self, state: ChainState, time_step: float) -> None:"
DEF_C_ADJ_G = "    def _step_c_adj(self, state: ChainState, time_step: float, pos_guess=None) -> None:"
SOLVE_C = "        pos_init = state.pos\n        state.pos = self._solve_fixed_point(fixed_point_func, pos_init)"
SOLVE_C_G = "        pos_init = state.pos\n        if pos_guess is None:\n            pos_guess = pos_init\n        state.pos = self._solve_fixed_point(fixed_point_func, pos_guess)"
MUTANTS += [
    {"id": "c02-check-warm-started", "prop": "C02", "rule": "R4", "edits": [
        {"file": I, "old": DEF_C_ADJ, "new": DEF_C_ADJ_G},
        {"file": I, "old": SOLVE_C, "new": SOLVE_C_G},
        {"file": I, "old": "        self._step_c_adj(state_back, -time_step)", "new": "        self._step_c_adj(state_back, -time_step, pos_guess=pos_init)"},
    ]},
    {"id": "c02-twin-guess-param-unused", "prop": "C02", "rule": None, "twin": True, "edits": [
        {"file": I, "old": DEF_C_ADJ, "new": DEF_C_ADJ_G},
        {"file": I, "old": SOLVE_C, "new": SOLVE_C_G},
    ]},
    {'id': 'c02-undo-F23-aux', 'prop': 'C02', 'rule': 'R9', 'key': 'cache-store-may-alias-variable', 'edits': [{'file': 'states.py', 'old': '                        state._cache[k] = _without_variable_aliasing(state, v)\n', 'new': '                        state._cache[k] = v\n'}]},
    {'id': 'c02-midpoint-retries-smaller-steps', 'prop': 'C02', 'rule': 'R10', 'edits': [{'file': 'integrators.py', 'old': '        self._step_a_fwd(state, time_step / 2)\n        self._step_a_adj(state, time_step / 2)\n', 'new': '        pos_init, mom_init = state.pos.copy(), state.mom.copy()\n        try:\n            self._step_a_fwd(state, time_step / 2)\n            self._step_a_adj(state, time_step / 2)\n        except ConvergenceError:\n            state.pos, state.mom = pos_init, mom_init\n            for _ in range(2):\n                self._step_a_fwd(state, time_step / 4)\n                self._step_a_adj(state, time_step / 4)\n'}], 'key': 'fallback-after'},
]
