T = "transitions.py"
SA = "samplers.py"


def m(id, rule, old, new, key=None, twin=False, file=T):
    d = {"id": id, "prop": "C01", "rule": rule, "edits": [{"file": file, "old": old, "new": new}]}
    if key:
        d["key"] = key
    if twin:
        d["twin"] = True
    return d


FLIP2 = "        # Reverse integration direction of new state\n        # As extended target distribution is symmetric in direction indicator\n        # this always leaves the distribution invariant\n        state.dir *= -1\n        return state, stats"

MUTANTS = [
    m("c01-no-proposal-flip", "R1", "            # Reverse integration direction of proposal to form an involution\n            state_p.dir *= -1\n", ""),
    m("c01-no-final-flip", "R1", FLIP2, "        return state, stats"),
    m("c01-final-flip-only-on-accept", "R1", "        if not integration_error and rng.uniform() < accept_prob:\n            state = state_p\n" + FLIP2, "        if not integration_error and rng.uniform() < accept_prob:\n            state = state_p\n            state.dir *= -1\n        return state, stats"),
    m("c01-double-final-flip", "R1", FLIP2, FLIP2.replace("        state.dir *= -1\n", "        state.dir *= -1\n        state.dir = -state.dir\n")),
    m("c01-nstep-guard-removed", "R1b", "        if n_step <= 0:\n            msg = \"Number of integrator steps must be positive.\"\n            raise ValueError(msg)\n", ""),
    m("c01-ratio-inner-denominator", "R2", "        accept_outer_prob = self._weight_ratio(outer_tree.weight, tree.weight)", "        accept_outer_prob = self._weight_ratio(outer_tree.weight, inner_tree.weight)"),
    m("c01-ratio-inner-numerator", "R2", "        accept_outer_prob = self._weight_ratio(outer_tree.weight, tree.weight)", "        accept_outer_prob = self._weight_ratio(inner_tree.weight, tree.weight)"),
    m("c01-select-inner-on-success", "R2", "            outer_proposal if rng.uniform() < accept_outer_prob else inner_proposal", "            inner_proposal if rng.uniform() < accept_outer_prob else outer_proposal"),
    m("c01-top-select-gt", "R2", "            if rng.uniform() < accept_proposal_prob:\n                next_state = new_proposal", "            if rng.uniform() > accept_proposal_prob:\n                next_state = new_proposal"),
    m("c01-merge-positive-from-neg", "R3", "            positive=pos_subtree.positive,", "            positive=neg_subtree.positive,"),
    m("c01-merge-weight", "R3", "            weight=neg_subtree.weight + pos_subtree.weight,", "            weight=neg_subtree.weight,"),
    m("c01-merge-order-swapped", "R3", "        neg_subtree = inner_tree if state.dir == 1 else outer_tree\n        pos_subtree = outer_tree if state.dir == 1 else inner_tree", "        neg_subtree = outer_tree if state.dir == 1 else inner_tree\n        pos_subtree = inner_tree if state.dir == 1 else outer_tree"),
    m("c01-continue-wrong-edge", "R3", "        state = inner_tree.positive if state.dir == 1 else inner_tree.negative", "        state = inner_tree.negative if state.dir == 1 else inner_tree.positive"),
    m("c01-top-continue-wrong-edge", "R3", "            state = tree.positive if direction == 1 else tree.negative", "            state = tree.positive if direction == -1 else tree.negative"),
    m("c01-termination-asymmetric", "R4", "                pos_subtree.sum_mom + neg_subtree.positive.mom,", "                pos_subtree.sum_mom + neg_subtree.negative.mom,"),
    m("c01-termination-one-extra-check", "R4", "            ) or self.termination_criterion(\n                self.system,\n                neg_subtree.positive,\n                pos_subtree.positive,\n                pos_subtree.sum_mom + neg_subtree.positive.mom,\n            )", "            )"),
    m("c01-biased-direction", "R5", "            direction = 2 * (rng.uniform() < 0.5) - 1", "            direction = 2 * (rng.uniform() < 0.6) - 1"),
    m("c01-count-after-divergence-check", "R6", "                stats[\"n_step\"] += 1\n                # default to assuming valid and then check for divergence\n                terminate = False\n                self._check_divergence(h, aux_vars)", "                # default to assuming valid and then check for divergence\n                terminate = False\n                self._check_divergence(h, aux_vars)\n                stats[\"n_step\"] += 1"),
    m("c01-mean-divides-by-depth", "R6", "            stats[\"av_metrop_accept_prob\"] = sum_accept_prob / stats[\"n_step\"]", "            stats[\"av_metrop_accept_prob\"] = sum_accept_prob / 2**depth"),
    m("c01-ratio-reversed", "R7", "            h_diff = h_init - h_final", "            h_diff = h_final - h_init"),
    m("c01-accept-gt", "R7", "        if not integration_error and rng.uniform() < accept_prob:", "        if not integration_error and rng.uniform() > accept_prob:"),
    m("c01-weight-sign", "R9", "        return LogRepFloat(log_val=-h)", "        return LogRepFloat(log_val=h)"),
    m("c01-slice-indicator", "R9", "        return (aux_vars[\"log_u\"] <= -h) * 1", "        return (aux_vars[\"log_u\"] >= -h) * 1"),
    m("c01-log_u-sign", "R9", "        aux_vars[\"log_u\"] = np.log(rng.uniform()) - aux_vars[\"h_init\"]", "        aux_vars[\"log_u\"] = np.log(rng.uniform()) + aux_vars[\"h_init\"]"),
    m("c01-seed-slice-divergence-h_init", "R9", "        if h + aux_vars[\"log_u\"] > self.max_delta_h:\n            msg = f\"delta_h = {h + aux_vars['log_u']}\"", "        if h - aux_vars[\"h_init\"] > self.max_delta_h:\n            msg = f\"delta_h = {h - aux_vars['h_init']}\""),
    m("c01-ratio-no-cap", "R9", "        return min(numerator / denominator, 1)\n\n    def _check_divergence(self, h: ScalarLike, aux_vars: dict[str, ScalarLike]) -> None:\n        if h - aux_vars", "        return numerator / denominator\n\n    def _check_divergence(self, h: ScalarLike, aux_vars: dict[str, ScalarLike]) -> None:\n        if h - aux_vars"),
    m("c01-initial-leaf-zero-energy", "R11", "        tree = self._new_leave(state, aux_vars[\"h_init\"], aux_vars)", "        tree = self._new_leave(state, 0.0, aux_vars)"),
    m("c01-leaf-sum-mom", "R11", "            sum_mom=np.asarray(state.mom),", "            sum_mom=np.zeros_like(state.mom),"),
    m("c01-twin-flip-form", None, "            state_p.dir *= -1\n", "            state_p.dir = -state_p.dir\n", twin=True),
    m("c01-twin-uniform-progressive-top", None, "            accept_proposal_prob = self._weight_ratio(new_tree.weight, tree.weight)", "            accept_proposal_prob = self._weight_ratio(new_tree.weight, tree.weight)\n            _ = None", twin=True),
    m("c01-twin-accept-order", None, "        if not integration_error and rng.uniform() < accept_prob:", "        if not integration_error and accept_prob > rng.uniform():", twin=True),
    m("c01-slice-weight-boolean", "R9", '        return (aux_vars["log_u"] <= -h) * 1', '        return aux_vars["log_u"] <= -h'),
    m("c01-twin-slice-weight-int", None, '        return (aux_vars["log_u"] <= -h) * 1', '        return int(aux_vars["log_u"] <= -h)', twin=True),
    m("c01-random-length-depends-on-dir", "R1b", "        n_step = rng.integers(*self.n_step_range)\n", "        n_step = rng.integers(*self.n_step_range) + (state.dir > 0)\n"),
    m("c01-twin-random-length-unpacked", None, "        n_step = rng.integers(*self.n_step_range)\n", "        lower, upper = self.n_step_range\n        n_step = rng.integers(lower, upper)\n", twin=True),
    m("c01-break-on-none-tree", "R12", "            if terminate:\n                break\n            # progressively sample new state", "            if new_tree is None:\n                break\n            # progressively sample new state", key="subtree-used-without-flag-test"),
    m("c01-inner-terminate-ignored", "R12", "        if terminate:\n            return terminate, None, None\n        # build 'outer' subtree", "        if inner_tree is None:\n            return terminate, None, None\n        # build 'outer' subtree", key="subtree-used-without-flag-test"),
    m("c01-terminate-identity-test", "R12", "            if terminate:\n                break\n            # progressively sample new state", "            if terminate is True:\n                break\n            # progressively sample new state", key="subtree-used-without-flag-test"),  # the criterion returns numpy booleans: `np.True_ is True` is False
    m("c01-twin-terminate-eq-true", None, "            if terminate:\n                break\n            # progressively sample new state", "            if terminate == True:  # noqa: E712\n                break\n            # progressively sample new state", twin=True),
    m("c01-termination-needs-steps", "R13", '            if self._termination_criterion(tree, neg_subtree, pos_subtree):\n                break\n', '            if stats["n_step"] > 2 and self._termination_criterion(tree, neg_subtree, pos_subtree):\n                break\n'),
    m("c01-termination-negated-exempt", "R13", '            if self._termination_criterion(tree, neg_subtree, pos_subtree):\n                break\n', '            if depth == 0:\n                continue\n            if self._termination_criterion(tree, neg_subtree, pos_subtree):\n                break\n'),
    m("c01-twin-termination-named", None, '            if self._termination_criterion(tree, neg_subtree, pos_subtree):\n                break\n', '            stop = self._termination_criterion(tree, neg_subtree, pos_subtree)\n            if stop:\n                break\n', twin=True),
    {'id': 'c01-metropolis-accepts-on-equal', 'prop': 'C01', 'rule': 'R14', 'edits': [{'file': 'transitions.py', 'old': '        if not integration_error and rng.uniform() < accept_prob:\n            state = state_p\n', 'new': '        if not integration_error and rng.uniform() > accept_prob:\n            state = state_p\n'}], 'key': 'accept-rule'},
    {'id': 'c01-twin-metropolis-accept-named', 'prop': 'C01', 'rule': None, 'edits': [{'file': 'transitions.py', 'old': '        if not integration_error and rng.uniform() < accept_prob:\n            state = state_p\n', 'new': '        accepted = not integration_error and rng.uniform() < accept_prob\n        if accepted:\n            state = state_p\n'}], 'twin': True},
]
