SO = "solvers.py"
T = "transitions.py"
E = "errors.py"
I = "integrators.py"
A = "adapters.py"


def m(id, rule, file, old, new, key=None, twin=False, prop="C12"):
    d = {"id": id, "prop": prop, "rule": rule, "edits": [{"file": file, "old": old, "new": new}]}
    if key:
        d["key"] = key
    if twin:
        d["twin"] = True
    return d


FP_DIRECT_TEST = """            if error > divergence_tol or np.isnan(error):
                msg = (
                    f"Fixed point iteration diverged on iteration {i}. "
                    f"Last error={error:.1e}."
                )
                raise ConvergenceError(msg)
            if error < convergence_tol:
                return x
            x0 = x
    except (ValueError, LinAlgError) as e:
        # Make robust to errors in intermediate linear algebra ops
        msg = f"{type(e)} at iteration {i} of fixed point solver ({e})."
        raise ConvergenceError(msg) from e
    msg = f"Fixed point iteration did not converge. Last error={error:.1e}."
    raise ConvergenceError(msg)


def solve_fixed_point_steffensen("""

MUTANTS = [
    m("c12-return-in-divergence-branch", "R1", SO, FP_DIRECT_TEST, FP_DIRECT_TEST.replace("                raise ConvergenceError(msg)\n            if error < convergence_tol:", "                return x\n            if error < convergence_tol:")),
    m("c12-conv-test-flipped", "R1", SO, FP_DIRECT_TEST, FP_DIRECT_TEST.replace("if error < convergence_tol:", "if error > convergence_tol:")),
    m("c12-qn-test-position-only", "R1", SO, "            if error < constraint_tol and norm(delta_pos) < position_tol:\n                state.mom -= np.sign(time_step) * dh2_flow_mom_dmom @ mu\n                return state\n            mu += delta_mu\n            state.pos -= delta_pos\n    except (ValueError, LinAlgError) as e:\n        # Make robust to errors in intermediate linear algebra ops\n        msg = f\"{type(e)} at iteration {i} of quasi-Newton", "            if norm(delta_pos) < position_tol:\n                state.mom -= np.sign(time_step) * dh2_flow_mom_dmom @ mu\n                return state\n            mu += delta_mu\n            state.pos -= delta_pos\n    except (ValueError, LinAlgError) as e:\n        # Make robust to errors in intermediate linear algebra ops\n        msg = f\"{type(e)} at iteration {i} of quasi-Newton"),
    m("c12-qn-or-instead-of-and", "R1", SO, "            if error < constraint_tol and norm(delta_pos) < position_tol:\n                state.mom -= np.sign(time_step) * dh2_flow_mom_dmom @ mu\n                return state\n            mu += delta_mu\n            state.pos -= delta_pos\n    except (ValueError, LinAlgError) as e:\n        # Make robust to errors in intermediate linear algebra ops\n        msg = f\"{type(e)} at iteration {i} of quasi-Newton", "            if error < constraint_tol or norm(delta_pos) < position_tol:\n                state.mom -= np.sign(time_step) * dh2_flow_mom_dmom @ mu\n                return state\n            mu += delta_mu\n            state.pos -= delta_pos\n    except (ValueError, LinAlgError) as e:\n        # Make robust to errors in intermediate linear algebra ops\n        msg = f\"{type(e)} at iteration {i} of quasi-Newton"),
    m("c12-qn-update-before-test", "R1", SO, "            if error < constraint_tol and norm(delta_pos) < position_tol:\n                state.mom -= np.sign(time_step) * dh2_flow_mom_dmom @ mu\n                return state\n            mu += delta_mu\n            state.pos -= delta_pos\n    except (ValueError, LinAlgError) as e:\n        # Make robust to errors in intermediate linear algebra ops\n        msg = f\"{type(e)} at iteration {i} of quasi-Newton", "            mu += delta_mu\n            state.pos -= delta_pos\n            if error < constraint_tol and norm(delta_pos) < position_tol:\n                state.mom -= np.sign(time_step) * dh2_flow_mom_dmom @ mu\n                return state\n    except (ValueError, LinAlgError) as e:\n        # Make robust to errors in intermediate linear algebra ops\n        msg = f\"{type(e)} at iteration {i} of quasi-Newton"),
    m("c12-delete-final-raise", "R2", SO, '    msg = f"Fixed point iteration did not converge. Last error={error:.1e}."\n    raise ConvergenceError(msg)\n\n\ndef solve_fixed_point_steffensen(', '    msg = f"Fixed point iteration did not converge. Last error={error:.1e}."\n\n\ndef solve_fixed_point_steffensen('),
    m("c12-final-raise-valueerror", "R2", SO, '    msg = f"Fixed point iteration did not converge. Last error={error:.1e}."\n    raise ConvergenceError(msg)\n\n\ndef solve_fixed_point_steffensen(', '    msg = f"Fixed point iteration did not converge. Last error={error:.1e}."\n    raise ValueError(msg)\n\n\ndef solve_fixed_point_steffensen('),
    m("c12-narrow-except", "R3", SO, "    except (ValueError, LinAlgError) as e:\n        # Make robust to errors in intermediate linear algebra ops\n        msg = f\"{type(e)} at iteration {i} of quasi-Newton", "    except ValueError as e:\n        # Make robust to errors in intermediate linear algebra ops\n        msg = f\"{type(e)} at iteration {i} of quasi-Newton"),
    m("c12-user-call-above-try", "R3", SO, "    for i in range(max_iters):\n        try:\n            jacob_constr = system.jacob_constr(state)\n            constr = system.constr(state)", "    for i in range(max_iters):\n        jacob_constr = system.jacob_constr(state)\n        try:\n            constr = system.constr(state)"),
    m("c12-base-class-changed", "R4", E, "class ConvergenceError(IntegratorError):", "class ConvergenceError(Error):"),
    m("c12-nonrev-base-changed", "R4", E, "class NonReversibleStepError(IntegratorError):", "class NonReversibleStepError(Error):"),
    m("c12-try-removed-metropolis", "R5", T, "        try:\n            for _s in range(n_step):\n                state_p = self.integrator.step(state_p)\n        except IntegratorError as e:\n            integration_error = True\n            stats[\"n_step\"] = _s\n            _process_integrator_error(e, stats)\n        else:\n            stats[\"n_step\"] = n_step\n            # Reverse integration direction of proposal to form an involution\n            state_p.dir *= -1\n", "        for _s in range(n_step):\n            state_p = self.integrator.step(state_p)\n        stats[\"n_step\"] = n_step\n        # Reverse integration direction of proposal to form an involution\n        state_p.dir *= -1\n"),
    m("c12-catch-convergence-only", "R5", T, "            except IntegratorError as e:\n                _process_integrator_error(e, stats)\n                terminate, tree, proposal = True, None, None", "            except ConvergenceError as e:\n                _process_integrator_error(e, stats)\n                terminate, tree, proposal = True, None, None"),
    m("c12-accept-on-error", "R6", T, "        if not integration_error and rng.uniform() < accept_prob:", "        if rng.uniform() < accept_prob:"),
    m("c12-handler-no-record", "R6", T, "            integration_error = True\n            stats[\"n_step\"] = _s\n            _process_integrator_error(e, stats)\n", "            integration_error = True\n            stats[\"n_step\"] = _s\n"),
    m("c12-error-return-not-terminate", "R6", T, "                terminate, tree, proposal = True, None, None", "                terminate, tree, proposal = False, None, None"),
    m("c12-ladder-drop-nonrev", "R6", T, "    elif isinstance(exception, NonReversibleStepError):\n        stats[\"non_reversible_step\"] = True\n", ""),
    m("c12-use-before-terminate-test", "R6", T, "            if terminate:\n                break\n            # progressively sample new state", "            # progressively sample new state"),
    m("c12-drop-isnan-guard", "R7", T, "            accept_prob = 0.0 if np.isnan(h_diff) else np.exp(min(0, h_diff))", "            accept_prob = np.exp(min(0, h_diff))"),
    m("c12-drop-h-sanitise", "R7", T, "                h = np.inf if np.isnan(h) else h\n", ""),
    m("c12-flag-keys-swapped", "R6", T, "    elif isinstance(exception, NonReversibleStepError):\n        stats[\"non_reversible_step\"] = True\n    elif isinstance(exception, ConvergenceError):\n        stats[\"convergence_error\"] = True", "    elif isinstance(exception, NonReversibleStepError):\n        stats[\"convergence_error\"] = True\n    elif isinstance(exception, ConvergenceError):\n        stats[\"non_reversible_step\"] = True"),
    # twins
    m("c12-twin-nested-if", None, SO, "            if error < convergence_tol:\n                return x\n            x0 = x\n    except (ValueError, LinAlgError) as e:\n        # Make robust to errors in intermediate linear algebra ops\n        msg = f\"{type(e)} at iteration {i} of fixed point solver ({e}).\"\n        raise ConvergenceError(msg) from e\n    msg = f\"Fixed point iteration did not converge. Last error={error:.1e}.\"\n    raise ConvergenceError(msg)\n\n\ndef solve_fixed_point_steffensen(", "            if not error >= convergence_tol:\n                return x\n            x0 = x\n    except (ValueError, LinAlgError) as e:\n        # Make robust to errors in intermediate linear algebra ops\n        msg = f\"{type(e)} at iteration {i} of fixed point solver ({e}).\"\n        raise ConvergenceError(msg) from e\n    msg = f\"Fixed point iteration did not converge. Last error={error:.1e}.\"\n    raise ConvergenceError(msg)\n\n\ndef solve_fixed_point_steffensen(", twin=True),
    m("c12-twin-split-and", None, SO, "            if error < constraint_tol and norm(delta_pos) < position_tol:\n                state.mom -= np.sign(time_step) * dh2_flow_mom_dmom @ mu\n                return state\n            mu += delta_mu\n            state.pos -= delta_pos\n    except (ValueError, LinAlgError) as e:\n        # Make robust to errors in intermediate linear algebra ops\n        msg = f\"{type(e)} at iteration {i} of quasi-Newton", "            if error < constraint_tol:\n                if norm(delta_pos) < position_tol:\n                    state.mom -= np.sign(time_step) * dh2_flow_mom_dmom @ mu\n                    return state\n            mu += delta_mu\n            state.pos -= delta_pos\n    except (ValueError, LinAlgError) as e:\n        # Make robust to errors in intermediate linear algebra ops\n        msg = f\"{type(e)} at iteration {i} of quasi-Newton", twin=True),
    m("c12-twin-catch-error-base", None, T, "            except IntegratorError as e:\n                _process_integrator_error(e, stats)\n                terminate, tree, proposal = True, None, None", "            except Error as e:\n                _process_integrator_error(e, stats)\n                terminate, tree, proposal = True, None, None", twin=True),
    {"id": "c12-undo-F22", "prop": "C12", "rule": "R9", "key": "foreign-exception-escapes", "edits": [{"file": "integrators.py", "old": "        try:\n            self._step(state, state.dir * self.step_size)\n        except (ValueError, LinAlgError) as e:\n            # Make robust to errors in intermediate linear algebra ops outside of the\n            # iterative solvers, for example due to non-finite values\n            msg = f\"{type(e)} when computing integrator step ({e}).\"\n            raise ConvergenceError(msg) from e\n", "new": "        self._step(state, state.dir * self.step_size)\n"}]},
    {"id": "c12-step-handler-valueerror-only", "prop": "C12", "rule": "R9", "key": "foreign-exception-escapes", "edits": [{"file": "integrators.py", "old": "        except (ValueError, LinAlgError) as e:\n            # Make robust to errors in intermediate linear algebra ops outside of the", "new": "        except ValueError as e:\n            # Make robust to errors in intermediate linear algebra ops outside of the"}]},
    {'id': 'c12-error-keeps-partial-trajectory', 'prop': 'C12', 'rule': 'R11', 'edits': [{'file': 'transitions.py', 'old': '        if not integration_error and rng.uniform() < accept_prob:', 'new': '        if rng.uniform() < accept_prob:'}], 'key': 'error-not-rejected'},
    {'id': 'c12-error-accept-stat-kept', 'prop': 'C12', 'rule': 'R11', 'edits': [{'file': 'transitions.py', 'old': '        stats["accept_stat"] = accept_prob if not integration_error else 0.0\n', 'new': '        stats["accept_stat"] = accept_prob\n'}], 'key': 'accept-stat-after-error'},
]
