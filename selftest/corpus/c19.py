M = "matrices.py"


def m(id, rule, old, new, key=None, twin=False):
    d = {"id": id, "prop": "C19", "rule": rule, "edits": [{"file": M, "old": old, "new": new}]}
    if key:
        d["key"] = key
    if twin:
        d["twin"] = True
    return d


MUTANTS = [
    m("c19-inplace-other", "R1", "    def _left_matrix_multiply(self, other: NDArray) -> NDArray:\n        return self._scalar * other\n\n    def _right_matrix_multiply(self, other: NDArray) -> NDArray:\n        return self._scalar * other\n\n    @property\n    def eigval", "    def _left_matrix_multiply(self, other: NDArray) -> NDArray:\n        other *= self._scalar\n        return other\n\n    def _right_matrix_multiply(self, other: NDArray) -> NDArray:\n        return self._scalar * other\n\n    @property\n    def eigval"),
    m("c19-seed-inplace-via-identity", "R1", "        return self.square_matrix @ other + (\n            self._sign\n            * self.left_factor_matrix\n            @ (self.inner_square_matrix @ (self.right_factor_matrix @ other))\n        )", "        result = self.square_matrix @ other\n        result += (\n            self._sign\n            * self.left_factor_matrix\n            @ (self.inner_square_matrix @ (self.right_factor_matrix @ other))\n        )\n        return result"),
    m("c19-nonslot-store", "R1", "    @property\n    def log_abs_det(self) -> float:\n        lu, piv = self.lu_and_piv\n        return np.log(np.abs(lu.diagonal())).sum()", "    @property\n    def log_abs_det(self) -> float:\n        lu, piv = self.lu_and_piv\n        self._last_lu = lu\n        return np.log(np.abs(lu.diagonal())).sum()"),
    m("c19-slot-overwritten-unguarded", "R1", "        if self._inv is None:\n            self._inv = self._construct_inv()\n        return self._inv", "        self._inv = self._construct_inv()\n        return self._inv"),
    m("c19-fill-diagonal-on-attr", "R1", "        den_j_mtx = self.unreg_eigval[:, None] - self.unreg_eigval[None, :]\n", "        den_j_mtx = self.unreg_eigval\n        np.fill_diagonal(den_j_mtx, 1)\n"),
    m("c19-diag-unfrozen", "R2", "        super().__init__((diagonal.size, diagonal.size), _diagonal=diagonal)", "        super().__init__((diagonal.size, diagonal.size))\n        self._diagonal = diagonal"),
    m("c19-undo-freeze-inv-array", "R2", "        super().__init__(inv_array.shape, _inv_array=inv_array)", "        super().__init__(inv_array.shape)\n        self._inv_array = inv_array"),
    m("c19-freezing-line-removed", "R2", "            if isinstance(v, np.ndarray):\n                v.flags.writeable = False\n", ""),
    m("c19-undo-F11-eq", "R3", "            and self.inner_symmetric_matrix == other.inner_symmetric_matrix\n            and self._sign == other._sign  # noqa: SLF001\n", "            and self.inner_symmetric_matrix == other.inner_symmetric_matrix\n"),
    m("c19-eq-drops-scalar", "R3", "        return self.shape == other.shape and self.scalar == other.scalar", "        return self.shape == other.shape"),
    m("c19-hash-extra-attr", "R3", "        return hash_array(self._inv_array)", "        return hash((hash_array(self._inv_array), self._inv_lu_transposed))"),
    m("c19-eq-no-class", "R3", "        return other is self or (\n            other.__class__ == self.__class__ and self._check_equality(other)\n        )", "        return other is self or self._check_equality(other)"),
    m("c19-twin-fresh-inplace", None, "        inv_matrix_vector = self.inv @ vector\n        return -np.outer(inv_matrix_vector, inv_matrix_vector)", "        inv_matrix_vector = self.inv @ vector\n        out = np.outer(inv_matrix_vector, inv_matrix_vector)\n        out *= -1\n        return out", twin=True),
    m("c19-twin-hash-order", None, "        return hash((self.factor, self.sign))", "        return hash((self.sign, self.factor))", twin=True),
    m("c19-lu-scaled-in-place-unpacked", "R1", "        old_lu, piv = self._lu_and_piv\n        # Multiply upper-triangle by scalar\n        new_lu = old_lu + (scalar - 1) * np.triu(old_lu)\n", "        old_lu, piv = self._lu_and_piv\n        new_lu = old_lu\n        new_lu[np.triu_indices_from(new_lu)] *= scalar\n", key="inplace:self._lu_and_piv"),
    m("c19-twin-lu-copy-then-inplace", None, "        old_lu, piv = self._lu_and_piv\n        # Multiply upper-triangle by scalar\n        new_lu = old_lu + (scalar - 1) * np.triu(old_lu)\n", "        old_lu, piv = self._lu_and_piv\n        new_lu = old_lu + 0.0\n        new_lu[np.triu_indices_from(new_lu)] *= scalar\n", twin=True),
    {"id": "c19-undo-F19", "prop": "C19", "rule": "R5", "key": "hash_array", "edits": [{"file": "utils.py", "old": "    return hash(canonical.tobytes())", "new": "    return hash(array.tobytes())"}]},
    {"id": "c19-hash-keeps-signed-zero", "prop": "C19", "rule": "R5", "key": "missing:zero", "edits": [{"file": "utils.py", "old": "np.result_type(array, np.float64)) + 0.0", "new": "np.result_type(array, np.float64))"}]},
    {"id": "c19-hash-keeps-dtype", "prop": "C19", "rule": "R5", "key": "missing:dtype", "edits": [{"file": "utils.py", "old": "    canonical = np.ascontiguousarray(array, np.result_type(array, np.float64)) + 0.0", "new": "    canonical = np.ascontiguousarray(array) + 0.0"}]},
    {"id": "c19-hash-mixes-strides", "prop": "C19", "rule": "R5", "key": "raw:strides", "edits": [{"file": "utils.py", "old": "    return hash(canonical.tobytes())", "new": "    return hash((canonical.tobytes(), array.strides))"}]},
    {"id": "c19-twin-hash-astype", "prop": "C19", "rule": None, "twin": True, "edits": [{"file": "utils.py", "old": "    canonical = np.ascontiguousarray(array, np.result_type(array, np.float64)) + 0.0", "new": "    canonical = np.ascontiguousarray(array, dtype=np.result_type(array, np.float64))\n    canonical = canonical + 0.0"}]},
    m("c19-make-triangular-in-place-mask", "R1", "    return np.tril(array) if lower else np.triu(array)", "    rows, cols = np.indices(array.shape)\n    array[(cols > rows) if lower else (cols < rows)] = 0\n    return array"),
    m("c19-twin-make-triangular-where", None, "    return np.tril(array) if lower else np.triu(array)", "    rows, cols = np.indices(array.shape)\n    return np.where((cols <= rows) if lower else (cols >= rows), array, 0)", twin=True),
    {'id': 'c19-array-hook-alias-through-local', 'prop': 'C19', 'rule': 'R7', 'edits': [{'file': 'matrices.py', 'old': '    def __array__(self) -> NDArray:\n        return self.array\n', 'new': '    def __array__(self, dtype=None, copy=None) -> NDArray:\n        arr = self.array\n        return arr\n'}]},
    {'id': 'c19-twin-array-hook-honours-copy', 'prop': 'C19', 'rule': None, 'edits': [{'file': 'matrices.py', 'old': '    def __array__(self) -> NDArray:\n        return self.array\n', 'new': '    def __array__(self, dtype=None, copy=None) -> NDArray:\n        if dtype is not None and dtype != self.array.dtype:\n            return self.array.astype(dtype)\n        if copy:\n            return self.array.copy()\n        return self.array\n'}], 'twin': True},
]
