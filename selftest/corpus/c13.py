SA = "samplers.py"
T = "transitions.py"


def m(id, rule, old, new, key=None, twin=False, file=SA):
    d = {"id": id, "prop": "C13", "rule": rule, "edits": [{"file": file, "old": old, "new": new}]}
    if key:
        d["key"] = key
    if twin:
        d["twin"] = True
    return d


MUTANTS = [
    m("c13-undo-F7", "R1", "        if n_process is None:\n            n_process = os.cpu_count() or 1\n", "", key="n_process"),
    m("c13-trace_funcs-len-unguarded", "R1", "                if trace_funcs is None or len(trace_funcs) == 0", "                if len(trace_funcs) == 0"),
    m("c13-adapters-unguarded", "R1", "                if adapters is None or all(\n                    a.is_fast for a_list in adapters.values() for a in a_list\n                ):", "                if all(\n                    a.is_fast for a_list in adapters.values() for a in a_list\n                ):"),
    m("c13-stat-undeclared", "R2", '        stats["metrop_accept_prob"] = accept_prob\n', '        stats["metrop_accept_prob"] = accept_prob\n        stats["h_final"] = h_init\n', file=T),
    m("c13-stat-one-branch", "R2", '        else:\n            stats["n_step"] = n_step\n            # Reverse', '        else:\n            # Reverse', file=T),
    m("c13-stat-declared-not-returned", "R2", '        self._statistic_types["reject_prob"] = (np.float64, np.nan)\n', '        self._statistic_types["reject_prob"] = (np.float64, np.nan)\n        self._statistic_types["n_leapfrog"] = (np.int64, -1)\n', file=T),
    m("c13-metropolis-declares-diverging", "R2", '        self._statistic_types["metrop_accept_prob"] = (np.float64, np.nan)\n', '        self._statistic_types["metrop_accept_prob"] = (np.float64, np.nan)\n        self._statistic_types["diverging"] = (bool, False)\n', file=T),
    m("c13-stats-index-plus1", "R3", "                            sample_index + sampling_index_offset,\n                            chain_stats,", "                            sample_index + sampling_index_offset + 1,\n                            chain_stats,"),
    m("c13-trace-index-no-offset", "R3", "                            chain_traces[key][sample_index + sampling_index_offset] = (\n                                val\n                            )", "                            chain_traces[key][sample_index] = (\n                                val\n                            )"),
    m("c13-seed-offset-assign", "R3", "                        sampling_index_offset += stage.n_iter", "                        sampling_index_offset = stage.n_iter"),
    m("c13-offset-unconditional", "R3", "                    if stage.trace_funcs is not None or stage.record_stats:\n                        sampling_index_offset += stage.n_iter", "                    sampling_index_offset += stage.n_iter"),
    m("c13-n_trace_iter", "R3", "        n_trace_iter = n_warm_up_iter + n_main_iter if trace_warm_up else n_main_iter", "        n_trace_iter = n_warm_up_iter + n_main_iter"),
    m("c13-memmap-fill", "R4", "                        _open_new_memmap(filename, n_iter, val, dtype)", "                        _open_new_memmap(filename, n_iter, 0, dtype)"),
    m("c13-inmem-shape", "R4", "                        (n_chain, n_iter, *array_val.shape),", "                        (n_chain, n_iter + 1, *array_val.shape),"),
    m("c13-no-memmap-for-parallel", "R4", "        use_memmap = force_memmap or n_process > 1", "        use_memmap = force_memmap"),
    m("c13-twin-offset-add", None, "                        sampling_index_offset += stage.n_iter", "                        sampling_index_offset = sampling_index_offset + stage.n_iter", twin=True),
    m("c13-twin-narrow-ifexp", None, "        if n_process is None:\n            n_process = os.cpu_count() or 1\n", "        n_process = (os.cpu_count() or 1) if n_process is None else n_process\n", twin=True),
    {'id': 'c13-collate-reversed', 'prop': 'C13', 'rule': 'R8', 'edits': [{'file': 'samplers.py', 'old': '        final_states_stack.append(final_state)\n', 'new': '        final_states_stack.insert(0, final_state)\n'}], 'key': 'final-state'},
    {'id': 'c13-stats-row-one-behind', 'prop': 'C13', 'rule': 'R8', 'edits': [{'file': 'samplers.py', 'old': '                        _update_chain_stats(\n                            sample_index + sampling_index_offset,', 'new': '                        _update_chain_stats(\n                            max(sample_index + sampling_index_offset - 1, 0),'}], 'key': 'stats-row'},
    {'id': 'c13-twin-sequential-index-loop', 'prop': 'C13', 'rule': None, 'edits': [{'file': 'samplers.py', 'old': '    for chain_index, (chain_iterator, chain_kwargs) in enumerate(\n        zip(chain_iterators, per_chain_kwargs, strict=True),\n    ):', 'new': '    pairs = list(zip(chain_iterators, per_chain_kwargs, strict=True))\n    for chain_index in range(len(pairs)):\n        chain_iterator, chain_kwargs = pairs[chain_index]'}], 'twin': True},
    {'id': 'c13-n-step-counts-attempted', 'prop': 'C13', 'rule': 'R9', 'edits': [{'file': 'transitions.py', 'old': '            stats["n_step"] = _s\n', 'new': '            stats["n_step"] = _s + 1\n'}], 'key': 'n_step'},
]
