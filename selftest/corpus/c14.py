SA = "samplers.py"


def m(id, rule, old, new, key=None, twin=False, file=SA):
    d = {"id": id, "prop": "C14", "rule": rule, "edits": [{"file": file, "old": old, "new": new}]}
    if key:
        d["key"] = key
    if twin:
        d["twin"] = True
    return d


WB = """            for i, _, rng_state in indexed_chain_outputs:
                per_chain_kwargs[i]["rng"].bit_generator.state = rng_state
"""

MUTANTS = [
    m("c14-jumped-const", "R1", "bit_generator.jumped(i)) for i in range(n_chain)", "bit_generator.jumped(1)) for i in range(n_chain)"),
    m("c14-jump-depends-on-n_chain", "R1", "bit_generator.jumped(i)) for i in range(n_chain)", "bit_generator.jumped(i + n_chain)) for i in range(n_chain)"),
    m("c14-rngs-in-stage-loop", "R1", "            per_chain_rngs = _get_per_chain_rngs(self.rng, n_chain)\n", "", ),
    m("c14-global-rng", "R2", "        return self.metric.sqrt @ rng.standard_normal(state.pos.shape)", "        return self.metric.sqrt @ np.random.standard_normal(state.pos.shape)", file="systems.py"),
    m("c14-unseeded-rng", "R2", "    rng = np.random.default_rng(seed)", "    rng = np.random.default_rng()", file="interop.py"),
    m("c14-append-in-arrival-order", "R3", '            indexed_chain_outputs.sort(key=lambda indexed_output: indexed_output[0])\n            chain_outputs = [outp for _, outp, _ in indexed_chain_outputs]\n', "            chain_outputs = []\n            for _i, outp, _s in indexed_chain_outputs:\n                chain_outputs.append(outp)\n"),
    m("c14-sorted-then-reversed-source", "R3", '            indexed_chain_outputs.sort(key=lambda indexed_output: indexed_output[0])\n            chain_outputs = [outp for _, outp, _ in indexed_chain_outputs]\n', "            ordered = sorted(indexed_chain_outputs, key=lambda t: t[0])\n            chain_outputs = [outp for _, outp, _ in indexed_chain_outputs]\n"),
    m("c14-twin-sorted-call", None, '            indexed_chain_outputs.sort(key=lambda indexed_output: indexed_output[0])\n            chain_outputs = [outp for _, outp, _ in indexed_chain_outputs]\n', "            ordered = sorted(indexed_chain_outputs, key=lambda t: t[0])\n            chain_outputs = [outp for _, outp, _ in ordered]\n", twin=True),
    m("c14-twin-index-addressed-store", None, '            indexed_chain_outputs.sort(key=lambda indexed_output: indexed_output[0])\n            chain_outputs = [outp for _, outp, _ in indexed_chain_outputs]\n', "            chain_outputs = [None] * len(indexed_chain_outputs)\n            for i, outp, _s in indexed_chain_outputs:\n                chain_outputs[i] = outp\n", twin=True),
    m("c14-init-search-warm-start", "R5", "        integrator.step_size = 1\n        delta_h_threshold", "        if integrator.step_size is None:\n            integrator.step_size = 1\n        delta_h_threshold", file="adapters.py"),
    m("c14-init-search-no-reset", "R5", "        integrator.step_size = 1\n        delta_h_threshold", "        delta_h_threshold", file="adapters.py"),
    m("c14-init-search-reset-scaled", "R5", "        integrator.step_size = 1\n        delta_h_threshold", "        integrator.step_size = 0.5 * integrator.step_size if integrator.step_size else 1\n        delta_h_threshold", file="adapters.py"),
    m("c14-twin-init-search-reset-float", None, "        integrator.step_size = 1\n        delta_h_threshold", "        integrator.step_size = 1.0\n        delta_h_threshold", file="adapters.py", twin=True),
    m("c14-no-sort", "R3", "            indexed_chain_outputs.sort(key=lambda indexed_output: indexed_output[0])\n", ""),
    m("c14-sort-wrong-key", "R3", "indexed_chain_outputs.sort(key=lambda indexed_output: indexed_output[0])", "indexed_chain_outputs.sort(key=lambda indexed_output: id(indexed_output[1]))"),
    m("c14-undo-F8-writeback", "R4", WB, ""),
    m("c14-undo-F8-worker", "R4", "                rng_state = chain_kwargs[\"rng\"].bit_generator.state\n                chain_outputs.append((chain_index, outputs, rng_state))", "                rng_state = None\n                chain_outputs.append((chain_index, outputs, rng_state))"),
    m("c14-kwargs-not-materialised", "R4", "    per_chain_kwargs = list(per_chain_kwargs)\n", ""),
    m("c14-writeback-wrong-index", "R4", WB, WB.replace("per_chain_kwargs[i]", "per_chain_kwargs[0]")),
    m("c14-twin-alias", None, WB, "            for i, _, rng_state in indexed_chain_outputs:\n                chain_rng = per_chain_kwargs[i][\"rng\"]\n                chain_rng.bit_generator.state = rng_state\n", twin=True),
    m("c14-twin-sorted", None, "            indexed_chain_outputs.sort(key=lambda indexed_output: indexed_output[0])\n            chain_outputs = [outp for _, outp, _ in indexed_chain_outputs]", "            indexed_chain_outputs = sorted(indexed_chain_outputs, key=lambda item: item[0])\n            chain_outputs = [outp for _, outp, _ in indexed_chain_outputs]", twin=True),
    m("c14-single-chain-shortcut", "R1", "    if bit_generator is not None and hasattr(bit_generator, \"jumped\"):\n        return [default_rng(bit_generator.jumped(i)) for i in range(n_chain)]", "    if bit_generator is not None and n_chain == 1:\n        return [default_rng(bit_generator)]\n    if bit_generator is not None and hasattr(bit_generator, \"jumped\"):\n        return [default_rng(bit_generator.jumped(i)) for i in range(n_chain)]", key="branch-on-chain-count"),
    # after an interrupt sample_chains returns and the per-chain generators (local to the call) are never used again:
    # skipping the write-back then is unobservable - a twin (the structural rule used to demand it unconditionally)
    m("c14-twin-writeback-only-without-exception", None, WB, '            if exception is None:\n                for i, _, rng_state in indexed_chain_outputs:\n                    per_chain_kwargs[i]["rng"].bit_generator.state = rng_state\n', twin=True),
    m("c14-writeback-skips-first", "R4", WB, '            for i, _, rng_state in indexed_chain_outputs[1:]:\n                per_chain_kwargs[i]["rng"].bit_generator.state = rng_state\n'),
    m("c14-twin-writeback-unpack-all", None, WB, '            for indexed_output in indexed_chain_outputs:\n                i, _, rng_state = indexed_output\n                per_chain_kwargs[i]["rng"].bit_generator.state = rng_state\n', twin=True),
    {'id': 'c14-collate-reversed', 'prop': 'C14', 'rule': 'R6', 'edits': [{'file': 'samplers.py', 'old': '        final_states_stack.append(final_state)\n', 'new': '        final_states_stack.insert(0, final_state)\n'}]},
    {'id': 'c14-writeback-to-mirrored-chain', 'prop': 'C14', 'rule': 'R6', 'edits': [{'file': 'samplers.py', 'old': '                per_chain_kwargs[i]["rng"].bit_generator.state = rng_state\n', 'new': '                per_chain_kwargs[n_chain - 1 - i]["rng"].bit_generator.state = rng_state\n'}], 'key': 'stream-foreign'},
    {'id': 'c14-twin-sequential-index-loop', 'prop': 'C14', 'rule': None, 'edits': [{'file': 'samplers.py', 'old': '    for chain_index, (chain_iterator, chain_kwargs) in enumerate(\n        zip(chain_iterators, per_chain_kwargs, strict=True),\n    ):', 'new': '    pairs = list(zip(chain_iterators, per_chain_kwargs, strict=True))\n    for chain_index in range(len(pairs)):\n        chain_iterator, chain_kwargs = pairs[chain_index]'}], 'twin': True},
    {'id': 'c14-stats-template-on-class', 'prop': 'C14', 'rule': 'R8', 'key': 'statistics-dict-shared', 'edits': [{'file': 'transitions.py', 'old': '        self._statistic_types["metrop_accept_prob"] = (np.float64, np.nan)\n', 'new': '        self._statistic_types["metrop_accept_prob"] = (np.float64, np.nan)\n        self._stats_template = {"convergence_error": False, "non_reversible_step": False}\n'}, {'file': 'transitions.py', 'old': '        stats = {\n            "convergence_error": False,\n            "non_reversible_step": False,\n            "step_size": self.integrator.step_size,\n        }\n', 'new': '        stats = self._stats_template\n        stats["step_size"] = self.integrator.step_size\n'}]},
]
