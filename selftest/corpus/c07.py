S = "systems.py"
M = "matrices.py"


def m(id, rule, old, new, key=None, twin=False, file=S):
    d = {"id": id, "prop": "C07", "rule": rule, "edits": [{"file": file, "old": old, "new": new}]}
    if key:
        d["key"] = key
    if twin:
        d["twin"] = True
    return d


FLOW_POS = "            cos_omega_dt * eigvec_trans_pos + (sin_omega_dt * omega) * eigvec_trans_mom"
FLOW_MOM = "            cos_omega_dt * eigvec_trans_mom - (sin_omega_dt / omega) * eigvec_trans_pos"

MUTANTS = [
    m("c07-kick-sign", "R1", "        state.mom -= dt * self.dh1_dpos(state)", "        state.mom += dt * self.dh1_dpos(state)"),
    m("c07-kick-writes-pos", "R1", "        state.mom -= dt * self.dh1_dpos(state)", "        state.mom -= dt * self.dh1_dpos(state)\n        state.pos = state.pos + 0 * dt"),
    m("c07-drift-factor", "R1", "        state.pos += dt * self.dh2_dmom(state)", "        state.pos += 0.5 * dt * self.dh2_dmom(state)"),
    m("c07-drift-wrong-derivative", "R1", "        state.pos += dt * self.dh2_dmom(state)", "        state.pos += dt * self.dh1_dpos(state)"),
    m("c07-wrong-frequency", "R2", "    def h2_flow(self, state: ChainState, dt: ScalarLike) -> None:\n        omega = 1.0 / self.metric.eigval**0.5", "    def h2_flow(self, state: ChainState, dt: ScalarLike) -> None:\n        omega = 1.0 / self.metric.eigval"),
    m("c07-rotation-sign", "R2", FLOW_MOM, FLOW_MOM.replace(" - (sin_omega_dt", " + (sin_omega_dt")),
    m("c07-omega-misplaced", "R2", FLOW_POS, FLOW_POS.replace("(sin_omega_dt * omega)", "(sin_omega_dt / omega)")),
    m("c07-cos-sin-swapped", "R2", FLOW_POS, FLOW_POS.replace("cos_omega_dt * eigvec_trans_pos", "sin_omega_dt * eigvec_trans_pos")),
    m("c07-missing-rotation-back", "R2", "        state.mom = self.metric.eigvec @ (\n" + FLOW_MOM + "\n        )", "        state.mom = (\n" + FLOW_MOM + "\n        )"),
    m("c07-eigvec-not-transposed", "R2", "        eigvec_trans_mom = self.metric.eigvec.T @ state.mom", "        eigvec_trans_mom = self.metric.eigvec @ state.mom"),
    m("c07-trig-arg", "R2", "        sin_omega_dt, cos_omega_dt = np.sin(omega * dt), np.cos(omega * dt)\n        eigvec_trans_pos", "        sin_omega_dt, cos_omega_dt = np.sin(omega * dt), np.cos(dt)\n        eigvec_trans_pos"),
    m("c07-jacobian-omega-div", "R3", "                sin_omega_dt * omega,\n            ),", "                sin_omega_dt / omega,\n            ),"),
    m("c07-jacobian-swapped", "R3", "            matrices.EigendecomposedSymmetricMatrix(self.metric.eigvec, cos_omega_dt),\n        )", "            matrices.EigendecomposedSymmetricMatrix(self.metric.eigvec, sin_omega_dt),\n        )"),
    m("c07-euclid-jacobian-metric", "R3", "        return (dt * self.metric.inv, matrices.IdentityMatrix(self.metric.shape[0]))", "        return (dt * self.metric, matrices.IdentityMatrix(self.metric.shape[0]))"),
    m("c07-undo-F10", "R4", "    def diagonal(self) -> NDArray:\n        return np.ones(() if self.shape[0] is None else self.shape[0])", "    def diagonal(self) -> NDArray:\n        return np.ones(self.shape[0])", file=M),
    m("c07-seed-cached-omega", "R5", "    def h2_flow(self, state: ChainState, dt: ScalarLike) -> None:\n        omega = 1.0 / self.metric.eigval**0.5", "    def _omega(self):\n        if self._om is None:\n            self._om = 1.0 / self.metric.eigval**0.5\n        return self._om\n\n    def h2_flow(self, state: ChainState, dt: ScalarLike) -> None:\n        omega = self._omega()"),
    m("c07-twin-omega-form", None, "    def h2_flow(self, state: ChainState, dt: ScalarLike) -> None:\n        omega = 1.0 / self.metric.eigval**0.5", "    def h2_flow(self, state: ChainState, dt: ScalarLike) -> None:\n        omega = self.metric.eigval**-0.5", twin=True),
    m("c07-twin-kick-form", None, "        state.mom -= dt * self.dh1_dpos(state)", "        state.mom = state.mom - self.dh1_dpos(state) * dt", twin=True),
    m("c07-isotropic-fast-path-sequential", "R2", "        sin_omega_dt, cos_omega_dt = np.sin(omega * dt), np.cos(omega * dt)\n        eigvec_trans_pos = self.metric.eigvec.T @ state.pos\n", "        sin_omega_dt, cos_omega_dt = np.sin(omega * dt), np.cos(omega * dt)\n        if isinstance(self.metric, matrices.ScaledIdentityMatrix):\n            state.pos = cos_omega_dt * state.pos + (sin_omega_dt * omega) * state.mom\n            state.mom = cos_omega_dt * state.mom - (sin_omega_dt / omega) * state.pos\n            return\n        eigvec_trans_pos = self.metric.eigvec.T @ state.pos\n", key="fast path"),
    m("c07-twin-isotropic-fast-path", None, "        sin_omega_dt, cos_omega_dt = np.sin(omega * dt), np.cos(omega * dt)\n        eigvec_trans_pos = self.metric.eigvec.T @ state.pos\n", "        sin_omega_dt, cos_omega_dt = np.sin(omega * dt), np.cos(omega * dt)\n        if isinstance(self.metric, matrices.ScaledIdentityMatrix):\n            pos, mom = state.pos, state.mom\n            state.pos = cos_omega_dt * pos + (sin_omega_dt * omega) * mom\n            state.mom = cos_omega_dt * mom - (sin_omega_dt / omega) * pos\n            return\n        eigvec_trans_pos = self.metric.eigvec.T @ state.pos\n", twin=True),
]
