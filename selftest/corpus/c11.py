M = "matrices.py"


def m(id, rule, old, new, key=None, twin=False):
    d = {"id": id, "prop": "C11", "rule": rule, "edits": [{"file": M, "old": old, "new": new}]}
    if key:
        d["key"] = key
    if twin:
        d["twin"] = True
    return d


MUTANTS = [
    m("c11-undo-F5", "R1", "            -2 * np.outer(inv_vector, inv_factor_vector),", "            -2 * self.sign * np.outer(inv_vector, inv_factor_vector),"),
    m("c11-seed-abs-diagonal", "R1", "        return np.diag(2 / self.factor.diagonal)", "        return np.diag(2 / np.abs(self.factor.diagonal))"),
    m("c11-undo-F6-grad-lad", "R1", "            2\n            * self._sign\n            * (self.inv @ (self.factor_matrix.array @ self.inner_pos_def_matrix))", "            2\n            * (self.inv @ (self.factor_matrix.array @ self.inner_pos_def_matrix))"),
    m("c11-undo-F6-grad-qfi", "R1", "            -2\n            * self._sign\n            * np.outer(", "            -2\n            * np.outer("),
    m("c11-lowrank-inner-missing", "R1", "            * (self.inv @ (self.factor_matrix.array @ self.inner_pos_def_matrix))", "            * (self.inv @ self.factor_matrix.array)"),
    m("c11-diag-grad-forward", "R2", "    def grad_quadratic_form_inv(self, vector: NDArray) -> NDArray:\n        return -((self.inv @ vector) ** 2)", "    def grad_quadratic_form_inv(self, vector: NDArray) -> NDArray:\n        return -((self @ vector) ** 2)"),
    m("c11-diag-grad-no-square", "R2", "    def grad_quadratic_form_inv(self, vector: NDArray) -> NDArray:\n        return -((self.inv @ vector) ** 2)", "    def grad_quadratic_form_inv(self, vector: NDArray) -> NDArray:\n        return -(self.inv @ vector)"),
    m("c11-scalar-grad-lad-inverted", "R2", "        return self.shape[0] / self._scalar", "        return self.shape[0] * self._scalar"),
    m("c11-scalar-qfi-power", "R2", "        return -np.sum(vector**2) / self._scalar**2", "        return -np.sum(vector**2) / self._scalar"),
    m("c11-tri-factor-not-inverted", "R2", "        inv_factor_vector = self.factor.inv @ vector", "        inv_factor_vector = self.factor @ vector"),
    m("c11-dense-grad-lad-forward", "R2", "    def grad_log_abs_det(self) -> NDArray:\n        return self.inv.array\n\n    def grad_quadratic_form_inv(self, vector: NDArray) -> NDArray:\n        inv_matrix_vector = self.inv @ vector\n        return -np.outer(inv_matrix_vector, inv_matrix_vector)", "    def grad_log_abs_det(self) -> NDArray:\n        return self.array\n\n    def grad_quadratic_form_inv(self, vector: NDArray) -> NDArray:\n        inv_matrix_vector = self.inv @ vector\n        return -np.outer(inv_matrix_vector, inv_matrix_vector)"),
    m("c11-product-grad-one-vector", "R2", "            self._pos_def_matrix @ (self._rect_matrix.T @ inv_matrix_vector),\n        )", "            self._pos_def_matrix @ self._rect_matrix.T,\n        )"),
    m("c11-seed-woodbury-rewrite-drops-sign", "R1", "            2\n            * self._sign\n            * (self.inv @ (self.factor_matrix.array @ self.inner_pos_def_matrix))", "            2\n            * (self.pos_def_matrix.inv @ (self.factor_matrix.array @ self.capacitance_matrix.inv))"),
    m("c11-twin-woodbury-rewrite-with-sign", None, "            2\n            * self._sign\n            * (self.inv @ (self.factor_matrix.array @ self.inner_pos_def_matrix))", "            2\n            * self._sign\n            * (self.pos_def_matrix.inv @ (self.factor_matrix.array @ self.capacitance_matrix.inv))", twin=True),
    m("c11-twin-factor-two", None, "        return np.diag(2 / self.factor.diagonal)", "        return 2 * np.diag(1 / self.factor.diagonal)", twin=True),
    m("c11-twin-outer-order", None, "        return -np.outer(inv_matrix_vector, inv_matrix_vector)", "        return np.outer(-inv_matrix_vector, inv_matrix_vector)", twin=True),
    m("c11-softabs-logdet-times-eigval", "R2", "        grad_eigval = self.grad_softabs(self.unreg_eigval) / self.eigval", "        grad_eigval = self.grad_softabs(self.unreg_eigval) * self.eigval"),
    m("c11-softabs-logdet-grad-at-regularised", "R1", "        grad_eigval = self.grad_softabs(self.unreg_eigval) / self.eigval", "        grad_eigval = self.grad_softabs(self.eigval) / self.eigval"),
    m("c11-softabs-den-regularised", "R1", "        den_j_mtx = self.unreg_eigval[:, None] - self.unreg_eigval[None, :]", "        den_j_mtx = self.eigval[:, None] - self.eigval[None, :]"),
    m("c11-softabs-coincident-uses-divided-difference", "R6", "                self.grad_softabs(mid_j_mtx),\n                num_j_mtx / den_j_mtx,", "                num_j_mtx / den_j_mtx,\n                num_j_mtx / den_j_mtx,"),
    m("c11-softabs-evct-unscaled", "R2", "        e_vct = (self.eigvec.T @ vector) / self.eigval", "        e_vct = self.eigvec.T @ vector"),
    m("c11-softabs-limit-value-not-derivative", "R1", "                self.grad_softabs(mid_j_mtx),\n", "                self.softabs(mid_j_mtx),\n"),
    m("c11-block-logdet-skips-last", "R3", "            return tuple(block.grad_log_abs_det for block in self._blocks)", "            return tuple(block.grad_log_abs_det for block in self._blocks[:-1])"),
    m("c11-block-quadform-whole-vector", "R3", "                block.grad_quadratic_form_inv(vector_part)\n", "                block.grad_quadratic_form_inv(vector)\n"),
    m("c11-block-quadform-reversed-parts", "R3", "                    self._split(vector, axis=0),\n                    strict=True,", "                    reversed(self._split(vector, axis=0)),\n                    strict=True,"),
    m("c11-twin-block-logdet-listcomp", None, "            return tuple(block.grad_log_abs_det for block in self._blocks)", "            return tuple([b.grad_log_abs_det for b in self._blocks])", twin=True),
    m("c11-product-logdet-factor", "R4", "        return 2 * (self.inv @ (self._rect_matrix.array @ self._pos_def_matrix))", "        return self.inv @ (self._rect_matrix.array @ self._pos_def_matrix)"),
    m("c11-product-quadform-side", "R4", "            self._pos_def_matrix @ (self._rect_matrix.T @ inv_matrix_vector),\n        )", "            self._pos_def_matrix @ (self._rect_matrix.T @ vector),\n        )"),
    m("c11-dense-quadform-not-negated", "R4", "        return -np.outer(inv_matrix_vector, inv_matrix_vector)", "        return np.outer(inv_matrix_vector, inv_matrix_vector)"),
    m("c11-trifactored-outer-swapped", "R4", "            -2 * np.outer(inv_vector, inv_factor_vector),", "            -2 * np.outer(inv_factor_vector, inv_vector),"),
    m("c11-dense-quadform-cho-solve-convention", "R4", "        inv_matrix_vector = self.inv @ vector\n        return -np.outer(inv_matrix_vector, inv_matrix_vector)", "        inv_matrix_vector = sla.cho_solve((self.factor.array, self.factor.lower), vector)\n        return -np.outer(inv_matrix_vector, inv_matrix_vector)"),
    m("c11-twin-dense-quadform-cho-solve-lower", None, "        inv_matrix_vector = self.inv @ vector\n        return -np.outer(inv_matrix_vector, inv_matrix_vector)", "        inv_matrix_vector = self._sign * sla.cho_solve((self.factor.array, True), vector)\n        return -np.outer(inv_matrix_vector, inv_matrix_vector)", twin=True),
    m("c11-reciprocal-int-unsafe", "R5", "    def grad_log_abs_det(self) -> NDArray:\n        return 1.0 / self.diagonal", "    def grad_log_abs_det(self) -> NDArray:\n        return np.reciprocal(self.diagonal)", key="int-unsafe"),
    m("c11-twin-reciprocal-float", None, "    def grad_log_abs_det(self) -> NDArray:\n        return 1.0 / self.diagonal", "    def grad_log_abs_det(self) -> NDArray:\n        return np.reciprocal(self.diagonal.astype(np.float64))", twin=True),
    m("c11-twin-divide", None, "    def grad_log_abs_det(self) -> NDArray:\n        return 1.0 / self.diagonal", "    def grad_log_abs_det(self) -> NDArray:\n        return np.divide(1.0, self.diagonal)", twin=True),
    m("c11-undo-F20", "R6", "        with np.errstate(divide=\"ignore\", invalid=\"ignore\"):\n            j_mtx = np.where(\n                is_coincident,\n                self.grad_softabs(mid_j_mtx),\n                num_j_mtx / den_j_mtx,\n            )\n", "        num_j_mtx += np.diag(self.grad_softabs(self.unreg_eigval))\n        np.fill_diagonal(den_j_mtx, 1)\n        j_mtx = num_j_mtx / den_j_mtx\n", key="divided-difference"),
    m("c11-twin-coincident-masked-store", None, "        with np.errstate(divide=\"ignore\", invalid=\"ignore\"):\n            j_mtx = np.where(\n                is_coincident,\n                self.grad_softabs(mid_j_mtx),\n                num_j_mtx / den_j_mtx,\n            )\n", "        with np.errstate(divide=\"ignore\", invalid=\"ignore\"):\n            quotient = num_j_mtx / den_j_mtx\n        j_mtx = np.where(is_coincident, self.grad_softabs(mid_j_mtx), quotient)\n", twin=True),
]
