S = "systems.py"
T = "transitions.py"
M = "matrices.py"


def m(id, rule, file, old, new, key=None, twin=False):
    d = {"id": id, "prop": "C08", "rule": rule, "edits": [{"file": file, "old": old, "new": new}]}
    if key:
        d["key"] = key
    if twin:
        d["twin"] = True
    return d


EU = "        return self.metric.sqrt @ rng.standard_normal(state.pos.shape)"
RI = "        return self.metric(state).sqrt @ rng.normal(size=state.pos.shape)"

MUTANTS = [
    m("c08-sqrt-T", "R1", S, EU, EU.replace("self.metric.sqrt @", "self.metric.sqrt.T @")),
    m("c08-inv-sqrt", "R1", S, EU, EU.replace("self.metric.sqrt @", "self.metric.inv.sqrt @")),
    m("c08-right-multiply", "R1", S, EU, "        return rng.standard_normal(state.pos.shape) @ self.metric.sqrt"),
    m("c08-scale-2", "R1", S, RI, RI.replace("rng.normal(size=", "rng.normal(scale=2, size=")),
    m("c08-riemannian-wrong-metric", "R1", S, RI, RI.replace("self.metric(state).sqrt", "self.metric(state).inv.sqrt")),
    m("c08-shape-mom", "R1", S, EU, EU.replace("state.pos.shape", "2")),
    m("c08-exponent", "R2", T, "            state.mom *= (1.0 - self.mom_resample_coeff**2) ** 0.5", "            state.mom *= (1.0 - self.mom_resample_coeff**2) ** 1"),
    m("c08-coeff-not-squared", "R2", T, "            state.mom *= (1.0 - self.mom_resample_coeff**2) ** 0.5", "            state.mom *= (1.0 - self.mom_resample_coeff) ** 0.5"),
    m("c08-fresh-weight-squared", "R2", T, "            state.mom += self.mom_resample_coeff * mom_ind", "            state.mom += self.mom_resample_coeff**2 * mom_ind"),
    m("c08-branches-swapped", "R2", T, "        if state.mom is None or self.mom_resample_coeff == 1:", "        if state.mom is None or self.mom_resample_coeff == 0:"),
    m("c08-no-range-guard", "R2", T, "        if not (mom_resample_coeff >= 0 and mom_resample_coeff <= 1):\n            msg = \"mom_resample_coeff should have a value in the interval [0, 1].\"\n            raise ValueError(msg)\n", ""),
    m("c08-constrained-unprojected", "R3", S, "        mom = super().sample_momentum(state, rng)\n        return self.project_onto_cotangent_space(mom, state)", "        return super().sample_momentum(state, rng)"),
    m("c08-seed-make-triangular-false", "R4", M, "            factor = TriangularMatrix(factor, lower=factor_is_lower)", "            factor = TriangularMatrix(factor, lower=factor_is_lower, make_triangular=False)"),
    m("c08-twin-transposed-form", None, S, EU, "        return rng.standard_normal(state.pos.shape) @ self.metric.sqrt.T", twin=True),
    m("c08-twin-normal-loc-scale", None, S, RI, RI.replace("rng.normal(size=state.pos.shape)", "rng.normal(loc=0, scale=1, size=state.pos.shape)"), twin=True),
    m("c08-twin-cn-form", None, T, "            state.mom *= (1.0 - self.mom_resample_coeff**2) ** 0.5\n            state.mom += self.mom_resample_coeff * mom_ind", "            state.mom = (1.0 - self.mom_resample_coeff**2) ** 0.5 * state.mom + self.mom_resample_coeff * mom_ind", twin=True),
    m("c08-bare-draw-implicit-size", "R1", "systems.py", "        return self.metric.sqrt @ rng.standard_normal(state.pos.shape)\n\n\nclass GaussianEuclideanMetricSystem", "        mom = rng.standard_normal(state.pos.shape)\n        if self.metric.shape[0] is None:\n            return mom\n        return self.metric.sqrt @ mom\n\n\nclass GaussianEuclideanMetricSystem", key="untransformed-draw-under"),
    m("c08-twin-bare-draw-identity", None, "systems.py", "        return self.metric.sqrt @ rng.standard_normal(state.pos.shape)\n\n\nclass GaussianEuclideanMetricSystem", "        mom = rng.standard_normal(state.pos.shape)\n        if isinstance(self.metric, matrices.IdentityMatrix):\n            return mom\n        return self.metric.sqrt @ mom\n\n\nclass GaussianEuclideanMetricSystem", twin=True),
    m("c08-draw-after-scaling-named", "R2", T, '            mom_ind = self.system.sample_momentum(state, rng)\n            state.mom *= (1.0 - self.mom_resample_coeff**2) ** 0.5\n            state.mom += self.mom_resample_coeff * mom_ind\n', '            state.mom *= (1.0 - self.mom_resample_coeff**2) ** 0.5\n            mom_ind = self.system.sample_momentum(state, rng)\n            state.mom += self.mom_resample_coeff * mom_ind\n'),
    m("c08-twin-scale-named", None, T, '            mom_ind = self.system.sample_momentum(state, rng)\n            state.mom *= (1.0 - self.mom_resample_coeff**2) ** 0.5\n            state.mom += self.mom_resample_coeff * mom_ind\n', '            mom_ind = self.system.sample_momentum(state, rng)\n            keep = (1.0 - self.mom_resample_coeff**2) ** 0.5\n            state.mom *= keep\n            state.mom += self.mom_resample_coeff * mom_ind\n', twin=True),
]
