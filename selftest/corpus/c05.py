S = "systems.py"


def m(id, rule, old, new, key=None, twin=False):
    d = {"id": id, "prop": "C05", "rule": rule, "edits": [{"file": S, "old": old, "new": new}]}
    if key:
        d["key"] = key
    if twin:
        d["twin"] = True
    return d


MUTANTS = [
    m("c05-undo-F4", "R1", "    def dh_dpos(self, state: ChainState) -> ArrayLike:\n        return self.dh1_dpos(state) + self.dh2_dpos(state)\n\n    def h2_flow(", "    def h2_flow(", key="GaussianEuclideanMetricSystem"),
    m("c05-h-drops-h2", "R1", "    def h(self, state: ChainState) -> ScalarLike:\n        return self.h1(state) + self.h2(state)\n\n    def h1(self, state: ChainState) -> ScalarLike:\n        return self.neg_log_dens(state) + 0.5", "    def h(self, state: ChainState) -> ScalarLike:\n        return self.h1(state)\n\n    def h1(self, state: ChainState) -> ScalarLike:\n        return self.neg_log_dens(state) + 0.5"),
    m("c05-dh_dmom-wrong", "R1", "        return self.dh2_dmom(state)\n\n    @abstractmethod\n    def sample_momentum", "        return 2 * self.dh2_dmom(state)\n\n    @abstractmethod\n    def sample_momentum"),
    m("c05-dh1-half-missing", "R3", "        return self.grad_neg_log_dens(state) + 0.5 * vjp_metric(", "        return self.grad_neg_log_dens(state) + vjp_metric("),
    m("c05-h1-logdet-coefficient", "R2", "        return self.neg_log_dens(state) + 0.5 * self.metric(state).log_abs_det", "        return self.neg_log_dens(state) + self.metric(state).log_abs_det"),
    m("c05-dh2-wrong-gradient", "R3", "        return 0.5 * vjp_metric(self.metric(state).grad_quadratic_form_inv(state.mom))", "        return 0.5 * vjp_metric(self.metric(state).grad_log_abs_det)"),
    m("c05-hausdorff-arms-swapped", "R3", "    def dh1_dpos(self, state: ChainState) -> ArrayLike:\n        if self.dens_wrt_hausdorff:\n            return self.grad_neg_log_dens(state)\n        return self.grad_neg_log_dens(state) + self.grad_log_det_sqrt_gram(state)", "    def dh1_dpos(self, state: ChainState) -> ArrayLike:\n        if not self.dens_wrt_hausdorff:\n            return self.grad_neg_log_dens(state)\n        return self.grad_neg_log_dens(state) + self.grad_log_det_sqrt_gram(state)"),
    m("c05-seed-C06a-gram-grad", "R3", "            self.inv_gram(state) @ self.jacob_constr(state) @ self.metric.inv,", "            self.inv_gram(state) @ self.jacob_constr(state),"),
    m("c05-gaussian-h2-coefficient", "R2", "            0.5 * state.pos @ state.pos + 0.5 * state.mom @ self.metric.inv @ state.mom", "            state.pos @ state.pos + 0.5 * state.mom @ self.metric.inv @ state.mom"),
    m("c05-euclid-dh2_dmom-not-inv", "R2", "    @cache_in_state(\"mom\")\n    def dh2_dmom(self, state: ChainState) -> ArrayLike:\n        return self.metric.inv @ state.mom\n\n    def dh2_dpos(self, state: ChainState) -> ArrayLike:\n        return np.zeros_like(state.pos)", "    @cache_in_state(\"mom\")\n    def dh2_dmom(self, state: ChainState) -> ArrayLike:\n        return self.metric @ state.mom\n\n    def dh2_dpos(self, state: ChainState) -> ArrayLike:\n        return np.zeros_like(state.pos)"),
    m("c05-log-det-sqrt-gram-coeff", "R2", "        return 0.5 * self.gram(state).log_abs_det", "        return self.gram(state).log_abs_det"),
    m("c05-aux-order", "R4", '@cache_in_state_with_aux("pos", ("jacob_constr", "constr"))', '@cache_in_state_with_aux("pos", ("constr", "jacob_constr"))'),
    m("c05-twin-reorder-sum", None, "        return self.dh1_dpos(state) + self.dh2_dpos(state)\n\n    def dh_dmom", "        return self.dh2_dpos(state) + self.dh1_dpos(state)\n\n    def dh_dmom", twin=True),
    m("c05-twin-half-div", None, "        return 0.5 * self.gram(state).log_abs_det", "        return self.gram(state).log_abs_det / 2", twin=True),
    m("c05-twin-h2-inline", None, "        return 0.5 * state.mom @ self.dh2_dmom(state)", "        return 0.5 * state.mom @ (self.metric.inv @ state.mom)", twin=True),
]

MUTANTS += [
    m("c05-wiring-wrong-attr", "R5", "        return self._constr(state.pos)", "        return self._neg_log_dens(state.pos)"),
    m("c05-binding-swapped", "R5", "        self._constr = wrap_function(constr, backend)", "        self._constr = wrap_function(neg_log_dens, backend)"),
    m("c05-fallback-wrong-op", "R5", '            "jacobian_and_value",\n            "jacob_constr",', '            "grad_and_value",\n            "jacob_constr",'),
]
