#!/venv/bin/python
"""Mutation self-test of the checkers (checker tested both ways).

Each mutant is a small source edit (unique old-text -> new-text within one file of
src/mici) applied to a scratch copy outside /repo and /verif; the named check is run on the
copy (MVERIF_REPO) and must exit 1 naming the expected rule.  'twin' entries are
behaviour-preserving refactorings and must stay silent (exit 0).  The copy is removed
immediately.  Usage: selftest/run.py [PROP ...] [-j N] [--list]
"""
from __future__ import annotations

import importlib.util
import json
import os
import shutil
import subprocess
import sys
import tempfile
from concurrent.futures import ThreadPoolExecutor
from pathlib import Path

HERE = Path(__file__).resolve().parent
VERIF = HERE.parent
REPO = Path(os.environ.get("MVERIF_REPO", "/repo"))


def load_corpus():
    muts = []
    # every confirmed seeded change under /verif/seeded/<id>/ is a mutant too
    for meta in sorted((VERIF / "seeded").glob("*/meta.json")):
        md = json.loads(meta.read_text())
        for exp in md.get("expected", []):
            muts.append({"id": f"seeded-{meta.parent.name}-{exp['prop']}", "prop": exp["prop"], "rule": exp["rule"], "patch": meta.parent / "patch.diff", **({"key": exp["key"]} if exp.get("key") else {})})
        # cross-silence: every other claimed check must stay silent on this change
        claimed = json.loads((VERIF / "tools" / "claimed.json").read_text())
        loud = {e["prop"] for e in md.get("expected", [])} | set(md.get("also_alarms", []))
        for prop in claimed:
            if prop not in loud:
                muts.append({"id": f"seeded-{meta.parent.name}-silent-{prop}", "prop": prop, "rule": None, "twin": True, "patch": meta.parent / "patch.diff"})
    for p in sorted((HERE / "corpus").glob("*.py")):
        spec = importlib.util.spec_from_file_location(p.stem, p)
        m = importlib.util.module_from_spec(spec)
        spec.loader.exec_module(m)
        muts.extend(m.MUTANTS)
    return muts


SUPERSEDED = {
    ("C09", "R3"): ("R11",), ("C09", "R4"): ("R11",), ("C09", "R5"): ("R11",),
    ("C18", "R4"): ("R8",), ("C18", "R7"): ("R4", "R8"),
    ("C13", "R3"): ("R8",), ("C13", "R4"): ("R8",), ("C13", "R5"): ("R8",), ("C13", "R6"): ("R8",),
    ("C14", "R1"): ("R6",), ("C14", "R3"): ("R6",), ("C14", "R4"): ("R6",),
    ("C15", "R1"): ("R6",), ("C15", "R2"): ("R6",), ("C15", "R3"): ("R6",), ("C15", "R4"): ("R6",), ("C15", "R5"): ("R6",),
    ("C16", "R2"): ("R5",), ("C16", "R1"): ("R5",), ("C01", "R7"): ("R14",),
    ("C02", "R7"): ("R7",), ("C04", "R8"): ("R8",), ("C06", "R7"): ("R7",),
}


def run_one(mut):
    tmp = Path(tempfile.mkdtemp(prefix="mverif_mut_"))
    try:
        dst = tmp / "src" / "mici"
        shutil.copytree(REPO / "src" / "mici", dst)
        if mut.get("patch"):
            pr = subprocess.run(["patch", "-s", "-p1", "-i", str(mut["patch"])], cwd=tmp, capture_output=True, text=True)
            if pr.returncode != 0:
                return mut, "STALE", f"patch does not apply: {pr.stdout[-300:]}"
        for edit in mut.get("edits", []):
            fp = dst / edit["file"]
            s = fp.read_text()
            if s.count(edit["old"]) != 1:
                return mut, "STALE", f"anchor text occurs {s.count(edit['old'])}x in {edit['file']}"
            fp.write_text(s.replace(edit["old"], edit["new"]))
            try:
                compile(fp.read_text(), str(fp), "exec")
            except SyntaxError as e:
                return mut, "STALE", f"mutant does not compile: {e}"
        env = dict(os.environ, MVERIF_REPO=str(tmp), MVERIF_OUT=str(tmp / "out"), MVERIF_EVIDENCE=str(tmp / "ev"))
        pr = subprocess.run([str(VERIF / "check"), mut["prop"]], capture_output=True, text=True, env=env, cwd=VERIF)
        out = pr.stdout + pr.stderr
        if mut.get("twin"):
            ok = pr.returncode == 0
            return mut, "OK" if ok else "FALSE-ALARM", "" if ok else out[-1500:]
        want = f"[{mut['prop']}-{mut['rule']}]"
        hit = pr.returncode == 1 and any(want in l and "findings=" not in l for l in out.splitlines())
        if hit and mut.get("key"):
            hit = any(mut["key"] in l for l in out.splitlines() if want in l)
        if not hit and pr.returncode == 1:
            # structural rules whose claim a token-domain engine decides report under the engine's rule id
            for alt in SUPERSEDED.get((mut["prop"], mut["rule"]), ()):
                w2 = f"[{mut['prop']}-{alt}]"
                if any(w2 in l and "findings=" not in l for l in out.splitlines()):
                    hit = True
        if hit:
            return mut, "KILLED", ""
        return mut, "MISSED" if pr.returncode != 2 else "ERROR", out[-1500:]
    finally:
        shutil.rmtree(tmp, ignore_errors=True)


def main(argv):
    jobs = 16
    props = []
    it = iter(argv)
    lst = False
    for a in it:
        if a == "-j":
            jobs = int(next(it))
        elif a == "--list":
            lst = True
        else:
            props.append(a.upper())
    muts = [m for m in load_corpus() if not props or m["prop"] in props]
    if lst:
        for m in muts:
            print(m["prop"], m.get("rule", "twin"), m["id"])
        return 0
    res = {}
    with ThreadPoolExecutor(jobs) as ex:
        for mut, status, detail in ex.map(run_one, muts):
            res.setdefault(status, []).append(mut["id"])
            if status not in ("KILLED", "OK"):
                print(f"{status}: {mut['prop']} {mut.get('rule','twin')} {mut['id']}\n    {detail.strip()[:1200]}")
    summary = {k: len(v) for k, v in res.items()}
    print("SELFTEST", json.dumps(summary), "total", len(muts))
    bad = sum(len(v) for k, v in res.items() if k in ("MISSED", "FALSE-ALARM", "ERROR"))
    return 1 if bad else 0


if __name__ == "__main__":
    sys.exit(main(sys.argv[1:]))
