"""E5 - operator-word algebra: linear combinations of non-commutative words with exact
rational coefficients.

A word is a tuple of atoms; an atom is a string (normalised source text of an irreducible
operand such as ``state.mom`` or ``self.metric.inv``) or a tuple ('app', fname, argkey) for a
linear map applied to a LinComb argument (vector-Jacobian / matrix-Hessian products).  ``@`` and
``*`` between non-scalars concatenate words (element-wise products are marked), scalars factor
out and are collected exactly.
"""

from __future__ import annotations

import ast

from .model import ClassInfo, Program, call_name, is_self_attr, norm, strip_copy
from .poly import Rat, eval_expr
from .report import AnalysisError


class LinComb:
    def __init__(self, terms=None):
        self.t: dict[tuple, Rat] = {}
        for w, c in (terms or {}).items():
            if not c.is_zero():
                self.t[w] = c

    @staticmethod
    def atom(a) -> "LinComb":
        return LinComb({(a,): Rat.const(1)})

    @staticmethod
    def scalar(c: Rat) -> "LinComb":
        return LinComb({(): c})

    @staticmethod
    def zero() -> "LinComb":
        return LinComb({})

    def is_scalar(self) -> bool:
        return all(w == () for w in self.t)

    def scalar_value(self) -> Rat:
        return self.t.get((), Rat.const(0))

    def __add__(self, o):
        d = dict(self.t)
        for w, c in o.t.items():
            d[w] = d[w] + c if w in d else c
        return LinComb(d)

    def __neg__(self):
        return LinComb({w: -c for w, c in self.t.items()})

    def __sub__(self, o):
        return self + (-o)

    def scale(self, c: Rat):
        return LinComb({w: v * c for w, v in self.t.items()})

    def matmul(self, o, marker=None):
        d = {}
        for w1, c1 in self.t.items():
            for w2, c2 in o.t.items():
                w = w1 + ((marker,) if marker and w1 and w2 else ()) + w2
                d[w] = d[w] + c1 * c2 if w in d else c1 * c2
        return LinComb(d)

    def equals(self, o) -> bool:
        ks = set(self.t) | set(o.t)
        for k in ks:
            a = self.t.get(k, Rat.const(0))
            b = o.t.get(k, Rat.const(0))
            if not a.equals(b):
                return False
        return True

    def is_zero(self):
        return not self.t

    def key(self) -> str:
        return " + ".join(f"({c!r})*{_wstr(w)}" for w, c in sorted(self.t.items(), key=lambda kv: _wstr(kv[0])))

    def __repr__(self):
        return self.key() or "0"


def _wstr(w):
    return "<" + " @ ".join(a if isinstance(a, str) else f"{a[1]}({a[2]})" for a in w) + ">"


ZERO_CALLS = ("np.zeros_like", "np.zeros", "numpy.zeros_like", "numpy.zeros")


class MethodExpander:
    """Expands the return value of a (resolved) method of class K into a LinComb, inlining the
    methods named in ``expand`` and treating every other call as an atom."""

    def __init__(self, program: Program, k: ClassInfo, expand: set[str], flags: dict[str, bool] | None = None, linear_apps=()):
        self.p = program
        self.k = k
        self.expand = expand
        self.flags = flags or {}
        self.linear_apps = set(linear_apps)
        self.depth = 0
        self.used: list[str] = []

    def method(self, name: str, state_arg="state") -> LinComb:
        f = self.k.resolve(name)
        if f is None or f.is_abstract:
            raise AnalysisError(f"{self.k.name}.{name} not resolved")
        self.used.append(f.qualname)
        self.depth += 1
        if self.depth > 10:
            raise AnalysisError("expansion too deep")
        try:
            return self._body(f, f.body_without_docstring(), {})
        finally:
            self.depth -= 1

    def _body(self, f, body, env) -> LinComb:
        body = list(body)
        for i, st in enumerate(body):
            if isinstance(st, ast.Return):
                return self.ev(f, st.value, env)
            if isinstance(st, ast.Assign) and len(st.targets) == 1 and isinstance(st.targets[0], ast.Name):
                env = dict(env)
                env[st.targets[0].id] = ("expr", st.value)
                continue
            if isinstance(st, ast.AugAssign) and isinstance(st.target, ast.Name) and isinstance(st.op, (ast.Add, ast.Sub, ast.Mult, ast.Div)) and st.target.id in env:
                # accumulate form: x op= e  ==  x = x op e (value semantics), evaluated now
                cur = self.ev(f, ast.Name(id=st.target.id, ctx=ast.Load()), env)
                env = dict(env)
                env["@acc"] = ("val", cur)
                env[st.target.id] = ("val", self.ev(f, ast.BinOp(left=ast.Name(id="@acc", ctx=ast.Load()), op=st.op, right=st.value), env))
                continue
            if isinstance(st, ast.If):
                t = st.test
                neg = False
                if isinstance(t, ast.UnaryOp) and isinstance(t.op, ast.Not):
                    t, neg = t.operand, True
                if is_self_attr(t) and t.attr in self.flags:
                    v = self.flags[t.attr] != neg
                    arm = st.body if v else st.orelse
                    # the chosen arm is executed (it may return, assign or accumulate), then the rest
                    return self._body(f, list(arm) + body[i + 1 :], env)
                # fast path for an identity metric: `if isinstance(self.metric, IdentityMatrix): <special>`
                # the general arm is the value; the special arm must equal it with the metric atoms dropped
                if isinstance(t, ast.Call) and norm(t.func) == "isinstance" and len(t.args) == 2 and norm(t.args[0]) == "self.metric" and norm(t.args[1]).split(".")[-1] == "IdentityMatrix":
                    special, general = (st.orelse, st.body) if neg else (st.body, st.orelse)
                    gen = self._body(f, list(general) + body[i + 1 :], env)
                    spec = self._body(f, list(special) + body[i + 1 :], env)
                    ident = {"self.metric.inv", "self.metric", "self.metric.sqrt", "self.metric.T", "self.metric.inv.T"}
                    red = LinComb.zero()
                    for w, c in gen.t.items():
                        red = red + LinComb({tuple(a for a in w if a not in ident): c})
                    if not red.equals(spec):
                        raise AnalysisError(f"{f.qualname}: the identity-metric fast path gives {spec!r}, the general formula with an identity metric {red!r}")
                    return gen
                raise AnalysisError(f"{f.qualname}: branch on {norm(st.test)} outside the value grammar")
            if isinstance(st, ast.Expr) and isinstance(st.value, ast.Constant):
                continue
            raise AnalysisError(f"{f.qualname}: statement outside the value grammar: {norm(st)[:60]}")
        raise AnalysisError(f"{f.qualname}: no return value")

    def ev(self, f, e, env) -> LinComb:
        e = strip_copy(e)
        if isinstance(e, ast.Constant) and isinstance(e.value, (int, float)) and not isinstance(e.value, bool):
            return LinComb.scalar(eval_expr(e, {}))
        if isinstance(e, ast.Name):
            if e.id in env:
                kind, v = env[e.id]
                if kind == "val":
                    return v
                return self.ev(f, v, env)
            return LinComb.atom(e.id)
        if isinstance(e, ast.UnaryOp) and isinstance(e.op, ast.USub):
            return -self.ev(f, e.operand, env)
        if isinstance(e, ast.IfExp):
            # `a if self.<flag> else b` on a construction-time flag of the variant being evaluated
            t, neg = e.test, False
            if isinstance(t, ast.UnaryOp) and isinstance(t.op, ast.Not):
                t, neg = t.operand, True
            if is_self_attr(t) and t.attr in self.flags:
                return self.ev(f, e.body if (self.flags[t.attr] != neg) else e.orelse, env)
        if isinstance(e, ast.BinOp):
            if isinstance(e.op, (ast.Add, ast.Sub)):
                a, b = self.ev(f, e.left, env), self.ev(f, e.right, env)
                return a + b if isinstance(e.op, ast.Add) else a - b
            if isinstance(e.op, (ast.Mult, ast.MatMult)):
                a, b = self.ev(f, e.left, env), self.ev(f, e.right, env)
                if a.is_scalar():
                    return b.scale(a.scalar_value())
                if b.is_scalar():
                    return a.scale(b.scalar_value())
                return a.matmul(b, marker=None if isinstance(e.op, ast.MatMult) else "(*)")
            if isinstance(e.op, ast.Div):
                a, b = self.ev(f, e.left, env), self.ev(f, e.right, env)
                if b.is_scalar():
                    return a.scale(Rat.const(1) / b.scalar_value())
            if isinstance(e.op, ast.Pow):
                b = self.ev(f, e.right, env)
                a = self.ev(f, e.left, env)
                if a.is_scalar() and b.is_scalar():
                    return LinComb.scalar(a.scalar_value() ** b.scalar_value())
                return LinComb.atom(norm(e))
        if isinstance(e, ast.Attribute):
            # attribute of an expandable call result, e.g. self.gram(state).inv -> atom text
            base = e.value
            if isinstance(base, ast.Call) and isinstance(base.func, ast.Attribute) and is_self_attr(base.func) and base.func.attr in self.expand:
                inner = self.ev(f, base, env)
                if len(inner.t) == 1:
                    (w, c), = inner.t.items()
                    if len(w) == 1 and isinstance(w[0], str) and c.equals(Rat.const(1)):
                        return LinComb.atom(f"{w[0]}.{e.attr}")
                raise AnalysisError(f"{f.qualname}: attribute of a compound value {norm(e)[:60]}")
            return LinComb.atom(norm(e))
        if isinstance(e, ast.Call):
            cn = call_name(e)
            if cn in ZERO_CALLS:
                return LinComb.zero()
            fn = e.func
            # application of a local alias bound to a linear-map atom: vjp_metric(X)
            if isinstance(fn, ast.Name) and fn.id in env:
                target = self.ev(f, env[fn.id][1], env)
                if len(target.t) == 1 and len(e.args) == 1:
                    (w, c), = target.t.items()
                    if len(w) == 1 and isinstance(w[0], str):
                        arg = self.ev(f, e.args[0], env)
                        return self._apply(w[0], arg).scale(c)
                raise AnalysisError(f"{f.qualname}: unsupported application {norm(e)[:60]}")
            # explicit call of a (base) class's method on self: Cls.method(self, state)
            if isinstance(fn, ast.Attribute) and isinstance(fn.value, ast.Name) and fn.value.id in self.p.classes and e.args and isinstance(e.args[0], ast.Name) and e.args[0].id == "self" and fn.attr in self.expand:
                g = self.p.classes[fn.value.id].resolve(fn.attr)
                if g is None or g.is_abstract:
                    raise AnalysisError(f"{f.qualname}: {norm(fn)} not resolved")
                self.used.append(g.qualname)
                self.depth += 1
                if self.depth > 10:
                    raise AnalysisError("expansion too deep")
                try:
                    return self._body(g, g.body_without_docstring(), {})
                finally:
                    self.depth -= 1
            if isinstance(fn, ast.Attribute) and is_self_attr(fn):
                name = fn.attr
                if name in self.expand and self.k.resolve(name) is not None and not self.k.resolve(name).is_property:
                    return self.method(name)
                return LinComb.atom(norm(e))
            # method call on an atom, e.g. self.metric(state).grad_quadratic_form_inv(state.mom)
            return LinComb.atom(norm(e))
        if isinstance(e, ast.Subscript):
            return LinComb.atom(norm(e))
        raise AnalysisError(f"{f.qualname}: expression outside the value grammar: {norm(e)[:70]}")

    def _apply(self, fname: str, arg: LinComb) -> LinComb:
        # linear maps: pull scalar factors out of the argument
        out = {}
        for w, c in arg.t.items():
            key = ("app", fname, _wstr(w))
            out[(key,)] = c
        return LinComb(out)


def app(fname: str, *atoms) -> LinComb:
    return LinComb({((("app", fname, _wstr(tuple(atoms)))),): Rat.const(1)}) if False else LinComb({(("app", fname, _wstr(tuple(atoms))),): Rat.const(1)})
