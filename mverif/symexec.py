"""Straight-line symbolic execution in the rational-polynomial domain (E4).

Values of local names, attributes and subscripted entries are Rat; unknown reads become fresh
symbols named by their normalised text.  Arrays are modelled as commutative scalars (element-
wise algebra), which is exact for the averaging identities checked (C17, C08, C04); outer
products become ordinary products.  Nothing is executed; statements outside the grammar raise
AnalysisError.
"""

from __future__ import annotations

import ast

from .model import call_name, norm, strip_copy
from .poly import Rat, eval_expr, sign_atom, sqrt_of
from .report import AnalysisError

STRIP_SUBSCRIPTS = ("[None, :]", "[:, None]", "[:, np.newaxis]", "[np.newaxis, :]")


def opaque_pow(base: Rat, exp: Rat) -> Rat:
    """Canonical opaque symbol for base**exp with a symbolic exponent."""
    if base.num.is_const() and base.num.const_value() == 1 and not base.den.is_const():
        base, exp = Rat.const(1) / base, -exp
    elif base.den.is_one() is False and base.num.is_const() and base.num.const_value() == 1:
        base, exp = Rat.const(1) / base, -exp
    return Rat.sym(f"pow[{base!r}|{exp!r}]")


class SymEnv:
    def __init__(self, init: dict[str, Rat] | None = None, call_syms=None, cls=None, depth=0):
        self.cls = cls  # ClassInfo: private, un-memoised helper methods called on self are inlined
        self.depth = depth
        self.env: dict[str, Rat] = dict(init or {})
        self.calls: list[str] = []
        self.call_syms = call_syms or {}
        self.log: list[tuple[str, Rat]] = []
        self.trig: dict[str, Rat] = {}  # symbol name -> argument

    # lvalue key
    def key(self, e: ast.expr) -> str:
        t = norm(e)
        for s in STRIP_SUBSCRIPTS:
            if t.endswith(s):
                t = t[: -len(s)]
        return t.replace('"', "'")

    def read(self, e: ast.expr) -> Rat:
        k = self.key(e)
        if k in self.env:
            return self.env[k]
        return Rat.sym(k)

    def ev(self, e: ast.expr) -> Rat:
        e = strip_copy(e)
        if isinstance(e, ast.Subscript):
            t = norm(e)
            if any(t.endswith(s) for s in STRIP_SUBSCRIPTS):
                return self.ev(e.value)
            return self.read(e)
        if isinstance(e, (ast.Name, ast.Attribute)):
            return self.read(e)
        if isinstance(e, ast.BinOp) and isinstance(e.op, ast.Pow):
            b = self.ev(e.left)
            x = self.ev(e.right)
            if x.is_const():
                return b ** x
            return opaque_pow(b, x)
        if isinstance(e, ast.BinOp):
            a, b = self.ev(e.left), self.ev(e.right)
            if isinstance(e.op, ast.Add):
                return a + b
            if isinstance(e.op, ast.Sub):
                return a - b
            if isinstance(e.op, (ast.Mult, ast.MatMult)):
                return a * b
            if isinstance(e.op, ast.Div):
                return a / b
        if isinstance(e, ast.UnaryOp) and isinstance(e.op, ast.USub):
            return -self.ev(e.operand)
        if isinstance(e, ast.JoinedStr) or (isinstance(e, ast.Constant) and isinstance(e.value, str)):
            return Rat.sym("<str>")
        if isinstance(e, ast.Constant) and e.value is None:
            return Rat.sym("<None>")
        if isinstance(e, ast.Constant):
            return eval_expr(e, {})
        if isinstance(e, ast.Call):
            cn = call_name(e)
            if cn in ("np.outer", "numpy.outer") and len(e.args) == 2:
                return self.ev(e.args[0]) * self.ev(e.args[1])
            if cn in ("np.sqrt", "sqrt", "math.sqrt") and len(e.args) == 1:
                return sqrt_of(self.ev(e.args[0]))
            if cn in ("np.sin", "np.cos", "sin", "cos", "math.sin", "math.cos") and len(e.args) == 1:
                a = self.ev(e.args[0])
                fn = cn.split(".")[-1]
                # sin(g*x) = g*sin(x), cos(g*x) = cos(x) for a sign g (g*g == 1)
                factor = Rat.const(1)
                for g in sorted(x for x in a.symbols() if x.startswith("sgn[")):
                    b = a * Rat.sym(g)
                    if g not in b.symbols():
                        a = b
                        if fn == "sin":
                            factor = factor * Rat.sym(g)
                name = f"{fn}[{a!r}]"
                self.trig[name] = a
                return factor * Rat.sym(name)
            if cn in ("abs", "np.abs", "np.absolute", "np.fabs", "math.fabs") and len(e.args) == 1:
                a = self.ev(e.args[0])
                return sign_atom(repr(a)) * a
            if cn in ("np.sign", "math.copysign") and len(e.args) == 1:
                return sign_atom(repr(self.ev(e.args[0])))
            h = self._helper(e)
            if h is not None:
                v = self._inline(h, e)
                if isinstance(v, list):
                    raise AnalysisError(f"symbolic execution: tuple-valued helper used as a scalar: {norm(e)[:60]}")
                return v
            if cn in ("exp", "np.exp", "math.exp", "log", "np.log", "math.log") and len(e.args) == 1:
                a = self.ev(e.args[0])
                return Rat.sym(f"{cn.split('.')[-1]}[{a!r}]")
            if isinstance(e.func, ast.Attribute) and e.func.attr == "pop" and len(e.args) >= 1:
                # d.pop('k') reads d['k']
                k = f"{norm(e.func.value)}[{norm(e.args[0])}]".replace('"', "'")
                return self.env.get(k, Rat.sym(k))
            if isinstance(e.func, ast.Attribute) and e.func.attr == "copy" and not e.args:
                return self.ev(e.func.value)
            k = norm(e).replace('"', "'")
            self.calls.append(k)
            return Rat.sym(f"call[{k}]")
        raise AnalysisError(f"symbolic execution: expression outside grammar: {norm(e)[:70]}")

    def _helper(self, e: ast.Call):
        """FuncInfo of a private, un-memoised helper method called as self._name(...), if any."""
        if self.cls is None or self.depth > 3:
            return None
        if isinstance(e.func, ast.Attribute) and isinstance(e.func.value, ast.Name) and e.func.value.id == "self" and e.func.attr.startswith("_") and not e.func.attr.startswith("__"):
            f = self.cls.resolve(e.func.attr)
            if f is not None and f.cache_deps is None and not f.is_property and not f.is_abstract:
                return f
        return None

    def _inline(self, f, call: ast.Call):
        params = f.params[1:]
        if call.keywords and any(k.arg is None for k in call.keywords):
            raise AnalysisError(f"symbolic execution: **kwargs in helper call {norm(call)[:50]}")
        binds = {}
        for prm, a in zip(params, call.args):
            binds[prm] = self.ev(a)
        for kw in call.keywords:
            binds[kw.arg] = self.ev(kw.value)
        sub = SymEnv({k: v for k, v in self.env.items() if k.startswith("self.")}, cls=self.cls, depth=self.depth + 1)
        sub.env.update(binds)
        body = f.body_without_docstring()
        if not body or not isinstance(body[-1], ast.Return) or any(isinstance(n, ast.Return) for st in body[:-1] for n in ast.walk(st)):
            raise AnalysisError(f"symbolic execution: helper {f.qualname} is not straight-line with a final return")
        sub.run(body[:-1])
        rv = body[-1].value
        out = [sub.ev(x) for x in rv.elts] if isinstance(rv, ast.Tuple) else sub.ev(rv)
        self.trig.update(sub.trig)
        self.calls.extend(sub.calls)
        return out

    def exec(self, st: ast.stmt) -> None:
        if isinstance(st, ast.Expr) and isinstance(st.value, ast.Constant):
            return
        if isinstance(st, ast.Assign) and len(st.targets) == 1:
            t = st.targets[0]
            if isinstance(t, ast.Tuple):
                vals = None
                if isinstance(st.value, ast.Tuple) and len(t.elts) == len(st.value.elts):
                    vals = [self.ev(x) for x in st.value.elts]
                elif isinstance(st.value, ast.Call) and self._helper(st.value) is not None:
                    vals = self._inline(self._helper(st.value), st.value)
                    if not isinstance(vals, list) or len(vals) != len(t.elts):
                        raise AnalysisError(f"symbolic execution: helper does not return {len(t.elts)} values: {norm(st)[:60]}")
                if vals is not None:
                    for tt, vv in zip(t.elts, vals):
                        self.env[self.key(tt)] = vv
                        self.log.append((self.key(tt), vv))
                    return
                raise AnalysisError(f"symbolic execution: tuple assignment {norm(st)[:60]}")
            v = self.ev(st.value)
            self.env[self.key(t)] = v
            self.log.append((self.key(t), v))
            return
        if isinstance(st, ast.AugAssign):
            k = self.key(st.target)
            cur = self.env.get(k, Rat.sym(k))
            v = self.ev(st.value)
            if isinstance(st.op, ast.Add):
                new = cur + v
            elif isinstance(st.op, ast.Sub):
                new = cur - v
            elif isinstance(st.op, ast.Mult):
                new = cur * v
            elif isinstance(st.op, ast.Div):
                new = cur / v
            else:
                raise AnalysisError(f"symbolic execution: operator in {norm(st)[:60]}")
            self.env[k] = new
            self.log.append((k, new))
            return
        if isinstance(st, ast.Expr) and isinstance(st.value, ast.Call):
            self.calls.append(norm(st.value))
            return
        if isinstance(st, ast.Pass):
            return
        raise AnalysisError(f"symbolic execution: statement outside grammar: {norm(st)[:70]}")

    def run(self, body) -> "SymEnv":
        for st in body:
            self.exec(st)
        return self
