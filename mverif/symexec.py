"""Straight-line symbolic execution in the rational-polynomial domain (E4).

Values of local names, attributes and subscripted entries are Rat; unknown reads become fresh
symbols named by their normalised text.  Arrays are modelled as commutative scalars (element-
wise algebra), which is exact for the averaging identities checked (C17, C08, C04); outer
products become ordinary products.  Nothing is executed; statements outside the grammar raise
AnalysisError.
"""

from __future__ import annotations

import ast

from .model import call_name, norm, strip_copy
from .poly import Rat, eval_expr, sqrt_of
from .report import AnalysisError

STRIP_SUBSCRIPTS = ("[None, :]", "[:, None]", "[:, np.newaxis]", "[np.newaxis, :]")


def opaque_pow(base: Rat, exp: Rat) -> Rat:
    """Canonical opaque symbol for base**exp with a symbolic exponent."""
    if base.num.is_const() and base.num.const_value() == 1 and not base.den.is_const():
        base, exp = Rat.const(1) / base, -exp
    elif base.den.is_one() is False and base.num.is_const() and base.num.const_value() == 1:
        base, exp = Rat.const(1) / base, -exp
    return Rat.sym(f"pow[{base!r}|{exp!r}]")


class SymEnv:
    def __init__(self, init: dict[str, Rat] | None = None, call_syms=None):
        self.env: dict[str, Rat] = dict(init or {})
        self.calls: list[str] = []
        self.call_syms = call_syms or {}
        self.log: list[tuple[str, Rat]] = []
        self.trig: dict[str, Rat] = {}  # symbol name -> argument

    # lvalue key
    def key(self, e: ast.expr) -> str:
        t = norm(e)
        for s in STRIP_SUBSCRIPTS:
            if t.endswith(s):
                t = t[: -len(s)]
        return t.replace('"', "'")

    def read(self, e: ast.expr) -> Rat:
        k = self.key(e)
        if k in self.env:
            return self.env[k]
        return Rat.sym(k)

    def ev(self, e: ast.expr) -> Rat:
        e = strip_copy(e)
        if isinstance(e, ast.Subscript):
            t = norm(e)
            if any(t.endswith(s) for s in STRIP_SUBSCRIPTS):
                return self.ev(e.value)
            return self.read(e)
        if isinstance(e, (ast.Name, ast.Attribute)):
            return self.read(e)
        if isinstance(e, ast.BinOp) and isinstance(e.op, ast.Pow):
            b = self.ev(e.left)
            x = self.ev(e.right)
            if x.is_const():
                return b ** x
            return opaque_pow(b, x)
        if isinstance(e, ast.BinOp):
            a, b = self.ev(e.left), self.ev(e.right)
            if isinstance(e.op, ast.Add):
                return a + b
            if isinstance(e.op, ast.Sub):
                return a - b
            if isinstance(e.op, (ast.Mult, ast.MatMult)):
                return a * b
            if isinstance(e.op, ast.Div):
                return a / b
        if isinstance(e, ast.UnaryOp) and isinstance(e.op, ast.USub):
            return -self.ev(e.operand)
        if isinstance(e, ast.JoinedStr) or (isinstance(e, ast.Constant) and isinstance(e.value, str)):
            return Rat.sym("<str>")
        if isinstance(e, ast.Constant) and e.value is None:
            return Rat.sym("<None>")
        if isinstance(e, ast.Constant):
            return eval_expr(e, {})
        if isinstance(e, ast.Call):
            cn = call_name(e)
            if cn in ("np.outer", "numpy.outer") and len(e.args) == 2:
                return self.ev(e.args[0]) * self.ev(e.args[1])
            if cn in ("np.sqrt", "sqrt", "math.sqrt") and len(e.args) == 1:
                return sqrt_of(self.ev(e.args[0]))
            if cn in ("np.sin", "np.cos", "sin", "cos", "math.sin", "math.cos") and len(e.args) == 1:
                a = self.ev(e.args[0])
                name = f"{cn.split('.')[-1]}[{a!r}]"
                self.trig[name] = a
                return Rat.sym(name)
            if cn in ("exp", "np.exp", "math.exp", "log", "np.log", "math.log") and len(e.args) == 1:
                a = self.ev(e.args[0])
                return Rat.sym(f"{cn.split('.')[-1]}[{a!r}]")
            if isinstance(e.func, ast.Attribute) and e.func.attr == "pop" and len(e.args) >= 1:
                # d.pop('k') reads d['k']
                k = f"{norm(e.func.value)}[{norm(e.args[0])}]".replace('"', "'")
                return self.env.get(k, Rat.sym(k))
            if isinstance(e.func, ast.Attribute) and e.func.attr == "copy" and not e.args:
                return self.ev(e.func.value)
            k = norm(e).replace('"', "'")
            self.calls.append(k)
            return Rat.sym(f"call[{k}]")
        raise AnalysisError(f"symbolic execution: expression outside grammar: {norm(e)[:70]}")

    def exec(self, st: ast.stmt) -> None:
        if isinstance(st, ast.Expr) and isinstance(st.value, ast.Constant):
            return
        if isinstance(st, ast.Assign) and len(st.targets) == 1:
            t = st.targets[0]
            if isinstance(t, ast.Tuple):
                if isinstance(st.value, ast.Tuple) and len(t.elts) == len(st.value.elts):
                    vals = [self.ev(x) for x in st.value.elts]
                    for tt, vv in zip(t.elts, vals):
                        self.env[self.key(tt)] = vv
                        self.log.append((self.key(tt), vv))
                    return
                raise AnalysisError(f"symbolic execution: tuple assignment {norm(st)[:60]}")
            v = self.ev(st.value)
            self.env[self.key(t)] = v
            self.log.append((self.key(t), v))
            return
        if isinstance(st, ast.AugAssign):
            k = self.key(st.target)
            cur = self.env.get(k, Rat.sym(k))
            v = self.ev(st.value)
            if isinstance(st.op, ast.Add):
                new = cur + v
            elif isinstance(st.op, ast.Sub):
                new = cur - v
            elif isinstance(st.op, ast.Mult):
                new = cur * v
            elif isinstance(st.op, ast.Div):
                new = cur / v
            else:
                raise AnalysisError(f"symbolic execution: operator in {norm(st)[:60]}")
            self.env[k] = new
            self.log.append((k, new))
            return
        if isinstance(st, ast.Expr) and isinstance(st.value, ast.Call):
            self.calls.append(norm(st.value))
            return
        raise AnalysisError(f"symbolic execution: statement outside grammar: {norm(st)[:70]}")

    def run(self, body) -> "SymEnv":
        for st in body:
            self.exec(st)
        return self
