"""E7 - float-interval abstract interpretation of small scalar functions (utils.py).

Values are intervals over extended doubles with open/closed end points.  Library functions
are evaluated at end points with outward rounding (one ulp), so e.g. exp(x) for tiny negative
x includes 1.0.  Inputs are case-split into sign/infinity cells and, for two-argument
functions, into the three order relations, which makes every branch test of the analysed
functions decidable inside a cell (the analyser explores both arms when it is not).
Nothing from mici is executed: the analyser interprets the AST.
"""

from __future__ import annotations

import ast
import math
from dataclasses import dataclass, field

from .report import AnalysisError

INF = math.inf
MAXF = 1.7976931348623157e308


def up(x: float) -> float:
    return x if math.isinf(x) or math.isnan(x) else math.nextafter(x, INF)


def down(x: float) -> float:
    return x if math.isinf(x) or math.isnan(x) else math.nextafter(x, -INF)


@dataclass(frozen=True)
class Iv:
    lo: float
    hi: float
    lo_open: bool = False
    hi_open: bool = False

    def __post_init__(self):
        if self.lo > self.hi:
            raise AnalysisError(f"empty interval {self}")

    @staticmethod
    def point(x):
        return Iv(x, x)

    def contains(self, x: float) -> bool:
        if x < self.lo or x > self.hi:
            return False
        if x == self.lo and self.lo_open:
            return False
        if x == self.hi and self.hi_open:
            return False
        return True

    def is_point(self):
        return self.lo == self.hi

    def __repr__(self):
        return f"{'(' if self.lo_open else '['}{self.lo!r}, {self.hi!r}{')' if self.hi_open else ']'}"

    def min_possible_below(self, x: float) -> bool:
        """Some element < x?"""
        return self.lo < x

    def some_le(self, x: float) -> bool:
        return self.lo < x or (self.lo == x and not self.lo_open)

    def some_ge(self, x: float) -> bool:
        return self.hi > x or (self.hi == x and not self.hi_open)

    def some_lt(self, x):
        return self.lo < x

    def some_gt(self, x):
        return self.hi > x

    def neg(self):
        return Iv(-self.hi, -self.lo, self.hi_open, self.lo_open)


def hull(a: Iv, b: Iv) -> Iv:
    if a.lo < b.lo:
        lo, lo_open = a.lo, a.lo_open
    elif b.lo < a.lo:
        lo, lo_open = b.lo, b.lo_open
    else:
        lo, lo_open = a.lo, a.lo_open and b.lo_open
    if a.hi > b.hi:
        hi, hi_open = a.hi, a.hi_open
    elif b.hi > a.hi:
        hi, hi_open = b.hi, b.hi_open
    else:
        hi, hi_open = a.hi, a.hi_open and b.hi_open
    return Iv(lo, hi, lo_open, hi_open)


@dataclass
class Problem:
    kind: str  # domain | inf-inf | cancellation
    func: str
    node: ast.AST
    what: str
    cell: str


def _mono_inc(f, x: Iv, *, clamp_lo=None, clamp_hi=None, strict_sign=False) -> Iv:
    """Image of x under an increasing function evaluated at the end points with one ulp of
    outward rounding (end points become closed: rounding can reach them)."""
    lo = f(x.lo)
    hi = f(x.hi)
    lo = down(lo) if not math.isinf(lo) else lo
    hi = up(hi) if not math.isinf(hi) else hi
    if clamp_lo is not None:
        lo = max(lo, clamp_lo)
    if clamp_hi is not None:
        hi = min(hi, clamp_hi)
    return Iv(lo, hi)


def f_exp(x: Iv) -> Iv:
    def e(v):
        if v == -INF:
            return 0.0
        try:
            return math.exp(v)
        except OverflowError:
            return INF

    return _mono_inc(e, x, clamp_lo=0.0)


def f_expm1(x: Iv) -> Iv:
    def e(v):
        if v == -INF:
            return -1.0
        try:
            return math.expm1(v)
        except OverflowError:
            return INF

    r = _mono_inc(e, x, clamp_lo=-1.0)
    lo, hi, lo_open, hi_open = r.lo, r.hi, False, False
    # expm1 is sign preserving in floating point (expm1(x) ~ x for tiny x)
    if not x.some_ge(0.0) and hi >= 0.0:
        hi, hi_open = 0.0, True
    if not x.some_le(0.0) and lo <= 0.0:
        lo, lo_open = 0.0, True
    return Iv(lo, hi, lo_open, hi_open)


def f_log(x: Iv) -> Iv:
    def l(v):
        if v <= 0.0:
            return -INF
        if v == INF:
            return INF
        return math.log(v)

    return _mono_inc(l, x)


def f_log1p(x: Iv) -> Iv:
    def l(v):
        if v <= -1.0:
            return -INF
        if v == INF:
            return INF
        return math.log1p(v)

    return _mono_inc(l, x)


def add(a: Iv, b: Iv) -> tuple[Iv, bool]:
    """Returns (interval, may form inf-inf)."""
    bad = (a.contains(INF) and b.contains(-INF)) or (a.contains(-INF) and b.contains(INF))

    def s(x, y, rnd):
        if math.isinf(x) or math.isinf(y):
            if math.isinf(x) and math.isinf(y) and x != y:
                return None
            return x if math.isinf(x) else y
        return rnd(x + y)

    lo = s(a.lo, b.lo, down)
    hi = s(a.hi, b.hi, up)
    if lo is None:
        lo = -INF
    if hi is None:
        hi = INF
    # exact zero operands keep exactness
    if a.is_point() and a.lo == 0.0:
        return b, bad
    if b.is_point() and b.lo == 0.0:
        return a, bad
    lo_open = (a.lo_open or b.lo_open) and math.isinf(lo)
    hi_open = (a.hi_open or b.hi_open) and math.isinf(hi)
    return Iv(lo, hi, lo_open, hi_open), bad


class Analyzer:
    """Interprets module-level scalar functions over intervals."""

    def __init__(self, module_tree: ast.Module, constants: dict[str, float]):
        self.funcs = {n.name: n for n in module_tree.body if isinstance(n, ast.FunctionDef)}
        self.consts = dict(constants)
        self.problems: list[Problem] = []
        self.call_args: dict = {}
        self.reached: set[int] = set()  # id(stmt) reached
        self.depth = 0
        self.cell = ""
        self.n_evals = 0

    # ------------------------------------------------------------------
    def call(self, name: str, args: list[Iv], order=None):
        """Analyse function ``name`` for argument intervals; returns (Iv|None, may_return_nan
        literal). ``order`` = relation between the first two args ('<','==','>') if known."""
        fn = self.funcs[name]
        self.depth += 1
        if self.depth > 12:
            raise AnalysisError("recursion too deep")
        env = {a.arg: v for a, v in zip(fn.args.args, args)}
        rel = {}
        if order is not None and len(fn.args.args) >= 2:
            rel[(fn.args.args[0].arg, fn.args.args[1].arg)] = order
        rets = []
        nanlit = [False]
        self._block(fn, fn.body, env, rel, rets, nanlit)
        self.depth -= 1
        out = None
        for r in rets:
            out = r if out is None else hull(out, r)
        return out, nanlit[0]

    def _block(self, fn, body, env, rel, rets, nanlit) -> bool:
        """Returns True if control can fall through the end of ``body`` on some path."""
        for i, st in enumerate(body):
            self.reached.add(id(st))
            if isinstance(st, ast.Expr) and isinstance(st.value, ast.Constant):
                continue
            if isinstance(st, ast.Return) and isinstance(st.value, ast.IfExp):
                # return a if c else b  ==  if c: return a / else: return b (case split on c)
                v = st.value
                desugared = ast.If(test=v.test, body=[ast.copy_location(ast.Return(value=v.body), st)], orelse=[ast.copy_location(ast.Return(value=v.orelse), st)])
                ast.copy_location(desugared, st)
                return self._block(fn, [desugared] + list(body[i + 1 :]), env, rel, rets, nanlit)
            if isinstance(st, ast.Assign) and len(st.targets) == 1 and isinstance(st.targets[0], ast.Tuple) and isinstance(st.value, ast.IfExp):
                v = st.value
                mk = lambda x: ast.copy_location(ast.Assign(targets=st.targets, value=x), st)  # noqa: E731
                rest = list(body[i + 1 :])  # assignments made in an arm must reach the continuation
                desugared = ast.copy_location(ast.If(test=v.test, body=[mk(v.body)] + rest, orelse=[mk(v.orelse)] + rest), st)
                return self._block(fn, [desugared], env, rel, rets, nanlit)
            if isinstance(st, ast.Assign) and len(st.targets) == 1 and isinstance(st.targets[0], ast.Tuple) and isinstance(st.value, ast.Tuple) and len(st.value.elts) == len(st.targets[0].elts) and all(isinstance(x, ast.Name) for x in st.targets[0].elts):
                vals = [self._ev(fn, x, env, rel) for x in st.value.elts]
                env = dict(env)
                for x, xv in zip(st.targets[0].elts, vals):
                    env[x.id] = xv
                # order relations follow the values into their new names (simultaneous assignment)
                ren = {x.id: v.id for x, v in zip(st.targets[0].elts, st.value.elts) if isinstance(v, ast.Name)}
                rel = self._rel_after_copy(rel, ren)
                continue
            if isinstance(st, ast.Assign) and len(st.targets) == 1 and isinstance(st.targets[0], ast.Name) and isinstance(st.value, ast.IfExp):
                v = st.value
                mk = lambda x: ast.copy_location(ast.Assign(targets=st.targets, value=x), st)  # noqa: E731
                rest = list(body[i + 1 :])  # assignments made in an arm must reach the continuation
                desugared = ast.copy_location(ast.If(test=v.test, body=[mk(v.body)] + rest, orelse=[mk(v.orelse)] + rest), st)
                return self._block(fn, [desugared], env, rel, rets, nanlit)
            if isinstance(st, ast.Return):
                v = st.value
                if isinstance(v, ast.Name) and v.id == "nan":
                    nanlit[0] = True
                    return False
                rets.append(self._ev(fn, v, env, rel))
                return False
            if isinstance(st, ast.If):
                fell = False
                for truth, env2, rel2 in self._test(fn, st.test, env, rel):
                    arm = st.body if truth else st.orelse
                    # the arm and the rest of the block run as one sequence, so that assignments made
                    # in the arm reach the statements after the `if`
                    if self._block(fn, list(arm) + list(body[i + 1 :]), env2, rel2, rets, nanlit):
                        fell = True
                return fell
            if isinstance(st, ast.Assign) and len(st.targets) == 1 and isinstance(st.targets[0], ast.Name):
                env = dict(env)
                env[st.targets[0].id] = self._ev(fn, st.value, env, rel)
                rel = self._rel_after_copy(rel, {st.targets[0].id: st.value.id} if isinstance(st.value, ast.Name) else {st.targets[0].id: None})
                continue
            if isinstance(st, ast.Raise):
                return False
            raise AnalysisError(f"{fn.name}: statement outside the interval grammar: {ast.unparse(st)[:60]}")
        return True

    @staticmethod
    def _rel_after_copy(rel, ren):
        """Order facts after `new = old` for every (new, old) in ren (old None: new is an unrelated value):
        facts about a re-bound name are dropped, then every fact about a source is repeated for its copy."""
        out = {k: v for k, v in rel.items() if k[0] not in ren and k[1] not in ren}
        src = {n: o for n, o in ren.items() if o is not None}

        def names_for(x):
            return [x] * (x not in ren) + [n for n, o in src.items() if o == x]

        for (a, b), k in rel.items():
            for a2 in names_for(a):
                for b2 in names_for(b):
                    out[(a2, b2)] = k
        return out

    # ------------------------------------------------------------------
    def _const(self, e):
        if isinstance(e, ast.Constant) and isinstance(e.value, (int, float)) and not isinstance(e.value, bool):
            return float(e.value)
        if isinstance(e, ast.Name) and e.id == "inf":
            return INF
        if isinstance(e, ast.Name) and e.id in self.consts:
            return self.consts[e.id]
        if isinstance(e, ast.UnaryOp) and isinstance(e.op, ast.USub):
            v = self._const(e.operand)
            return None if v is None else -v
        return None

    def _test(self, fn, t, env, rel):
        """Return list of (truth, env, rel) outcomes that are feasible."""
        if isinstance(t, ast.BoolOp) and isinstance(t.op, ast.And):
            outs = [(True, env, rel)]
            res = []
            for v in t.values:
                nxt = []
                for _truth, e2, r2 in outs:
                    for tr, e3, r3 in self._test(fn, v, e2, r2):
                        if tr:
                            nxt.append((True, e3, r3))
                        else:
                            res.append((False, e3, r3))
                outs = nxt
            return outs + res
        if isinstance(t, ast.BoolOp) and isinstance(t.op, ast.Or):
            outs = [(False, env, rel)]
            res = []
            for v in t.values:
                nxt = []
                for _truth, e2, r2 in outs:
                    for tr, e3, r3 in self._test(fn, v, e2, r2):
                        if tr:
                            res.append((True, e3, r3))
                        else:
                            nxt.append((False, e3, r3))
                outs = nxt
            return outs + res
        if isinstance(t, ast.Compare) and len(t.ops) == 1:
            l, op, r = t.left, t.ops[0], t.comparators[0]
            c = self._const(r)
            if isinstance(l, ast.Name) and l.id in env and c is not None:
                return self._cmp_const(l.id, op, c, env, rel)
            if isinstance(l, ast.Name) and isinstance(r, ast.Name) and l.id in env and r.id in env:
                return self._cmp_vars(l.id, op, r.id, env, rel)
        raise AnalysisError(f"{fn.name}: branch test outside the interval grammar: {ast.unparse(t)[:60]}")

    def _cmp_const(self, name, op, c, env, rel):
        x: Iv = env[name]
        outs = []

        def sub(lo, hi, lo_open, hi_open):
            # intersect x with [lo,hi]
            nlo, nlo_open = (x.lo, x.lo_open) if (x.lo > lo or (x.lo == lo and (x.lo_open or not lo_open))) else (lo, lo_open)
            if x.lo == lo:
                nlo_open = x.lo_open or lo_open
            nhi, nhi_open = (x.hi, x.hi_open) if (x.hi < hi or (x.hi == hi and (x.hi_open or not hi_open))) else (hi, hi_open)
            if x.hi == hi:
                nhi_open = x.hi_open or hi_open
            if nlo > nhi or (nlo == nhi and (nlo_open or nhi_open)):
                return None
            return Iv(nlo, nhi, nlo_open, nhi_open)

        if isinstance(op, ast.Gt):
            parts = [(True, sub(c, INF, True, False)), (False, sub(-INF, c, False, False))]
        elif isinstance(op, ast.GtE):
            parts = [(True, sub(c, INF, False, False)), (False, sub(-INF, c, False, True))]
        elif isinstance(op, ast.Lt):
            parts = [(True, sub(-INF, c, False, True)), (False, sub(c, INF, False, False))]
        elif isinstance(op, ast.LtE):
            parts = [(True, sub(-INF, c, False, False)), (False, sub(c, INF, True, False))]
        elif isinstance(op, ast.Eq):
            eq = sub(c, c, False, False)
            parts = [(True, eq)]
            if not (x.is_point() and x.lo == c):
                # complement: keep x (minus the point when it is an end point)
                if x.lo == c and not x.lo_open:
                    ne = Iv(x.lo, x.hi, True, x.hi_open) if x.hi > x.lo else None
                elif x.hi == c and not x.hi_open:
                    ne = Iv(x.lo, x.hi, x.lo_open, True) if x.hi > x.lo else None
                else:
                    ne = x
                parts.append((False, ne))
        else:
            raise AnalysisError("unsupported comparison")
        for truth, iv in parts:
            if iv is not None:
                e2 = dict(env)
                e2[name] = iv
                outs.append((truth, e2, rel))
        return outs

    def _cmp_vars(self, a, op, b, env, rel):
        known = rel.get((a, b)) or {"<": ">", ">": "<", "==": "=="}.get(rel.get((b, a)))
        table = {ast.Gt: {">"}, ast.GtE: {">", "=="}, ast.Lt: {"<"}, ast.LtE: {"<", "=="}, ast.Eq: {"=="}}
        want = table[type(op)]
        outs = []
        cands = [known] if known else ["<", "==", ">"]
        for c in cands:
            r2 = dict(rel)
            r2[(a, b)] = c
            outs.append((c in want, env, r2))
        return outs

    # ------------------------------------------------------------------
    def _ev(self, fn, e, env, rel) -> Iv:
        self.n_evals += 1
        c = self._const(e)
        if c is not None:
            return Iv.point(c)
        if isinstance(e, ast.Name):
            if e.id in env:
                return env[e.id]
            raise AnalysisError(f"{fn.name}: unknown name {e.id}")
        if isinstance(e, ast.UnaryOp) and isinstance(e.op, ast.USub):
            return self._ev(fn, e.operand, env, rel).neg()
        if isinstance(e, ast.BinOp) and isinstance(e.op, (ast.Add, ast.Sub)):
            a = self._ev(fn, e.left, env, rel)
            b = self._ev(fn, e.right, env, rel)
            # relational refinement for differences of two compared names
            if isinstance(e.op, ast.Sub) and isinstance(e.left, ast.Name) and isinstance(e.right, ast.Name):
                k = rel.get((e.left.id, e.right.id)) or {"<": ">", ">": "<", "==": "=="}.get(rel.get((e.right.id, e.left.id)))
                if k is not None:
                    bb = b.neg()
                    res, bad = add(a, bb)
                    if k == "==":
                        # equal values: finite -> exactly 0, both -inf -> inf-inf
                        if a.contains(-INF) or a.contains(INF):
                            self._problem("inf-inf", fn, e, f"`{ast.unparse(e)}` with both operands equal and possibly infinite gives inf - inf = NaN")
                        return Iv.point(0.0)
                    if bad and ((a.contains(-INF) and b.contains(-INF)) or (a.contains(INF) and b.contains(INF))):
                        # a<b or a>b excludes a == b == +-inf
                        bad = False
                    if k == "<":
                        return Iv(res.lo, 0.0, res.lo_open, True) if res.lo < 0 else Iv(-INF, 0.0, False, True)
                    return Iv(0.0, res.hi, True, res.hi_open) if res.hi > 0 else Iv(0.0, INF, True, False)
            if isinstance(e.op, ast.Sub):
                b = b.neg()
            res, bad = add(a, b)
            if bad:
                self._problem("inf-inf", fn, e, f"`{ast.unparse(e)}` can evaluate inf - inf = NaN (operands {a!r}, {b.neg() if isinstance(e.op, ast.Sub) else b!r})")
            return res
        if isinstance(e, ast.Call) and isinstance(e.func, ast.Name):
            name = e.func.id
            args = [self._ev(fn, a, env, rel) for a in e.args]
            if name == "exp":
                # math.exp raises OverflowError above log(max float) (~709.78) instead of returning inf
                if args[0].hi > 709.782712893384 and not (args[0].hi == 709.782712893384 and args[0].hi_open):
                    self._problem("overflow", fn, e, f"exp argument `{ast.unparse(e.args[0])}` can exceed log(max float) ~ 709.78 (interval {args[0]!r}): math.exp raises OverflowError instead of the value being absorbed by a stable formula")
                return f_exp(args[0])
            if name == "expm1":
                if args[0].hi > 709.782712893384:
                    self._problem("overflow", fn, e, f"expm1 argument `{ast.unparse(e.args[0])}` can exceed log(max float) ~ 709.78 (interval {args[0]!r}): math.expm1 raises OverflowError - the difference of the log-values is exponentiated instead of being absorbed by a stable formula")
                return f_expm1(args[0])
            if name == "log":
                x = args[0]
                if x.some_le(0.0):
                    self._problem("domain", fn, e, f"log argument `{ast.unparse(e.args[0])}` can be <= 0 (interval {x!r}): math domain error / -inf")
                return f_log(Iv(max(x.lo, 0.0), x.hi, x.lo_open or x.lo < 0.0, x.hi_open)) if x.hi > 0 else Iv.point(-INF)
            if name == "log1p":
                x = args[0]
                if x.some_le(-1.0):
                    self._problem("domain", fn, e, f"log1p argument `{ast.unparse(e.args[0])}` can be <= -1 (interval {x!r}): math domain error")
                elif x.some_lt(-16.0 / 17.0):
                    self._problem("cancellation", fn, e, f"log1p argument `{ast.unparse(e.args[0])}` can be within 1/17 of -1 (interval {x!r}): 1 + x cancels and the rounding error of x is amplified more than 16-fold")
                return f_log1p(Iv(max(x.lo, -1.0), x.hi, x.lo_open, x.hi_open)) if x.hi > -1.0 else Iv.point(-INF)
            if name in self.funcs:
                order = None
                if len(e.args) >= 2 and all(isinstance(a, ast.Name) for a in e.args[:2]):
                    order = rel.get((e.args[0].id, e.args[1].id)) or {"<": ">", ">": "<", "==": "=="}.get(rel.get((e.args[1].id, e.args[0].id)))
                self.call_args.setdefault((fn.name, name), []).append((self.cell, ast.unparse(e), list(args)))
                r, isnan = self.call(name, args, order)
                if isnan:
                    self._problem("nan", fn, e, f"`{ast.unparse(e)}` is called with arguments {args!r} for which {name} returns NaN by definition: the NaN propagates into the result")
                if r is None:
                    return Iv(-INF, INF)
                return r
        raise AnalysisError(f"{fn.name}: expression outside the interval grammar: {ast.unparse(e)[:60]}")

    def _problem(self, kind, fn, node, what):
        key = (kind, fn.name, ast.unparse(node))
        if not any((p.kind, p.func, ast.unparse(p.node)) == key for p in self.problems):
            self.problems.append(Problem(kind, fn.name, node, what, self.cell))


def input_cells(negative_only=False):
    """Cells partitioning the input domain [-inf, MAXF] of a log-value."""
    cells = [
        ("-inf", Iv.point(-INF)),
        ("(-max,-1]", Iv(-MAXF, -1.0)),
        ("(-1,-2^-60]", Iv(-1.0, -(2.0 ** -60), True, False)),
        ("(-2^-60,0)", Iv(-(2.0 ** -60), 0.0, True, True)),
    ]
    if not negative_only:
        cells += [("0", Iv.point(0.0)), ("(0,1]", Iv(0.0, 1.0, True, False)), ("(1,max]", Iv(1.0, MAXF, True, False))]
    return cells


def order_feasible(a: Iv, o: str, b: Iv) -> bool:
    if o == "==":
        lo = max(a.lo, b.lo)
        hi = min(a.hi, b.hi)
        if lo > hi:
            return False
        return a.contains(lo) and b.contains(lo) or a.contains(hi) and b.contains(hi) or (lo < hi)
    if o == "<":
        return a.lo < b.hi
    return a.hi > b.lo
