"""E3 - read / write effect sets on ChainState variables, resolved through the
C3 MRO of a concrete class.

reads(K, f, p)  = state variables that evaluating ``f`` (resolved for instances of
class K) reads through its state-typed parameter ``p``, transitively through every
``self.m(p)`` / ``super().m(p)`` / ``Cls.m(self, p)`` callee.
"""

from __future__ import annotations

import ast
from dataclasses import dataclass, field

from .model import ClassInfo, FuncInfo, Program, is_self_attr, norm
from .report import AnalysisError

WEAK_ATTRS = {"shape", "dtype", "ndim", "size"}
WEAK_FUNCS = {
    "np.zeros_like",
    "np.ones_like",
    "np.empty_like",
    "numpy.zeros_like",
    "numpy.ones_like",
    "numpy.empty_like",
}
NON_VARIABLE_ATTRS = {"copy"}


@dataclass
class Effects:
    reads: dict[str, list[str]] = field(default_factory=dict)  # var -> chain samples
    weak_reads: set[str] = field(default_factory=set)
    writes: dict[str, list[str]] = field(default_factory=dict)
    user_calls: list[str] = field(default_factory=list)  # direct user-function calls
    user_calls_uncached: list[str] = field(default_factory=list)  # incl. via uncached callees
    callees: list[str] = field(default_factory=list)

    def merge_from(self, other: "Effects", via: str, *, cached_callee: bool) -> None:
        for v, ch in other.reads.items():
            self.reads.setdefault(v, []).extend(f"{via} -> {c}" for c in ch[:2])
        self.weak_reads |= other.weak_reads
        for v, ch in other.writes.items():
            self.writes.setdefault(v, []).extend(f"{via} -> {c}" for c in ch[:2])
        if not cached_callee:
            self.user_calls_uncached.extend(other.user_calls_uncached)


def parent_map(root: ast.AST) -> dict[ast.AST, ast.AST]:
    pm = {}
    for n in ast.walk(root):
        for c in ast.iter_child_nodes(n):
            pm[c] = n
    return pm


def user_function_attrs(k: ClassInfo) -> dict[str, ast.Call]:
    """self._x attributes bound (in some __init__ of K's MRO) to a user model
    function through wrap_function / autodiff_fallback."""
    out = {}
    for attr, sites in k.init_attr_assignments().items():
        for _f, st in sites:
            v = getattr(st, "value", None)
            # the wrapped function may be bound to a local first: f = autodiff_fallback(...); self._x = f
            if isinstance(v, ast.Name):
                defs = [a.value for a in ast.walk(_f.node) if isinstance(a, ast.Assign) and len(a.targets) == 1 and isinstance(a.targets[0], ast.Name) and a.targets[0].id == v.id]
                if len(defs) == 1:
                    v = defs[0]
            if isinstance(v, ast.Call) and norm(v.func) in (
                "wrap_function",
                "autodiff_fallback",
            ):
                out[attr] = v
    return out


class StateEffects:
    def __init__(self, program: Program) -> None:
        self.p = program
        self.memo: dict[tuple, Effects] = {}
        self.unresolved: list[str] = []
        self.resolved_calls = 0

    def state_params(self, f: FuncInfo) -> list[str]:
        out = []
        a = f.node.args
        for x in a.posonlyargs + a.args + a.kwonlyargs:
            ann = norm(x.annotation) if x.annotation is not None else ""
            if "ChainState" in ann or x.arg in ("state", "state_prev", "chain_state"):
                out.append(x.arg)
        return out

    def effects(self, k: ClassInfo, f: FuncInfo, param: str, _stack=()) -> Effects:
        key = (k.name, f.qualname, param)
        if key in self.memo:
            return self.memo[key]
        if key in _stack:
            return Effects()  # recursion: fixpoint contribution is empty here
        eff = Effects()
        ufuncs = user_function_attrs(k)
        pm = parent_map(f.node)
        for n in ast.walk(f.node):
            # ---- attribute access on the state parameter
            if (
                isinstance(n, ast.Attribute)
                and isinstance(n.value, ast.Name)
                and n.value.id == param
                and n.attr not in NON_VARIABLE_ATTRS
                and not n.attr.startswith("_")
            ):
                par = pm.get(n)
                where = f"{f.qualname}:{param}.{n.attr}"
                if isinstance(n.ctx, ast.Store):
                    eff.writes.setdefault(n.attr, []).append(where)
                    if isinstance(par, ast.AugAssign) and par.target is n:
                        eff.reads.setdefault(n.attr, []).append(where)
                    continue
                if isinstance(par, ast.Attribute) and par.attr in WEAK_ATTRS:
                    eff.weak_reads.add(n.attr)
                    continue
                if (
                    isinstance(par, ast.Call)
                    and norm(par.func) in WEAK_FUNCS
                    and par.args
                    and par.args[0] is n
                ):
                    eff.weak_reads.add(n.attr)
                    continue
                eff.reads.setdefault(n.attr, []).append(where)
            # ---- the state object passed on to a callee
            if isinstance(n, ast.Call):
                argpos = None
                for i, a in enumerate(n.args):
                    if isinstance(a, ast.Name) and a.id == param:
                        argpos = i
                kwname = None
                for kw in n.keywords:
                    if isinstance(kw.value, ast.Name) and kw.value.id == param:
                        kwname = kw.arg
                fn = n.func
                # direct call of a user model function attribute
                if is_self_attr(fn) and fn.attr in ufuncs:
                    eff.user_calls.append(f"{f.qualname}:self.{fn.attr}")
                    eff.user_calls_uncached.append(f"{f.qualname}:self.{fn.attr}")
                if argpos is None and kwname is None:
                    continue
                callee, offset = self._resolve(k, f, n)
                if callee is None:
                    self.unresolved.append(f"{f.qualname}: {norm(n)[:80]}")
                    msg = (
                        f"state object escapes to an unresolved callee in "
                        f"{f.qualname}: {norm(n)[:100]}"
                    )
                    raise AnalysisError(msg)
                self.resolved_calls += 1
                if kwname is not None:
                    cparam = kwname
                else:
                    cps = callee.params
                    idx = argpos + offset
                    if idx >= len(cps):
                        msg = f"cannot map state argument in {norm(n)[:80]}"
                        raise AnalysisError(msg)
                    cparam = cps[idx]
                sub = self.effects(k, callee, cparam, (*_stack, key))
                eff.callees.append(callee.qualname)
                eff.merge_from(
                    sub, callee.qualname, cached_callee=callee.cache_deps is not None
                )
        self.memo[key] = eff
        return eff

    def _resolve(self, k: ClassInfo, f: FuncInfo, call: ast.Call):
        """Return (callee FuncInfo, offset of first explicit arg in callee params)."""
        fn = call.func
        if isinstance(fn, ast.Attribute):
            # self.m(...)
            if isinstance(fn.value, ast.Name) and fn.value.id == "self":
                c = k.resolve(fn.attr)
                if c is not None and not c.is_property:
                    return c, 1
                return None, 0
            # super().m(...)
            if (
                isinstance(fn.value, ast.Call)
                and isinstance(fn.value.func, ast.Name)
                and fn.value.func.id == "super"
                and f.cls is not None
            ):
                c = k.resolve_super(f.cls, fn.attr)
                if c is not None:
                    return c, 1
                return None, 0
            # Cls.m(self, ...)
            if isinstance(fn.value, ast.Name) and fn.value.id in self.p.classes:
                c = self.p.classes[fn.value.id].resolve(fn.attr)
                if c is not None:
                    return c, 0
        return None, 0
