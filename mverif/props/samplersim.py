"""Abstract runs of the sampling driver (mici/samplers.py + mici/stagers.py) in the token domain.

`MarkovChainMonteCarloMethod.sample_chains`, the stagers and every helper they reach are interpreted by
mverif.absexec - never imported - with harness objects standing in for the collaborators outside the two
modules: transitions (each `sample` call returns a *labelled* successor state and labelled statistics),
adapters (calls recorded), trace functions (value labelled by the state they saw), generators, progress bars and
NumPy's array allocation (`np.full` yields lists of fill tokens).  Iteration and stage counts are small concrete
integers; states, statistics, traced values and generators are opaque tokens whose labels say which chain /
transition sequence produced them, so the content of every output row can be compared with the label a
reference run of the documented semantics predicts.  A keyboard interrupt can be injected at any harness call.

Used by C13 (rows = post-iteration states), C15 (interrupt = consistent prefix), C16 (adaptation confined to
warm-up; stage partition), C14 (one generator per chain, same one in every stage).
"""

from __future__ import annotations

import ast

from ..absexec import BUILTINS, ClassObj, ExcClass, ExcObj, EXC_BASES, HObj, Instance, Interp, NamedTupleObj, PyRaise, Token, Unsupported, _builtin
from ..model import Program

FILL_NAN = Token("fill:nan")
FILL_ZERO = Token("fill:0")

STATE_SRC = '''
class ChainState:
    def __init__(self, **variables):
        self.__dict__.update(variables)

    def __contains__(self, name):
        return name in self.__dict__
'''


AUX_SRC = """
class Path:
    def __init__(self, p):
        self.p = str(p.p) if isinstance(p, Path) else str(p)

    def __truediv__(self, other):
        return Path(self.p + "/" + str(other))

    def joinpath(self, *others):
        out = self
        for o in others:
            out = out / o
        return out

    def __str__(self):
        return self.p


class memmap:
    def __init__(self, filename, rows, state, dtype):
        self.filename = filename
        self.rows = rows
        self.state = state
        self.dtype = dtype

    def __len__(self):
        return len(self.rows)

    def __getitem__(self, i):
        return self.rows[i]

    def __setitem__(self, i, v):
        if isinstance(i, slice):
            for j in range(len(self.rows)):
                self.rows[j] = v
        else:
            self.rows[i] = v
            self.state["dirty"] = True

    def flush(self):
        self.state["dirty"] = False
"""


class Recorder:
    def __init__(self):
        self.events = []
        self.counter = 0
        self.inject_at = None
        self.inject_kind = "KeyboardInterrupt"
        self.injected = False
        self.tick_log = []

    def tick(self, what):
        """One harness call that evaluates user / model code: the place where an interrupt can arrive."""
        self.counter += 1
        self.tick_log.append(what)
        if self.inject_at is not None and self.counter == self.inject_at:
            self.injected = True
            self.events.append(("interrupt", what))
            raise PyRaise(self.inject_kind, None, ExcObj(ExcClass(self.inject_kind)))


def _load_module(it: Interp, env, source: str, prebound: dict):
    for k, v in prebound.items():
        env.set(k, v)
    for st in ast.parse(source).body:
        if isinstance(st, (ast.FunctionDef, ast.ClassDef)) and st.name in prebound:
            continue
        if isinstance(st, (ast.FunctionDef, ast.ClassDef)):
            try:
                it.stmt(st, env)
            except Unsupported:
                if isinstance(st, ast.ClassDef):
                    continue
                raise
        elif isinstance(st, ast.Assign) and len(st.targets) == 1 and isinstance(st.targets[0], ast.Name) and st.targets[0].id not in prebound:
            try:
                env.set(st.targets[0].id, it.ev(st.value, env))
            except (Unsupported, PyRaise):
                pass


def _mod(program: Program, name: str):
    return next(mm for nm, mm in program.modules.items() if nm.split(".")[-1] == name)


class Harness:
    def __init__(self, program: Program):
        self.program = program
        self.it = Interp()
        self.rec = Recorder()
        it = self.it
        EXC_BASES.setdefault("Error", ("RuntimeError",))
        EXC_BASES.setdefault("AdaptationError", ("Error",))
        EXC_BASES.setdefault("DeprecationWarning", ("Exception",))
        from ..absexec import Env

        # ---- stagers module
        self.env_stagers = Env(it.globals)
        _load_module(it, self.env_stagers, _mod(program, "stagers").source, {"abc": HObj("abc", attrs={"ABC": None}, methods={"abstractmethod": lambda f: f}), "itertools": HObj("itertools", attrs={"chain": BUILTINS["chain"], "zip_longest": BUILTINS["zip_longest"], "islice": BUILTINS["islice"]}), "chain": BUILTINS["chain"]})
        # ---- a minimal ChainState (the real one is the subject of C09 / C18)
        env_state = Env(it.globals)
        _load_module(it, env_state, STATE_SRC, {})
        self.ChainState = env_state.lookup("ChainState")
        env_aux = Env(it.globals)
        _load_module(it, env_aux, AUX_SRC, {})
        self.Path, self.memmap = env_aux.lookup("Path"), env_aux.lookup("memmap")
        # ---- samplers module
        np = HObj(
            "np",
            attrs={
                "nan": Token("nan"),
                "inexact": Token("inexact"),
                "random": HObj("np.random", attrs={"RandomState": ClassObj("RandomState", {}), "Generator": ClassObj("Generator", {})}),
                "memmap": self.memmap,
                "lib": HObj("np.lib", attrs={"format": HObj("np.lib.format", methods={"open_memmap": self._open_memmap})}),
            },
            methods={"full": self._np_full, "array": lambda v, *a, **k: v, "isscalar": lambda v: isinstance(v, (Token, int, float)), "issubdtype": lambda dt, kind: bool(isinstance(dt, Token) and dt._attrs.get("inexact"))},
        )
        logger = HObj("logger", methods={n: (lambda *a, **k: None) for n in ("exception", "warning", "info", "error", "debug")})
        pre = {
            "np": np,
            "logger": logger,
            "default_rng": _builtin(self._default_rng),
            "AdaptationError": ExcClass("AdaptationError"),
            "ChainState": self.ChainState,
            "WarmUpStager": self.env_stagers.lookup("WarmUpStager"),
            "WindowedWarmUpStager": self.env_stagers.lookup("WindowedWarmUpStager"),
            "DummyProgressBar": _builtin(self._bar),
            "SequenceProgressBar": _builtin(self._bar),
            "LabelledSequenceProgressBar": _builtin(self._labelled_bar),
            "MULTIPROCESS_AVAILABLE": False,
            "THREADPOOLCTL_AVAILABLE": False,
            "os": HObj("os", methods={"cpu_count": lambda: 1}),
            "tempfile": HObj("tempfile", methods={"TemporaryDirectory": lambda: HObj("tmpdir", methods={"__enter__": lambda: Token("tmp-path"), "__exit__": lambda *a: False})}),
            "nullcontext": BUILTINS["nullcontext"],
            "warn": _builtin(lambda *a, **k: None),
            "Path": self.Path,
            "queue": HObj("queue", attrs={"Empty": ExcClass("Empty")}),
            "itertools": HObj("itertools", attrs={"chain": BUILTINS["chain"], "zip_longest": BUILTINS["zip_longest"], "islice": BUILTINS["islice"]}),
            "chain": BUILTINS["chain"],
            "operator": HObj("operator", attrs={"itemgetter": BUILTINS["itemgetter"]}),
            "itemgetter": BUILTINS["itemgetter"],
            "contextlib": HObj("contextlib", attrs={"nullcontext": BUILTINS["nullcontext"]}),
            "dataclass": None,
            "dataclasses": None,
            "ExitStack": _builtin(self._exit_stack),
            "_ignore_sigint_manager": _builtin(self._manager_cm),
            "_pool_context_manager": _builtin(self._pool_cm),
            "_ProxySequenceProgressBar": _builtin(self._proxy_bar),
            "_get_valid_filename": _builtin(lambda x: str(x)),
            "PicklingError": ExcClass("PicklingError"),
        }
        self.env_samplers = Env(it.globals)
        _load_module(it, self.env_samplers, _mod(program, "samplers").source, pre)

    # ------------------------------------------------------------------ NumPy / generator / bar stubs
    def _np_full(self, shape, val, dtype=None):
        shape = tuple(shape) if isinstance(shape, (tuple, list)) else (shape,)
        if not all(isinstance(n, int) for n in shape) or len(shape) > 3:
            raise Unsupported("array shape outside the abstract domain")
        fill = FILL_NAN if (isinstance(val, Token) and val._name == "nan") else Token(f"fill:{val}") if not (isinstance(val, int) and val == 0) else FILL_ZERO
        self.fills.add(id(fill))
        self._fill_objs.append(fill)

        def mk(dims):
            if len(dims) == 1:
                return [fill for _ in range(dims[0])]
            return [mk(dims[1:]) for _ in range(dims[0])]

        return mk(shape)

    def _default_rng(self, seed=None):
        n = len(self.rngs)
        rng = HObj(f"rng{n}", attrs={"seed": seed, "bit_generator": HObj(f"bitgen{n}", attrs={"state": {"state": 1000 * n, "has_uint32": 1000 * n}})})
        self.rngs.append(rng)
        return rng

    def _open_memmap(self, file_path, dtype=None, mode="r+", shape=None):
        key = file_path.dict.get("p") if isinstance(file_path, Instance) else str(file_path)
        if shape is not None:
            shape = tuple(shape) if isinstance(shape, (tuple, list)) else (shape,)
            if len(shape) != 1 or not isinstance(shape[0], int):
                raise Unsupported("memmap shape outside the abstract domain")
            if key in self.files:
                self.rec.events.append(("file-reused", key))
            self.files[key] = ([Token("fill:file-zero") for _ in range(shape[0])], {"dirty": False}, dtype)
        elif key not in self.files:
            raise PyRaise("OSError")
        mm = self.it.call(self.memmap, [key, self.files[key][0], self.files[key][1], self.files[key][2]])
        self.memmaps.append(mm)
        return mm

    def _pickle(self, o, memo=None):
        """What the receiving process holds after `o` went through a multiprocessing queue."""
        memo = {} if memo is None else memo
        if id(o) in memo:
            return memo[id(o)]
        if isinstance(o, dict):
            memo[id(o)] = d = {}
            for k, v in o.items():
                d[k] = self._pickle(v, memo)
            return d
        if isinstance(o, list):
            memo[id(o)] = lst = []
            lst.extend(self._pickle(x, memo) for x in o)
            return lst
        if isinstance(o, tuple) and not isinstance(o, NamedTupleObj):
            return tuple(self._pickle(x, memo) for x in o)
        if isinstance(o, Instance):
            if o.cls is self.Path:
                return o
            new = Instance(o.cls)
            memo[id(o)] = new
            for k, v in o.dict.items():
                new.dict[k] = self._pickle(v, memo)
            if o.cls is self.memmap:
                # a pickled memory map arrives as an ordinary in-memory array: writes no longer reach the file
                new.dict["filename"] = None
                new.dict["state"] = {"dirty": False}
                self.memmaps.append(new)
            return new
        if isinstance(o, HObj) and o.name.startswith("rng"):
            bg = o.attrs["bit_generator"]
            nb = HObj(bg.name, attrs={"state": dict(bg.attrs["state"])})
            new = HObj(o.name, attrs={"seed": o.attrs.get("seed"), "bit_generator": nb, "origin": o.attrs.get("origin", o)})
            memo[id(o)] = new
            return new
        return o

    def _queue(self):
        items = []
        q = HObj("queue")

        def is_chain_item(x):
            return isinstance(x, tuple) and len(x) == 3 and isinstance(x[2], dict)

        def mine():
            w = self.cur_worker
            if w is None or not self.assignment:
                return list(range(len(items)))
            return [i for i, x in enumerate(items) if not is_chain_item(x) or self.assignment.get(x[0], 0) == w]

        def put(x):
            items.append(self._pickle(x) if is_chain_item(x) else x)

        def get(block=True, timeout=None):
            if self.cur_worker is None and block:
                # the parent process waiting for progress items: an interrupt can reach it first
                self.rec.tick(("parent-wait",))
            idx = mine()
            if not idx:
                if block:
                    self.rec.events.append(("deadlock",))
                    raise PyRaise("Deadlock", None, ExcObj(ExcClass("Deadlock")))
                raise PyRaise("Empty", None, ExcObj(ExcClass("Empty")))
            return items.pop(idx[0])

        q.methods.update({"put": put, "get": get, "empty": lambda: not mine(), "qsize": lambda: len(mine())})
        return q

    def _manager_cm(self):
        mgr = HObj("manager", methods={"Queue": self._queue})
        return HObj("manager-cm", methods={"__enter__": lambda: mgr, "__exit__": lambda *a: False})

    def _pool_cm(self, n_process):
        def starmap_async(fn, arglist):
            arglist = [tuple(self.it.iterate(a)) for a in self.it.iterate(arglist)]
            self.rec.events.append(("dispatch", len(arglist)))
            results = [None] * len(arglist)
            error = []
            order = self.worker_order if self.worker_order and sorted(self.worker_order) == list(range(len(arglist))) else list(range(len(arglist)))
            for w in order:
                self.cur_worker = w
                try:
                    # every worker process receives its own copy of the common arguments
                    a = list(arglist[w])
                    a[2:] = [dict(x) if isinstance(x, dict) else x for x in a[2:]]
                    results[w] = self.it.call(fn, a)
                except PyRaise as e:
                    error.append(e)
                    results[w] = []
                finally:
                    self.cur_worker = None

            def get():
                if error:
                    raise error[0]
                return results

            return HObj("async-result", methods={"get": get, "ready": lambda: True})

        pool = HObj("pool", methods={"starmap_async": starmap_async})
        return HObj("pool-cm", methods={"__enter__": lambda: pool, "__exit__": lambda *a: False})

    def _exit_stack(self):
        entered = []
        st = HObj("ExitStack")

        def enter_context(cm):
            v = self.it.call(self.it.getattr(cm, "__enter__"), [])
            entered.append(cm)
            return v

        def exit_(*a):
            for cm in reversed(entered):
                self.it.call(self.it.getattr(cm, "__exit__"), [None, None, None])
            return False

        st.methods.update({"__enter__": lambda: st, "__exit__": exit_, "enter_context": enter_context})
        return st

    def _proxy_bar(self, sequence, job_id, iter_queue):
        bar = HObj("proxy-bar", attrs={"sequence": sequence})
        put = self.it.getattr(iter_queue, "put")

        def enter():
            self.it.call(put, [(job_id, 0, None)])
            return bar

        def it_hook():
            for i, val in enumerate(self.it.iterate(sequence)):
                d = {}
                yield (val, d)
                self.it.call(put, [(job_id, i + 1, d)])

        bar.iter_hook = it_hook
        bar.methods.update({"__enter__": enter, "__exit__": lambda *a: False, "__len__": lambda: len(self.it.iterate(sequence))})
        return bar

    def _bar(self, sequence, description=None, position=None):
        bar = HObj("bar", attrs={"sequence": sequence, "active": False})

        def it_hook():
            return [(v, {}) for v in self.it.iterate(bar.attrs["sequence"])]

        def enter():
            bar.attrs["active"] = True
            return bar

        def exit_(*a):
            bar.attrs["active"] = False
            return False

        bar.iter_hook = it_hook
        bar.methods.update({"__enter__": enter, "__exit__": exit_, "update": lambda *a, **k: None, "__len__": lambda: len(self.it.iterate(bar.attrs["sequence"]))})
        return bar

    def _labelled_bar(self, labelled_sequence, description=None, position=None):
        bar = self._bar(list(labelled_sequence.values()) if isinstance(labelled_sequence, dict) else labelled_sequence, description, position)
        return bar

    # ------------------------------------------------------------------ collaborators
    def _transition(self, key, with_stats):
        rec = self.rec
        dtype = Token("float64", inexact=True)

        def sample(state, rng):
            rec.tick(("sample", key, getattr(state, "dict", {}).get("label")))
            if not isinstance(state, Instance):
                raise PyRaise("TypeError")
            label = state.dict.get("label")
            new = self.it.call(self.ChainState, [], {"label": f"{label}>{key}", "chain": state.dict.get("chain")})
            stats = {"stat": Token(f"stat[{key}]@{label}>{key}")} if with_stats else None
            if with_stats and key == "t1":
                stats["n"] = Token(f"n[{key}]@{label}>{key}")
            snap = None
            if isinstance(rng, HObj) and "bit_generator" in rng.attrs:
                st_ = rng.attrs["bit_generator"].attrs.get("state")
                if isinstance(st_, dict):
                    snap = (st_.get("state"), st_.get("has_uint32"))
                    # a draw advances the counter and the buffered half-word of the bit generator
                    rng.attrs["bit_generator"].attrs["state"] = {**st_, "state": (st_.get("state") or 0) + 1, "has_uint32": (st_.get("has_uint32") or 0) + 1}
            rec.events.append(("sample", key, state.dict.get("chain"), label, rng.attrs.get("origin", rng) if isinstance(rng, HObj) else rng, snap))
            return (new, stats)

        types = None
        if with_stats:
            types = {"stat": (dtype, Token("nan"))}
            if key == "t1":
                types["n"] = (Token("int64", inexact=False), -1)
        return HObj(f"transition[{key}]", attrs={"state_variables": set(), "statistic_types": types}, methods={"sample": sample})

    def _adapter(self, name, is_fast):
        rec = self.rec
        ad = HObj(f"adapter[{name}]", attrs={"is_fast": is_fast})
        self.adapter_names = getattr(self, "adapter_names", set()) | {name}

        def initialize(state, transition):
            rec.events.append(("initialize", name, state.dict.get("chain"), state.dict.get("label")))
            return {"adapter": name, "chain": state.dict.get("chain"), "n_update": 0}

        def update(adapter_state, state, trans_stats, transition):
            rec.tick(("update", name, state.dict.get("label")))
            adapter_state["n_update"] += 1
            rec.events.append(("update", name, state.dict.get("chain"), state.dict.get("label"), adapter_state))

        def finalize(adapter_states, chain_states, transition, rngs):
            rec.events.append(("finalize", name, [(a.get("chain"), a.get("n_update")) for a in self.it.iterate(adapter_states)], [s.dict.get("label") for s in self.it.iterate(chain_states)], list(self.it.iterate(rngs)), getattr(transition, "name", None), sorted({a.get("adapter") for a in self.it.iterate(adapter_states)})))

        ad.methods.update({"initialize": initialize, "update": update, "finalize": finalize})
        return ad

    def _trace_func(self, integer=False):
        rec = self.rec

        def trace(state):
            rec.tick(("trace", state.dict.get("label")))
            dt = Token("int64", inexact=False) if integer else Token("float64", inexact=True)
            return {"x": Token(f"trace@{state.dict.get('label')}", dtype=dt, shape=())}

        f = _builtin(trace)
        return f

    # ------------------------------------------------------------------ one run
    def run(self, *, n_chain, n_warm, n_main, trace_warm_up, adapters, traced, stager=None, inject_at=None, monitor=False, display_progress=False, n_process=1, assignment=None, worker_order=None, force_memmap=False, stats2=False, rng_kind="jumped", init_as="state"):
        """adapters: None | 'fast' | 'fast+slow';  stager: None | 'windowed' (small windows) | 'warmup'"""
        self.rec = rec = Recorder()
        rec.inject_at = inject_at
        self.fills, self._fill_objs, self.rngs = set(), [], []
        self.files, self.memmaps = {}, []
        self.cur_worker, self.assignment, self.worker_order = None, assignment or {}, worker_order
        it = self.it
        it.budget = 400000
        transitions = {"t1": self._transition("t1", True), "t2": self._transition("t2", stats2)}
        if rng_kind == "spawn":
            # a bit generator without `jumped` (e.g. SFC64): children are spawned from the seed sequence
            seq = HObj("seed_seq", methods={"spawn": lambda n: [Token(f"jumped({i})") for i in range(n)]})
            base = HObj("base_rng", attrs={"bit_generator": HObj("base_bitgen", attrs={"_seed_seq": seq})})
        elif rng_kind == "legacy-attr":
            base = HObj("base_rng", attrs={"_bit_generator": HObj("base_bitgen", methods={"jumped": lambda i: Token(f"jumped({i})")})})
        else:
            base = HObj("base_rng", attrs={"bit_generator": HObj("base_bitgen", methods={"jumped": lambda i: Token(f"jumped({i})")})})
        cls = self.env_samplers.lookup("MarkovChainMonteCarloMethod")
        sampler = it.call(cls, [base, transitions])
        ads = None
        if adapters == "fast":
            ads = {"t1": [self._adapter("fast", True)]}
        elif adapters == "fast+slow":
            ads = {"t1": [self._adapter("fast", True), self._adapter("slow", False)]}
        elif adapters == "two-keys":
            # adapters on both transitions (the second one produces no statistics), one fast and one slow
            ads = {"t1": [self._adapter("fast", True)], "t2": [self._adapter("slow", False)]}
        elif adapters == "empty-list":
            ads = {"t1": [self._adapter("fast", True)], "t2": []}
        stg = None
        try:
            stg = self._make_stager(stager)
        except PyRaise as e:
            # the stager rejects these settings loudly: the scenario does not exist for this tree
            return {"skipped": f"stager settings rejected ({e.exc_name})", "raised": None, "result": None, "events": [], "n_events": 0, "tick_log": [], "rngs": [], "memmaps": [], "injected": False}
        if init_as == "dict":
            # initial states given as dictionaries of variables (converted by the sampler)
            init_states = [{"label": f"c{c}", "chain": c} for c in range(n_chain)]
        else:
            init_states = [it.call(self.ChainState, [], {"label": f"c{c}", "chain": c}) for c in range(n_chain)]
        return self._run2(locals())

    def _make_stager(self, stager):
        it = self.it
        stg = None
        if stager == "windowed":
            stg = it.call(self.env_stagers.lookup("WindowedWarmUpStager"), [2, 1, 1, 2.0])
        elif stager == "windowed-1.5":
            stg = it.call(self.env_stagers.lookup("WindowedWarmUpStager"), [2, 1, 1, 1.5])
        elif stager == "windowed-1":
            stg = it.call(self.env_stagers.lookup("WindowedWarmUpStager"), [2, 1, 1, 1.0])
        elif stager == "windowed-0":
            stg = it.call(self.env_stagers.lookup("WindowedWarmUpStager"), [0, 0, 0, 2.0])
        elif stager == "warmup":
            stg = it.call(self.env_stagers.lookup("WarmUpStager"), [])
        return stg

    def _run2(self, L):
        it, rec = self.it, self.rec
        traced, ads, stg, n_process, force_memmap, trace_warm_up, display_progress, monitor = L["traced"], L["ads"], L["stg"], L["n_process"], L["force_memmap"], L["trace_warm_up"], L["display_progress"], L["monitor"]
        sampler, n_warm, n_main, init_states = L["sampler"], L["n_warm"], L["n_main"], L["init_states"]
        tfs = None
        if traced == "two":
            tfs = [self._trace_func(), self._trace_func(integer=True)]
        elif traced:
            tfs = [self._trace_func()]
        kwargs = {"trace_funcs": tfs, "adapters": ads, "stager": stg, "n_process": n_process, "force_memmap": force_memmap, "trace_warm_up": trace_warm_up, "display_progress": display_progress}
        if monitor:
            kwargs["monitor_stats"] = {"t1": ["stat"]}
        out = {"raised": None, "result": None}
        try:
            out["result"] = it.call(it.getattr(sampler, "sample_chains"), [n_warm, n_main, init_states], kwargs)
        except PyRaise as e:
            out["raised"] = e.exc_name
        out["events"] = rec.events
        out["n_events"] = rec.counter
        out["tick_log"] = rec.tick_log
        out["injected"] = rec.injected
        out["rngs"] = self.rngs
        out["memmaps"] = self.memmaps
        return out


def expected_label(chain, n_iter):
    return f"c{chain}" + ">t1>t2" * n_iter


def unpack(result):
    """(final_states, traces, stats) of the returned named tuple."""
    if isinstance(result, (NamedTupleObj, tuple)) and len(result) == 3:
        return result[0], result[1], result[2]
    return None


# ---------------------------------------------------------------------------------------------------- judging
import re as _re

_LABEL = _re.compile(r"c(\d+)((?:>t1>t2)*)(>t1)?")


def _short(txt: str) -> str:
    """`c0>t1>t2>t1>t2>t1` -> `c0@2+t1` (chain 0 after two iterations and the first transition of the third)."""
    return _LABEL.sub(lambda m: f"c{m.group(1)}@{len(m.group(2)) // 6}{'+t1' if m.group(3) else ''}", txt)


def _name(tok):
    if isinstance(tok, Token):
        n = tok._name
        if n == "nan":
            return "fill:nan"
        return n
    if isinstance(tok, int) and not isinstance(tok, bool):
        return f"fill:{tok}"
    return repr(tok)


def _is_fill(tok):
    return _name(tok).startswith("fill:")


def _rows(x):
    """The rows of an abstract array: a list (np.full) or a memory map object."""
    if isinstance(x, Instance) and "rows" in x.dict:
        return x.dict["rows"]
    return x


def _n_iter_of(label: str) -> int:
    """Zero-based index of the iteration in which a state with this label is produced / used by an adapter update."""
    return max(label.count(">t1") - 1, 0)


def describe(params) -> str:
    keys = ("n_chain", "n_warm", "n_main", "trace_warm_up", "adapters", "traced", "stager", "monitor", "display_progress", "n_process", "assignment", "worker_order", "force_memmap", "stats2", "rng_kind", "init_as")
    return ", ".join(f"{k}={params[k]}" for k in keys if k in params and params[k] not in (None, False) or k in ("n_chain", "n_warm", "n_main"))


def declared_stats(params):
    return [("t1", "stat"), ("t1", "n")] + ([("t2", "stat")] if params.get("stats2") else [])


def judge_complete(params, out):
    """Uninterrupted run against the documented semantics -> [(property, key, message)]"""
    v = []
    where = describe(params)
    n_chain, n_warm, n_main = params["n_chain"], params["n_warm"], params["n_main"]
    if out["raised"]:
        v = [("C13", f"run-raises:{out['raised']}", f"sample_chains raises {out['raised']} ({where})")]
        if params.get("adapters") and any(e[0] in ("initialize", "update") for e in out["events"]) and not any(e[0] == "finalize" for e in out["events"][-1:]):
            last = next((e for e in reversed(out["events"]) if e[0] in ("sample", "update", "initialize", "finalize")), None)
            if last is not None and last[0] in ("update", "sample") and not any(e[0] == "sample" and e[3].count(">t2") >= params["n_warm"] for e in out["events"]):
                # the run dies during the warm-up, at the point where a stage's adapters are finalised
                v.append(("C16", f"adaptation-raises:{out['raised']}", f"sample_chains raises {out['raised']} when the adapters of a warm-up stage are finalised ({where})"))
        return v
    res = unpack(out["result"])
    if res is None:
        return [("C13", "result-shape", f"sample_chains does not return (final_states, traces, statistics) ({where})")]
    finals, traces, stats = res
    total = n_warm + n_main
    # ---- C13
    labels = [s.dict.get("label") if isinstance(s, Instance) else None for s in finals] if isinstance(finals, list) else None
    want = [expected_label(c, total) for c in range(n_chain)]
    if labels != want:
        v.append(("C13", "final-state", f"returned final states are {labels}, the states after the last iteration are {want} ({where})"))
    rec_all = params["trace_warm_up"]
    n_rec = total if rec_all else n_main
    g0 = 0 if rec_all else n_warm
    if params["traced"]:
        rows = traces.get("x") if isinstance(traces, dict) else None
        if not isinstance(rows, list) or len(rows) != n_chain:
            v.append(("C13", "trace-shape", f"traces['x'] does not hold one array per chain ({where})"))
        else:
            for c, row in enumerate(rows):
                row = _rows(row)
                if not isinstance(row, list):
                    v.append(("C13", "trace-shape", f"trace array of chain {c} is not an array ({where})"))
                    continue
                if len(row) != n_rec:
                    v.append(("C13", "trace-length", f"trace array of chain {c} has {len(row)} rows for {n_rec} recorded iterations ({where})"))
                    continue
                for r, tok in enumerate(row):
                    exp = f"trace@{expected_label(c, g0 + r + 1)}"
                    if _name(tok) != exp:
                        v.append(("C13", "trace-row-fill" if _is_fill(tok) else "trace-row", f"row {r} of chain {c}'s trace holds `{_name(tok)}`; the traced value of the state after recorded iteration {r} is `{exp}` ({where})"))
                        break
    elif traces is not None and traces != {}:
        v.append(("C13", "trace-unrequested", f"traces returned although no trace function was given ({where})"))
    for tk, sk in declared_stats(params):
        srows = None
        if isinstance(stats, dict) and isinstance(stats.get(tk), dict):
            srows = stats[tk].get(sk)
        if not isinstance(srows, list) or len(srows) != n_chain:
            v.append(("C13", "stats-shape", f"statistics['{tk}']['{sk}'] does not hold one array per chain ({where})"))
            continue
        for c, row in enumerate(srows):
            row = _rows(row)
            if not isinstance(row, list):
                v.append(("C13", "stats-shape", f"statistics array of chain {c} is not an array ({where})"))
                continue
            if len(row) != n_rec:
                v.append(("C13", "stats-length", f"statistics array '{tk}.{sk}' of chain {c} has {len(row)} rows for {n_rec} recorded iterations ({where})"))
                continue
            for r, tok in enumerate(row):
                exp = f"{sk}[{tk}]@{expected_label(c, g0 + r)}>t1" + (">t2" if tk == "t2" else "")
                if _name(tok) != exp:
                    v.append(("C13", "stats-row-fill" if _is_fill(tok) else "stats-row", f"row {r} of chain {c}'s statistics '{tk}.{sk}' holds `{_name(tok)}`; that iteration's statistic is `{exp}` ({where})"))
                    break
    if isinstance(stats, dict) and "t2" in stats and not params.get("stats2"):
        v.append(("C13", "stats-undeclared", f"statistics returned for a transition that declares none ({where})"))
    # ---- C14: one generator per chain, the same object in every stage, derived from the chain index
    per_chain = {}
    for e in out["events"]:
        if e[0] == "sample":
            per_chain.setdefault(e[2], []).append(e[4])
    for c, rs in per_chain.items():
        if any(r is not rs[0] for r in rs):
            v.append(("C14", "generator-changes", f"chain {c} is driven by more than one generator object during the run ({where})"))
        seed = rs[0].attrs.get("seed") if isinstance(rs[0], HObj) else None
        if _name(seed) != f"jumped({c})":
            v.append(("C14", "generator-derivation", f"chain {c}'s generator is derived from `{_name(seed)}`, not from the base generator advanced by the chain index ({where})"))
    for c in range(n_chain):
        snaps = [e[5] for e in out["events"] if e[0] == "sample" and e[2] == c and len(e) > 5 and e[5] is not None]
        base = 1000 * c  # every generator starts from its own state
        for kk, sn in enumerate(snaps):
            if sn != (base + kk, base + kk):
                replay = sn[0] is not None and base <= sn[0] < base + kk
                foreign = sn[0] is not None and not (base <= sn[0] < base + 1000)
                what = "replays draws it has produced before" if replay else ("continues from the state of another chain's generator" if foreign else "is not continued exactly")
                v.append(("C14", "stream-replayed" if replay else ("stream-foreign" if foreign else "stream-state"), f"the random stream of chain {c} {what}: draw {kk} of the run starts from generator state {sn} instead of {(base + kk, base + kk)} (the state the previous draw left, including the buffered half-word) ({where})"))
                break
    firsts = [rs[0] for rs in per_chain.values()]
    if len({id(r) for r in firsts}) != len(firsts):
        v.append(("C14", "generator-shared", f"two chains are driven by the same generator object ({where})"))
    # every chain visits its iterations in order with both transitions
    for c in range(n_chain):
        seq = [(e[1], e[3]) for e in out["events"] if e[0] == "sample" and e[2] == c]
        exp = []
        lab = f"c{c}"
        for _ in range(total):
            exp.append(("t1", lab))
            lab += ">t1"
            exp.append(("t2", lab))
            lab += ">t2"
        if seq != exp:
            v.append(("C16", "iteration-count", f"chain {c} performs {len(seq)} transitions ({len(seq) // 2} iterations) for {n_warm} warm-up + {n_main} main iterations requested, or starts a stage from a state other than the previous stage's final state ({where})"))
    # ---- C16: adaptation confined to warm-up, stages initialise / finalise consistently
    v += judge_adaptation(params, out)
    v += judge_storage(params, out, "C13")
    if any(p_ == "C16" and k_ == "iteration-count" for p_, k_, _ in v):
        # the stages do not partition the requested iterations: which row should hold what is no longer defined
        v = [x for x in v if x[0] != "C13"]
    return v


def judge_storage(params, out, prop):
    v = []
    where = describe(params)
    if any(e[0] == "file-reused" for e in out["events"]):
        e = next(e for e in out["events"] if e[0] == "file-reused")
        v.append(("C13", "memmap-file-shared", f"two output arrays are backed by the same file `{e[1]}`: one overwrites the other ({where})"))
    dirty = {m.dict.get("filename") for m in out.get("memmaps", []) if m.dict.get("state", {}).get("dirty") and m.dict.get("filename") is not None}
    if dirty:
        v.append(("C15", "memmap-not-flushed", f"{len(dirty)} memory-mapped output array(s) hold writes that were never flushed to disk when sample_chains returns ({where})"))
    lost = [m for m in out.get("memmaps", []) if m.dict.get("filename") is None and m.dict.get("state", {}).get("dirty")]
    if lost:
        v.append((prop, "writes-to-process-local-copy", f"a worker process writes its output into a pickled in-memory copy of an array: the parent's array is never filled ({where})"))
    return v


def judge_adaptation(params, out):
    v = []
    where = describe(params)
    n_chain, n_warm = params["n_chain"], params["n_warm"]
    events = out["events"]
    ad_events = [e for e in events if e[0] in ("initialize", "update", "finalize")]
    if params["adapters"] is None or n_warm == 0:
        if ad_events:
            v.append(("C16", "adaptation-without-warm-up", f"adapters are {ad_events[0][0]}d although {'no adapters were given' if params['adapters'] is None else 'there are no warm-up iterations'} ({where})"))
        return v
    # stage structure per adapter: initialize (each chain) ... updates ... finalize
    names = ["fast"] + (["slow"] if params["adapters"] in ("fast+slow", "two-keys") else [])
    for name in names:
        open_states = {}
        n_updates = {c: 0 for c in range(n_chain)}
        total_updates = {c: 0 for c in range(n_chain)}
        for e in events:
            if e[0] == "initialize" and e[1] == name:
                if e[2] in open_states:
                    v.append(("C16", "initialize-twice", f"adapter `{name}` is initialised twice for chain {e[2]} without being finalised in between ({where})"))
                open_states[e[2]] = e[3]
                n_updates[e[2]] = 0
            elif e[0] == "update" and e[1] == name:
                c = e[2]
                if c not in open_states:
                    v.append(("C16", "update-outside-stage", f"adapter `{name}` is updated for chain {c} outside an initialise ... finalise bracket ({where})"))
                n_updates[c] += 1
                total_updates[c] += 1
                if _n_iter_of(e[3]) >= n_warm:
                    v.append(("C16", "update-in-main-stage", f"adapter `{name}` is updated in iteration {_n_iter_of(e[3]) + 1} of chain {c}, after the {n_warm} warm-up iterations ({where})"))
            elif e[0] == "finalize" and e[1] == name:
                chains = [a[0] for a in e[2]]
                if sorted(chains) != list(range(n_chain)):
                    v.append(("C16", "finalize-chains", f"adapter `{name}` is finalised with the adaptation states of chains {chains} instead of those of every chain ({where})"))
                elif chains != list(range(n_chain)):
                    v.append(("C14", "finalize-order", f"adapter `{name}` is finalised with the adaptation states in the order {chains} in which the worker processes returned them, paired with the per-chain generators in chain order ({where})"))
                counts = {a[0]: a[1] for a in e[2]}
                if any(counts.get(c) != n_updates.get(c) for c in counts):
                    v.append(("C16", "finalize-states", f"adapter `{name}` is finalised with adaptation states that saw {counts} updates; the stage performed {n_updates} ({where})"))
                last = {}
                for e2 in events[: events.index(e)]:
                    if e2[0] == "sample":
                        last[e2[2]] = f"{e2[3]}>{e2[1]}"
                want_states = [last.get(c, f"c{c}") for c in chains]
                if list(e[3]) != want_states:
                    v.append(("C16", "finalize-chain-states", f"adapter `{name}` is finalised with the chain states {list(e[3])}; the states at the end of the stage are {want_states} (momenta are re-drawn for, and metrics estimated at, the wrong states) ({where})"))
                if len(e) > 6:
                    owner = "t2" if (params["adapters"] == "two-keys" and name == "slow") else "t1"
                    if e[5] != f"transition[{owner}]":
                        v.append(("C16", "finalize-transition", f"adapter `{name}` (registered for transition {owner}) is finalised with `{e[5]}`: the adapted parameters are written to another transition ({where})"))
                    if e[6] != [name]:
                        v.append(("C16", "finalize-adapter-states", f"adapter `{name}` is finalised with the adaptation states of adapter(s) {e[6]} ({where})"))
                if sum(n_updates.values()) == 0:
                    v.append(("C16", "finalize-empty-stage", f"adapter `{name}` is finalised after a stage in which it was never updated: initial defaults overwrite the adapted parameters ({where})"))
                if len(e[4]) != n_chain or any(r is not out["rngs"][c] for c, r in enumerate(e[4])):
                    v.append(("C14", "finalize-generators", f"adapter `{name}` is finalised with generators other than the per-chain generators in chain order ({where})"))
                open_states = {}
        if open_states:
            v.append(("C16", "not-finalized", f"adapter `{name}` is initialised for chains {sorted(open_states)} but the stage is never finalised: its adaptation is lost ({where})"))
        if name == "fast":
            for c in range(n_chain):
                if total_updates[c] != n_warm:
                    v.append(("C16", "fast-adapter-coverage", f"the fast adapter is updated {total_updates[c]} times for chain {c}; fast adapters are active in all {n_warm} warm-up iterations ({where})"))
        else:
            if len(set(total_updates.values())) > 1:
                v.append(("C16", "slow-adapter-uneven", f"the slow adapter sees different numbers of updates per chain: {total_updates} ({where})"))
            if n_warm >= 4 and any(t == 0 for t in total_updates.values()):
                v.append(("C16", "slow-adapter-never-active", f"the slow adapter is never updated although {n_warm} warm-up iterations leave room for a slow window ({where})"))
            if params.get("stager") in (None, "windowed", "windowed-1.5", "windowed-1") and any(t >= n_warm for t in total_updates.values()) and n_warm >= 10:
                v.append(("C16", "slow-adapter-in-fast-stages", f"the slow adapter is updated in all {n_warm} warm-up iterations: it is active outside the slow windows ({where})"))
            if any(t > n_warm for t in total_updates.values()):
                v.append(("C16", "slow-adapter-coverage", f"the slow adapter is updated {total_updates} times for {n_warm} warm-up iterations ({where})"))
    # nothing adaptive after the first main-stage transition
    first_main = next((i for i, e in enumerate(events) if e[0] == "sample" and e[3].count(">t2") >= n_warm), None)
    if first_main is not None:
        late = [e for e in events[first_main:] if e[0] in ("initialize", "update", "finalize")]
        if late and not (params["n_chain"] > 1 and False):
            # with several chains run one after the other the main stage of chain 0 precedes nothing adaptive either:
            # stages are run for all chains before the next stage starts
            v.append(("C16", "adaptation-after-main-started", f"`{late[0][0]}` of adapter `{late[0][1]}` happens after the main stage has started ({where})"))
    return v


def judge_interrupted(params, full, out):
    """Run with a keyboard interrupt injected at one harness call, against the uninterrupted run."""
    v = []
    where = describe(params) + f", interrupt at model call {params['inject_at']}"
    n_chain, n_warm = params["n_chain"], params["n_warm"]
    if out["raised"]:
        return [("C15", f"interrupt-escapes:{out['raised']}", f"sample_chains raises {out['raised']} instead of returning the partial results ({where})")]
    res = unpack(out["result"])
    if res is None:
        return [("C15", "result-shape", f"after an interrupt sample_chains does not return (final_states, traces, statistics) ({where})")]
    finals, traces, stats = res
    events = out["events"]
    k = next((i for i, e in enumerate(events) if e[0] == "interrupt"), None)
    if k is None:
        return []
    after = [e for e in events[k + 1 :]]
    if params.get("n_process", 1) > 1:
        # the other worker processes are interrupted at the same moment in reality; in the sequentialised model their
        # chains run to the end of the stage.  A new dispatch is a later stage.
        cut = next((i for i, e in enumerate(after) if e[0] == "dispatch"), None)
        if cut is not None:
            v.append(("C15", "continues-after-interrupt", f"after the interrupt a further sampling stage is dispatched to the worker processes ({where})"))
        after = [e for e in after if e[0] in ("finalize", "initialize") or (e[0] == "sample" and e[2] == _chain_of(events[k][1]))]
    if any(e[0] in ("sample", "trace") for e in after):
        e = next(e for e in after if e[0] in ("sample", "trace"))
        v.append(("C15", "continues-after-interrupt", f"after the interrupt the run goes on: `{e[0]}` for chain {e[2] if e[0] == 'sample' else '?'} ({where})"))
    if any(e[0] in ("finalize", "initialize", "update") and (params.get("n_process", 1) == 1 or e[0] == "finalize") for e in after):
        e = next(e for e in after if e[0] in ("finalize", "initialize", "update") and (params.get("n_process", 1) == 1 or e[0] == "finalize"))
        v.append(("C15", f"{e[0]}-after-interrupt", f"after the interrupt adapter `{e[1]}` is {e[0]}d - from adaptation states of an incomplete stage ({where})"))
    # completed iterations per chain before the interrupt
    what = events[k][1]
    hit = _chain_of(what)
    stage_end = next((i for i in range(k + 1, len(events)) if events[i][0] == "dispatch"), len(events))
    done, before_of = {}, {}
    for c in range(n_chain):
        # in a multi-process run the other workers' chains complete the stage (sequentialised model)
        upto = stage_end if (params.get("n_process", 1) > 1 and c != hit) else k
        before_of[c] = events[:upto]
        done[c] = len([e for e in before_of[c] if e[0] == "sample" and e[2] == c and e[1] == "t2"])
    rec_all = params["trace_warm_up"]
    g0 = 0 if rec_all else n_warm
    ffin, ftr, fst = unpack(full["result"])

    def rows_of(container, path):
        try:
            for p in path:
                container = container[p]
            return container
        except (KeyError, TypeError, IndexError):
            return None

    arrays = [("trace", ("x",), "fill:0" if params["traced"] == "two" else "fill:nan")] + [("stats", (tk, sk), "fill:-1" if sk == "n" else "fill:nan") for tk, sk in declared_stats(params)]
    for kind, path, want_fill in arrays:
        if kind == "trace" and not params["traced"]:
            continue
        got, ref = rows_of(traces if kind == "trace" else stats, path), rows_of(ftr if kind == "trace" else fst, path)
        if got is None or ref is None or len(got) != len(ref):
            v.append(("C15", f"{kind}-shape", f"after an interrupt the {kind} arrays do not have the shape of a complete run ({where})"))
            continue
        for c, (row, frow) in enumerate(zip(got, ref)):
            row, frow = _rows(row), _rows(frow)
            if not isinstance(row, list) or not isinstance(frow, list):
                continue
            if len(row) != len(frow):
                v.append(("C15", f"{kind}-length", f"after an interrupt chain {c}'s {kind} array has {len(row)} rows instead of {len(frow)} ({where})"))
                continue
            for r, (tok, ftok) in enumerate(zip(row, frow)):
                g = g0 + r
                if _is_fill(tok):
                    if _name(tok) != want_fill:
                        if _name(tok) != "fill:file-zero" and (params.get("force_memmap") or params.get("n_process", 1) > 1):
                            v.append(("C15", f"{kind}-fill-kind", f"unwritten rows of chain {c}'s memory-mapped {kind} array hold `{_name(tok)}`; rows not reached must keep the declared fill value `{want_fill}` ({where})"))
                        v.append(("C15" if _name(tok) == "fill:file-zero" else "C13", f"{kind}-fill-kind", f"unwritten rows of chain {c}'s {kind} array hold `{_name(tok)}`; the fill value for the recorded type is `{want_fill}` ({where})"))
                        break
                    # an iteration counts as completed for the trace once its transitions are done; for a trace row the
                    # interrupted call may be the trace function of that very iteration
                    completed = done.get(c, 0) - (1 if (kind == "trace" and what[0] == "trace" and c == _chain_of(what) and g == done.get(c, 0) - 1) else 0)
                    if g < completed:
                        v.append(("C15", f"{kind}-prefix-lost", f"iteration {g + 1} of chain {c} was completed before the interrupt but row {r} of its {kind} array still holds the fill value ({where})"))
                        break
                elif _name(tok) != _name(ftok):
                    v.append(("C15", f"{kind}-row-differs", f"row {r} of chain {c}'s {kind} array holds `{_name(tok)}`; the uninterrupted run records `{_name(ftok)}` ({where})"))
                    break
                elif g > done.get(c, 0):
                    v.append(("C15", f"{kind}-row-beyond", f"row {r} of chain {c}'s {kind} array is written although the chain was interrupted in iteration {done.get(c, 0) + 1} ({where})"))
                    break
    v += [x for x in judge_storage(params, out, "C15") if x[0] == "C15"]
    if any(e[0] == "deadlock" for e in events):
        v.append(("C15", "hangs", f"after the interrupt the parent process waits for a queue item that never arrives: sample_chains hangs ({where})"))
    # final states: states the chains actually reached, in chain order
    reached = {}
    for c in range(n_chain):
        reached[c] = [f"c{c}"] + [f"{e[3]}>{e[1]}" for e in before_of[c] if e[0] == "sample" and e[2] == c]
    if not isinstance(finals, list):
        v.append(("C15", "final-states", f"after an interrupt the final states are not a list ({where})"))
    else:
        prev = -1
        for i, s in enumerate(finals):
            lab = s.dict.get("label") if isinstance(s, Instance) else None
            ch = s.dict.get("chain") if isinstance(s, Instance) else None
            # chains that never started may be absent; what is returned is, in chain order, the last state each chain reached
            if lab is None or ch is None or ch <= prev or lab != reached.get(ch, [None])[-1]:
                v.append(("C15", "final-state-invalid", f"returned final state {i} is `{lab}`; the last state chain {ch} reached before the interrupt is `{reached.get(ch, ['?'])[-1]}` (final states must be, in chain order, the last state each returned chain reached) ({where})"))
                break
            prev = ch
        present = {s.dict.get("chain") for s in finals if isinstance(s, Instance)}
        # chains that ran in the interrupted stage: the interrupted one; in a multi-process run those the workers picked
        # up in this dispatch; in a sequential run those before it in chain order
        stage_start = max((i for i in range(k) if events[i][0] == "dispatch"), default=None)
        started = {hit} if hit is not None else set()
        if params.get("n_process", 1) > 1 and stage_start is not None:
            started |= {e[2] for e in events[stage_start:stage_end] if e[0] == "sample"}
        elif hit is not None:
            started |= set(range(hit))
        if started - present:
            v.append(("C15", "final-state-missing", f"chain(s) {sorted(started - present)} ran (at least partly) before the interrupt but no final state is returned for them: their position in the returned list is taken by another chain ({where})"))
    return v


def _chain_of(what):
    """Chain index of the harness call `what` = ("sample", key, label) | ("trace", label) | ("update", name)."""
    lab = what[1] if what[0] == "trace" else (what[2] if len(what) > 2 else None)
    try:
        return int(str(lab).split(">")[0][1:])
    except (ValueError, TypeError, IndexError):
        return None


SCENARIOS_QUICK = [
    dict(n_chain=nc, n_warm=nw, n_main=nm, trace_warm_up=tw, adapters=ad, traced=tr, stager=None)
    for nc in (1, 2)
    for (nw, nm) in ((0, 0), (0, 2), (2, 0), (1, 1), (3, 2))
    for tw in (False, True)
    for ad in (None, "fast", "fast+slow")
    for tr in (False, True)
] + [
    dict(n_chain=2, n_warm=nw, n_main=1, trace_warm_up=tw, adapters="fast+slow", traced=True, stager=sg)
    for nw in (1, 4, 7, 12)
    for tw in (False, True)
    for sg in ("windowed", "warmup")
] + [
    dict(n_chain=2, n_warm=nw, n_main=1, trace_warm_up=True, adapters=ad, traced="two", stager=sg)
    for nw in (3, 9, 13)
    for ad in ("two-keys", "empty-list")
    for sg in (None, "windowed", "windowed-1.5", "windowed-1", "windowed-0", "warmup")
] + [
    dict(n_chain=1, n_warm=nw, n_main=1, trace_warm_up=False, adapters="fast+slow", traced=False, stager=sg)
    for nw in (22, 30, 41)
    for sg in ("windowed", "windowed-1.5", "windowed-1")
] + [
    dict(n_chain=2, n_warm=2, n_main=2, trace_warm_up=True, adapters="fast", traced=True, stager=None, monitor=True),
    dict(n_chain=2, n_warm=2, n_main=2, trace_warm_up=False, adapters="fast", traced=True, stager=None, display_progress=True),
]

SCENARIOS_QUICK += [
    dict(n_chain=2, n_warm=nw, n_main=2, trace_warm_up=True, adapters="fast", traced=True, stager=None, init_as="dict", n_process=npr, assignment={0: 1, 1: 0} if npr > 1 else None)
    for nw in (0, 2)
    for npr in (1, 2)
] + [
    dict(n_chain=nc, n_warm=1, n_main=1, trace_warm_up=False, adapters=None, traced=False, stager=None, rng_kind=rk)
    for nc in (1, 2, 3)
    for rk in ("spawn", "legacy-attr")
] + [
    dict(n_chain=2, n_warm=1, n_main=2, trace_warm_up=True, adapters=None, traced=True, stager=None, force_memmap=fm, stats2=True)
    for fm in (False, True)
] + [
    dict(n_chain=2, n_warm=2, n_main=2, trace_warm_up=tw, adapters="fast", traced=True, stager=None, force_memmap=True)
    for tw in (False, True)
] + [
    dict(n_chain=nc, n_warm=nw, n_main=2, trace_warm_up=tw, adapters=ad, traced=True, stager=None, n_process=2, assignment=asg, worker_order=wo)
    for nc, asg, wo in ((3, {0: 0, 1: 1, 2: 0}, [1, 0]), (2, {0: 1, 1: 0}, [0, 1]), (1, {0: 0}, [0, 1]), (3, {0: 1, 1: 1, 2: 0}, [0, 1]))
    for nw in (0, 2)
    for tw in (False, True)
    for ad in (None, "fast")
]

INTERRUPT_SCENARIOS = [
    dict(n_chain=3, n_warm=2, n_main=2, trace_warm_up=True, adapters="fast", traced=True, stager=None, n_process=2, assignment={0: 0, 1: 1, 2: 0}, worker_order=[0, 1]),
    dict(n_chain=2, n_warm=1, n_main=2, trace_warm_up=False, adapters=None, traced=True, stager=None, force_memmap=True),
    dict(n_chain=3, n_warm=0, n_main=2, trace_warm_up=False, adapters=None, traced=True, stager=None, n_process=2, assignment={0: 0, 1: 0, 2: 1}, worker_order=[1, 0]),
    dict(n_chain=1, n_warm=1, n_main=2, trace_warm_up=False, adapters=None, traced="two", stager=None),
    dict(n_chain=2, n_warm=2, n_main=2, trace_warm_up=False, adapters="fast", traced=True, stager=None),
    dict(n_chain=2, n_warm=2, n_main=1, trace_warm_up=True, adapters="fast+slow", traced=True, stager=None),
    dict(n_chain=1, n_warm=0, n_main=3, trace_warm_up=False, adapters=None, traced=True, stager=None),
    dict(n_chain=2, n_warm=5, n_main=1, trace_warm_up=True, adapters="fast+slow", traced=False, stager="windowed"),
]


def run_all(program: Program, tier: str = "quick"):
    """-> {"complete": n, "interrupted": n, "verdicts": [(prop, key, msg)]}; raises Unsupported outside the subset"""
    h = Harness(program)
    verdicts = {}
    n_complete = n_int = 0
    scen = list(SCENARIOS_QUICK)
    if tier == "thorough":
        scen += [
            dict(n_chain=nc, n_warm=nw, n_main=nm, trace_warm_up=tw, adapters=ad, traced=True, stager=sg)
            for nc in (1, 3)
            for (nw, nm) in ((5, 3), (9, 0), (20, 2))
            for tw in (False, True)
            for ad in ("fast", "fast+slow")
            for sg in (None, "windowed", "warmup")
        ]
    for params in scen:
        out = h.run(**params)
        if out.get("skipped"):
            continue
        n_complete += 1
        for prop, key, msg in judge_complete(params, out):
            verdicts.setdefault((prop, key), msg)
    for params in INTERRUPT_SCENARIOS:
        full = h.run(**params)
        if full.get("skipped") or full["raised"] or unpack(full["result"]) is None:
            continue
        broken = judge_complete(params, full)
        if broken:
            # the uninterrupted run already departs from the documented semantics (reported under its own property):
            # "as in the uninterrupted run" has no reference
            for prop, key, msg in broken:
                verdicts.setdefault((prop, key), msg)
            continue
        # calls made while the output arrays are set up (the trace functions are evaluated once on the first initial
        # state to size the arrays) are not inside an iteration: an interrupt there has nothing to return
        first = next((i for i, w in enumerate(full["tick_log"]) if w[0] == "sample"), len(full["tick_log"]))
        for kk in range(first + 1, full["n_events"] + 1):
            p2 = dict(params, inject_at=kk)
            out = h.run(**p2)
            n_int += 1
            for prop, key, msg in judge_interrupted(p2, full, out):
                verdicts.setdefault((prop, key), msg)
    if ("C16", "iteration-count") in verdicts:
        # more iterations than the arrays were sized for overflow them: the crash is the partition defect's symptom
        verdicts.pop(("C13", "run-raises:IndexError"), None)
    return {"complete": n_complete, "interrupted": n_int, "verdicts": [(p, k, _short(m)) for (p, k), m in verdicts.items()]}


TITLES = {
    "C13": "abstract runs of sample_chains (token domain): every output row holds the traced value / statistic of the state after that recorded iteration, final states are the states after the last iteration, for every combination of chain / iteration counts, trace-warm-up, adapters, stagers, storage and process scheduling explored",
    "C14": "abstract runs of sample_chains: each chain is driven by one generator derived from its index, the same one in every stage, and its stream is continued exactly across stage and process boundaries whatever the assignment of chains to workers",
    "C15": "abstract runs of sample_chains with a keyboard interrupt injected at every model call (transition, trace function, adapter update, parent wait): the call returns, completed iterations are recorded as in the uninterrupted run, later rows keep their fill value, nothing runs afterwards, final states are states the chains reached",
    "C16": "abstract runs of sample_chains + stagers: every chain performs exactly the requested iterations, adapters are initialised / updated / finalised in matching brackets inside the warm-up only, fast adapters in every warm-up iteration, nothing adaptive once the main stage has started",
}


def rule(rep, program: Program, tier: str, prop: str, rule_id: str):
    r = rep.rule(rule_id, TITLES[prop], floor=2)
    cache = getattr(program, "_samplersim_cache", None)
    if cache is None:
        try:
            cache = run_all(program, tier)
        except Unsupported as exc:
            cache = exc
        program._samplersim_cache = cache
    if isinstance(cache, Exception):
        r.inst({"abstract runs": f"not available - mici/samplers.py or mici/stagers.py is outside the abstract executor's subset ({cache}); the structural rules decide alone"}, exercised=False)
        r.inst({"fallback": "structural rules"}, exercised=False)
        r.notes.append(f"abstract runs unavailable: {cache}")
        return r
    sm = _mod(program, "samplers")
    r.inst({"uninterrupted runs": cache["complete"], "scenario space": "chains 1-3, warm-up 0-41, main 0-3, trace_warm_up, adapters none / fast / fast+slow / two keys / empty list, stagers default / warm-up / windowed (multiplier 2, 1.5, 1, zero windows), one or two trace functions, statistics on one or both transitions, in-memory / memory-mapped, one process / two worker processes with out-of-order chain assignment"})
    r.inst({"runs with an injected keyboard interrupt": cache["interrupted"], "injection points": "every call of a transition, trace function or adapter update and every wait of the parent process, in sequential, memory-mapped and two-process scenarios"})
    for p_, key, msg in cache["verdicts"]:
        if p_ == prop:
            r.violate(prop, f"sample_chains:{key}", msg, node=None, file=str(sm.path))
    return r


def available(program: Program, tier: str) -> bool:
    """True when the abstract runs of the sampling driver could be carried out for this tree."""
    cache = getattr(program, "_samplersim_cache", None)
    if cache is None:
        try:
            cache = run_all(program, tier)
        except Unsupported as exc:
            cache = exc
        program._samplersim_cache = cache
    return not isinstance(cache, Exception)


def superseded(rep, program: Program, tier: str, ids, by: str, fn, *args, **kwargs):
    """A structural rule about the internals of samplers.py / stagers.py whose claim the abstract runs decide: it
    runs only as the fallback when the abstract runs are unavailable (code outside the executor's subset)."""
    if available(program, tier):
        for rid, title in ids:
            r = rep.rule(rid, f"{title} [decided by the abstract runs of sample_chains ({by}); the structural analysis is the fallback]", floor=1)
            r.inst({"decided by": f"abstract runs ({by})"})
        return None
    return rep.isolate(fn, *args, **kwargs)


def with_fallback(rep, program: Program, tier: str, by: str, fn, *args, **kwargs):
    """A structural rule that is stronger than the abstract runs where it applies (symbolic in the iteration counts):
    it always runs; when it cannot recognise the code's spelling (analysis error, anchors missing) and the abstract
    runs are available, the bounded abstract runs decide and the rule records that it did not apply."""
    n_rules, n_err = len(rep.rules), len(rep.errors)
    from ..report import AnalysisError

    try:
        out = fn(*args, **kwargs)
        failed = None
    except AnalysisError as e:
        out, failed = None, str(e)
    new_rules = rep.rules[n_rules:]
    below = [r for r in new_rules if (len(r.units) if r.units is not None else r.instances) < r.floor and not r.findings]
    if failed is None and not below:
        return out
    if not available(program, tier):
        if failed is not None and failed not in rep.errors:
            rep.errors.append(failed)
        return out
    for r in new_rules:
        if r in below or failed is not None:
            r.floor = 0
            r.notes.append(f"the structural analysis does not recognise this spelling ({failed or 'anchors not found'}); decided by the bounded abstract runs ({by}) instead")
            if not r.findings:
                r.inst({"decided by": f"abstract runs ({by})"}, exercised=False)
    if failed is not None and not new_rules:
        r = rep.rule("R?", f"structural rule not applicable to this spelling ({failed}); decided by the abstract runs ({by})", floor=0)
        r.inst({"decided by": f"abstract runs ({by})"}, exercised=False)
    del rep.errors[n_err:]
    return out
