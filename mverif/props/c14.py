"""C14 - sampling is reproducible and independent of process scheduling.

 R1 per-chain generators are derived from the base generator by an argument that depends
    injectively on the chain index (jumped(a*i+b), a != 0 / spawn(n_chain))
 R2 no ambient randomness: no legacy global numpy.random.*, stdlib random.*, unseeded
    default_rng(), or wall-clock values in src/mici (the two interop entry points take an
    explicit seed)
 R3 worker outputs are re-ordered by chain index before collation; the index travels with
    the chain's arguments and results
 R4 generator objects carried across stages and advanced in worker copies get their complete
    bit-generator state written back to the parent's objects (whole state dict, unmodified)
"""

from __future__ import annotations

import ast

from ..model import Program, call_name, is_self_attr, norm, walk_no_nested, execution_condition
from ..poly import Rat, eval_expr
from ..report import AnalysisError

PROP = "C14"

LEGACY = {"seed", "rand", "randn", "random", "random_sample", "randint", "normal", "uniform", "standard_normal", "choice", "shuffle", "permutation", "exponential", "gamma", "beta", "binomial", "poisson", "get_state", "set_state", "sample", "ranf", "bytes", "multivariate_normal", "integers"}


def rule_r1(rep, program: Program, derivation: bool = True):
    if not derivation:
        # the derivation inside _get_per_chain_rngs and its use in sample_chains are decided by the abstract runs (R6);
        # what remains structural is the class-level part: draws from the base generator and repeated derivations in the
        # sampler classes
        r = rep.rule("R1", "per-chain generators: nothing draws from the base generator once per chain before the derivation, and the streams are derived once per run [the derivation itself is decided by the abstract runs (R6)]", floor=1)
        r.inst({"derivation": "decided by abstract runs (R6)"})
        _r1_class_level(r, program)
        return r
    r = rep.rule("R1", "per-chain generators: jump/spawn argument depends injectively on the chain index", floor=2)
    f = program.func("samplers", "_get_per_chain_rngs")
    comps = [n for n in ast.walk(f.node) if isinstance(n, ast.ListComp)]
    if not comps:
        raise AnalysisError("_get_per_chain_rngs: no list comprehension found")
    for c in comps:
        g = c.generators[0]
        var = norm(g.target)
        jumps = [x for x in ast.walk(c.elt) if isinstance(x, ast.Call) and isinstance(x.func, ast.Attribute) and x.func.attr == "jumped"]
        if jumps:
            if not (isinstance(g.iter, ast.Call) and norm(g.iter.func) == "range" and norm(g.iter.args[-1 if len(g.iter.args) == 1 else 1]) == f.params[1]):
                r.violate(PROP, f"_get_per_chain_rngs:iter:{norm(g.iter)}", "the comprehension does not produce one generator per chain", node=c, file=f.file)
            arg = eval_expr(jumps[0].args[0], {}) if jumps[0].args else Rat.const(1)
            try:
                a = arg.coeff_of(var)
            except AnalysisError:
                a = None
            r.inst({"derivation": norm(c.elt), "jump argument": repr(arg)})
            if a is not None and (arg.symbols() - {var}):
                r.violate(PROP, f"_get_per_chain_rngs:jump-depends-on:{sorted(arg.symbols() - {var})}", f"the jump count `{norm(jumps[0].args[0])}` depends on {sorted(arg.symbols() - {var})}: the stream of a chain then depends on how many other chains are run", node=jumps[0], file=f.file)
            if a is None or a.is_zero():
                r.violate(PROP, f"_get_per_chain_rngs:jumped({norm(jumps[0].args[0]) if jumps[0].args else ''})", f"the jump count `{norm(jumps[0].args[0]) if jumps[0].args else '1'}` does not depend (linearly, injectively) on the chain index `{var}`: several chains share one random stream", node=jumps[0], file=f.file)
            # the object jumped must be the base bit generator (not an already derived one)
            continue
        spawns = [x for x in ast.walk(g.iter) if isinstance(x, ast.Call) and isinstance(x.func, ast.Attribute) and x.func.attr == "spawn"]
        if spawns:
            r.inst({"derivation": norm(c.elt), "spawn": norm(spawns[0])})
            if not (spawns[0].args and norm(spawns[0].args[0]) == f.params[1]):
                r.violate(PROP, f"_get_per_chain_rngs:spawn({norm(spawns[0].args[0]) if spawns[0].args else ''})", "spawn does not create one child seed per chain", node=spawns[0], file=f.file)
            if var not in {x.id for x in ast.walk(c.elt) if isinstance(x, ast.Name)}:
                r.violate(PROP, "_get_per_chain_rngs:spawn-unused", "the spawned child seed is not used to build the chain's generator", node=c, file=f.file)
            continue
        r.violate(PROP, f"_get_per_chain_rngs:{norm(c.elt)[:40]}", "per-chain generators are not derived by jumping or spawning", node=c, file=f.file)
    # chain-count independence inside the derivation: the chain count may bound the number of generators made
    # (range / spawn argument) but must not select *how* a chain's generator is derived - no test reads it, and
    # every return is one of the comprehensions checked above
    ncp = f.params[1]
    for n in ast.walk(f.node):
        tests = []
        if isinstance(n, (ast.If, ast.While, ast.IfExp)):
            tests.append(n.test)
        if isinstance(n, ast.comprehension):
            tests += n.ifs
        for t in tests:
            if any(isinstance(x, ast.Name) and x.id == ncp for x in ast.walk(t)):
                r.violate(PROP, f"_get_per_chain_rngs:branch-on-chain-count:{norm(t)[:40]}", f"the derivation branches on the number of chains (`{norm(t)}`): the generator of chain 0 then depends on how many chains are run (e.g. the base stream for one chain, a spawned / jumped child otherwise)", node=t, file=f.file)
    for n in ast.walk(f.node):
        if isinstance(n, ast.Return) and n.value is not None and not isinstance(n.value, ast.ListComp) and not (isinstance(n.value, ast.Name)):
            r.violate(PROP, f"_get_per_chain_rngs:return:{norm(n.value)[:40]}", f"_get_per_chain_rngs returns `{norm(n.value)[:60]}`, which is not one of the per-chain derivations (a list built by jumping / spawning per chain index)", node=n, file=f.file)
    r.inst({"derivation reads the chain count only as a bound": True})
    # the result is used: sample_chains builds per_chain_rngs from self.rng
    sc = program.method("MarkovChainMonteCarloMethod", "sample_chains")
    uses = [n for n in ast.walk(sc.node) if isinstance(n, ast.Assign) and isinstance(n.value, ast.Call) and norm(n.value.func) == "_get_per_chain_rngs"]
    ok = uses and [norm(a) for a in uses[0].value.args] == ["self.rng", "n_chain"]
    r.inst({"sample_chains derivation": norm(uses[0]) if uses else None})
    if not ok:
        r.violate(PROP, "sample_chains:per_chain_rngs", "per-chain generators are not derived from the sampler's generator and the chain count", node=sc.node, file=sc.file)
    else:
        name = norm(uses[0].targets[0])
        kws = [k for n in ast.walk(sc.node) if isinstance(n, ast.Call) and norm(n.func) == "_zip_dict" for k in n.keywords if k.arg == "rng"]
        if not kws or norm(kws[0].value) != name:
            r.violate(PROP, f"sample_chains:rng={norm(kws[0].value) if kws else None}", "chains are not driven by their own derived generator", node=sc.node, file=sc.file)
        # derived once, outside the stage loop
        loops = [n for n in ast.walk(sc.node) if isinstance(n, ast.For) and any(x is uses[0] for x in ast.walk(n))]
        if loops:
            r.violate(PROP, "sample_chains:per_chain_rngs-in-loop", "per-chain generators are re-derived inside a loop: the same streams are replayed", node=uses[0], file=sc.file)
    _r1_class_level(r, program)
    return r


def _r1_class_level(r, program: Program):
    # chain-count independence of the base generator: `jumped(i)` is relative to the base
    # generator's *current* state, so nothing may draw from it a chain-count dependent number of
    # times before the derivation (the derivation itself is the last statement group of R1 above)
    base = program.cls("MarkovChainMonteCarloMethod")
    samplers = [k for k in program.classes.values() if base in k.mro]
    n_uses = 0
    for k in samplers:
        for mname, m in k.methods.items():
            if mname in ("__init__", "rng") or m.is_setter:
                continue
            for n in ast.walk(m.node):
                if not isinstance(n, ast.Call):
                    continue
                args = list(n.args) + [kw.value for kw in n.keywords]
                direct = isinstance(n.func, ast.Attribute) and norm(n.func.value) == "self.rng"
                if not direct and not any(norm(a) == "self.rng" for a in args):
                    continue
                if norm(n.func) == "_get_per_chain_rngs":
                    continue
                n_uses += 1
                # is this method invoked once per chain from a sample_chains method?
                per_chain_sites = []
                for k2 in samplers:
                    sc2 = k2.methods.get("sample_chains")
                    if sc2 is None:
                        continue
                    for c in ast.walk(sc2.node):
                        if isinstance(c, (ast.ListComp, ast.GeneratorExp, ast.For)):
                            body = [c.elt] if not isinstance(c, ast.For) else c.body
                            it = c.generators[0].iter if not isinstance(c, ast.For) else c.iter
                            if "init_states" not in norm(it) and "n_chain" not in norm(it):
                                continue
                            for b in body:
                                for x in ast.walk(b):
                                    if isinstance(x, ast.Call) and norm(x.func) == f"self.{mname}":
                                        per_chain_sites.append((sc2, x))
                    if mname == "sample_chains" and m is sc2:
                        # the draw itself sits in sample_chains: per chain iff inside a chain loop
                        for c in ast.walk(sc2.node):
                            if isinstance(c, (ast.ListComp, ast.GeneratorExp, ast.For)) and any(x is n for x in ast.walk(c)):
                                it = c.generators[0].iter if not isinstance(c, ast.For) else c.iter
                                if "init_states" in norm(it) or "n_chain" in norm(it):
                                    per_chain_sites.append((sc2, n))
                r.inst({"base generator use": f"{m.qualname}: {norm(n)[:60]}", "once per chain": bool(per_chain_sites)})
                if per_chain_sites:
                    sc2, site = per_chain_sites[0]
                    r.violate(PROP, f"{m.qualname}:base-rng-draw-per-chain", f"{m.qualname} draws from the sampler's base generator (`{norm(n)[:60]}`) and is invoked once per chain in {sc2.qualname} (`{norm(site)[:50]}`) before the per-chain streams are derived from that generator's current state (`jumped(i)` is state-relative): every chain's stream - and so its whole output - depends on how many chains are run", node=n, file=m.file)
    r.inst({"base generator uses outside the derivation": n_uses})
    # the streams are derived once per run: `jumped(i)` / `spawn` of an unadvanced base generator give
    # the same streams again, i.e. a second derivation within one sample_chains call replays them
    for k in samplers:
        if k.resolve("sample_chains") is None:
            continue
        chain, seen_f = [], set()
        f = k.resolve("sample_chains")
        cls = f.cls
        while f is not None and f.qualname not in seen_f:
            seen_f.add(f.qualname)
            chain.append(f)
            nxt = None
            for c in ast.walk(f.node):
                if isinstance(c, ast.Call) and norm(c.func) == "super().sample_chains":
                    nxt = k.resolve_super(cls, "sample_chains")
            if nxt is None:
                break
            f, cls = nxt, nxt.cls
        derivs = []
        for g in chain:
            # helpers called on self from the entry point count too (one level)
            bodies = [g] + [k.resolve(c.func.attr) for c in ast.walk(g.node) if isinstance(c, ast.Call) and isinstance(c.func, ast.Attribute) and isinstance(c.func.value, ast.Name) and c.func.value.id == "self" and k.resolve(c.func.attr) is not None and c.func.attr != "sample_chains"]
            for b in bodies:
                for c in ast.walk(b.node):
                    if isinstance(c, ast.Call) and norm(c.func) == "_get_per_chain_rngs":
                        derivs.append((b, c))
        r.inst({"sampler": k.name, "stream derivations per sample_chains call": [b.qualname for b, _ in derivs]})
        if len(derivs) > 1:
            b, c = derivs[0]
            r.violate(PROP, f"{k.name}.sample_chains:streams-derived-{len(derivs)}-times", f"one {k.name}.sample_chains call derives the per-chain generators {len(derivs)} times ({', '.join(x.qualname for x, _ in derivs)}) from a base generator that is not advanced in between: both derivations yield the same streams, so the numbers drawn from the first set (e.g. the initial momenta) are drawn again by the chains - a stream is replayed within a run", node=c, file=b.file)

def rule_r2(rep, program: Program):
    r = rep.rule("R2", "no ambient randomness or wall-clock dependence in src/mici", floor=15)
    for m in program.modules.values():
        n_calls = 0
        for n in ast.walk(m.tree):
            if not isinstance(n, ast.Call):
                continue
            n_calls += 1
            cn = call_name(n)
            bad = None
            parts = cn.split(".")
            if len(parts) >= 3 and parts[-3] in ("np", "numpy") and parts[-2] == "random" and parts[-1] in LEGACY:
                bad = f"legacy global NumPy generator {cn}()"
            if len(parts) == 2 and parts[0] == "random" and m.imports.get("random") == "random":
                bad = f"stdlib global generator {cn}()"
            if parts[-1] == "default_rng" and not n.args and not n.keywords:
                bad = "default_rng() without a seed (seeded from OS entropy)"
            if cn in ("time.time", "time.time_ns", "time.perf_counter", "os.urandom", "os.getpid") and m.name in ("mici.samplers", "mici.transitions", "mici.systems", "mici.integrators", "mici.adapters", "mici.stagers"):
                bad = f"{cn}() (value depends on wall clock / process)"
            if parts[-1] == "RandomState" and len(parts) >= 2 and not n.args:
                bad = "unseeded RandomState()"
            if bad:
                fn = next((f for f in program.all_functions() if f.module is m and f.node.lineno <= n.lineno <= (f.node.end_lineno or 0)), None)
                r.violate(PROP, f"{fn.qualname if fn else m.name}:{cn}", f"{bad}: results are not a function of the sampler's seed", node=n, file=str(m.path))
        r.inst({"module": m.name, "calls scanned": n_calls}, exercised=n_calls > 0)
    # positive control
    ctrl = ast.parse("import numpy as np\ndef f():\n    return np.random.normal(size=3)\n")
    fired = any(isinstance(n, ast.Call) and call_name(n).split(".")[-1] in LEGACY and "random" in call_name(n) for n in ast.walk(ctrl))
    r.positive_control = fired
    return r


def rule_r3(rep, program: Program, prop=PROP, rule="R3"):
    PROP = prop  # noqa: N806 - shared with C13 (final_states[c] / traces[c] belong to chain c)
    r = rep.rule(rule, "worker outputs are restored to chain-index order before collation; the index travels with arguments and results", floor=3)
    f = program.func("samplers", "_sample_chains_parallel")
    w = program.func("samplers", "_sample_chains_worker")
    # index put with kwargs
    puts = [n for n in ast.walk(f.node) if isinstance(n, ast.Call) and norm(n.func) == "chain_queue.put"]
    if not puts:
        raise AnalysisError("_sample_chains_parallel: chain_queue.put not found")
    tup = puts[0].args[0]
    loops = [n for n in ast.walk(f.node) if isinstance(n, ast.For) and any(x is puts[0] for x in ast.walk(n))]
    idxvar = None
    if loops and isinstance(loops[0].iter, ast.Call) and norm(loops[0].iter.func) == "enumerate" and isinstance(loops[0].target, ast.Tuple):
        idxvar = norm(loops[0].target.elts[0])
    ok = isinstance(tup, ast.Tuple) and idxvar is not None and norm(tup.elts[0]) == idxvar
    r.inst({"queue item": norm(tup), "index variable": idxvar})
    if not ok:
        r.violate(PROP, f"_sample_chains_parallel:queue-item:{norm(tup)[:40]}", "the chain index (enumeration position) is not put on the queue with the chain's arguments", node=puts[0], file=f.file)
    # worker returns (chain_index, ...) with the index it got
    gets = [n for n in ast.walk(w.node) if isinstance(n, ast.Assign) and isinstance(n.value, ast.Call) and norm(n.value.func) == "chain_queue.get"]
    apps = [n for n in ast.walk(w.node) if isinstance(n, ast.Call) and norm(n.func) == "chain_outputs.append"]
    ok = gets and apps and isinstance(gets[0].targets[0], ast.Tuple) and isinstance(apps[0].args[0], ast.Tuple) and norm(apps[0].args[0].elts[0]) == norm(gets[0].targets[0].elts[0])
    r.inst({"worker result": norm(apps[0].args[0]) if apps else None})
    if not ok:
        r.violate(PROP, "_sample_chains_worker:index-not-returned", "the worker does not return the chain index it received together with the chain's outputs", node=w.node, file=w.file)
    # ordering: abstract "order" of every list between results.get() and _collate_chain_outputs
    oa = _OrderFlow(f)
    oa.block(f.node.body)
    coll = [n for n in ast.walk(f.node) if isinstance(n, ast.Call) and norm(n.func) == "_collate_chain_outputs"]
    if not coll or not coll[0].args:
        raise AnalysisError("_sample_chains_parallel: _collate_chain_outputs(...) call not found")
    if not oa.saw_source:
        raise AnalysisError("_sample_chains_parallel: results.get() not found")
    arg = coll[0].args[0]
    got = oa.order(arg)
    r.inst({"collated value": norm(arg), "order": ORDER_NAMES[got], "ordering step": oa.how})
    if got == ARRIVAL:
        r.violate(PROP, "_sample_chains_parallel:outputs-not-ordered", "outputs gathered from the workers are collated in completion order, not chain-index order: final states / adapter states are attributed to the wrong chains depending on scheduling", node=oa.last_def.get(norm(arg), coll[0]), file=f.file)
    elif got == CLEAN:
        raise AnalysisError("_sample_chains_parallel: the collated list does not derive from results.get()")
    return r


CLEAN, INDEX, ARRIVAL = 0, 1, 2
ORDER_NAMES = {CLEAN: "independent of the workers", INDEX: "chain-index order", ARRIVAL: "worker completion order"}


class _OrderFlow:
    """Flow-sensitive (line order, branches joined by max) order typing of the local lists of
    _sample_chains_parallel: ARRIVAL for anything read from results.get(), INDEX after a sort by the
    chain index (first tuple element) or an index-addressed store."""

    def __init__(self, f):
        self.f = f
        self.env: dict[str, int] = {}
        self.loops: list[tuple[int, set]] = []
        self.saw_source = False
        self.how = None
        self.last_def: dict[str, ast.AST] = {}

    def order(self, e) -> int:
        if e is None:
            return CLEAN
        if isinstance(e, ast.Name):
            return self.env.get(e.id, CLEAN)
        if isinstance(e, ast.Call) and norm(e.func) == "results.get":
            self.saw_source = True
            return ARRIVAL
        if isinstance(e, ast.Call) and norm(e.func) in ("len", "sum", "min", "max", "set", "frozenset", "any", "all"):
            for a in e.args:
                self.order(a)  # records the source
            return CLEAN  # order-insensitive aggregates
        if isinstance(e, ast.Call) and norm(e.func) == "sorted" and e.args:
            key = next((k.value for k in e.keywords if k.arg == "key"), None)
            inner = self.order(e.args[0])
            if inner != CLEAN and (key is None or _key_is_index(key)):
                self.how = norm(e)
                return INDEX
            return inner
        if isinstance(e, (ast.ListComp, ast.GeneratorExp, ast.SetComp, ast.DictComp)):
            saved = dict(self.env)
            o = CLEAN
            for g in e.generators:
                go = self.order(g.iter)
                o = max(o, go)
                for n in ast.walk(g.target):
                    if isinstance(n, ast.Name):
                        self.env[n.id] = go
            self.env = saved
            return o
        o = CLEAN
        for c in ast.iter_child_nodes(e):
            if isinstance(c, ast.expr):
                o = max(o, self.order(c))
        return o

    def block(self, stmts):
        for st in stmts:
            self.stmt(st)

    def stmt(self, st):
        if isinstance(st, ast.Assign) and len(st.targets) == 1:
            t = st.targets[0]
            o = self.order(st.value)
            if isinstance(t, ast.Name):
                loop_o = max([lo for lo, _ in self.loops], default=CLEAN)
                self.env[t.id] = o if not self.loops else max(o, CLEAN)
                self.last_def[t.id] = st
                _ = loop_o
            elif isinstance(t, ast.Tuple):
                for n in ast.walk(t):
                    if isinstance(n, ast.Name):
                        self.env[n.id] = o
            elif isinstance(t, ast.Subscript) and isinstance(t.value, ast.Name):
                # index-addressed store: x[i] = ... with i the chain index of the current loop item
                idx_names = set().union(*[ix for _, ix in self.loops]) if self.loops else set()
                if isinstance(t.slice, ast.Name) and t.slice.id in idx_names:
                    self.env[t.value.id] = max(INDEX, self.env.get(t.value.id, CLEAN)) if self.env.get(t.value.id, CLEAN) != ARRIVAL else ARRIVAL
                    self.how = norm(st)
                    self.last_def[t.value.id] = st
                else:
                    self.env[t.value.id] = max(self.env.get(t.value.id, CLEAN), o, max([lo for lo, _ in self.loops], default=CLEAN))
            return
        if isinstance(st, ast.AugAssign) and isinstance(st.target, ast.Name):
            self.env[st.target.id] = max(self.env.get(st.target.id, CLEAN), self.order(st.value), max([lo for lo, _ in self.loops], default=CLEAN))
            self.last_def[st.target.id] = st
            return
        if isinstance(st, ast.Expr) and isinstance(st.value, ast.Call) and isinstance(st.value.func, ast.Attribute) and isinstance(st.value.func.value, ast.Name):
            c = st.value
            name = c.func.value.id
            if c.func.attr == "sort":
                key = next((k.value for k in c.keywords if k.arg == "key"), None)
                if self.env.get(name, CLEAN) != CLEAN and (key is None or _key_is_index(key)):
                    self.env[name] = INDEX
                    self.how = norm(c)
                return
            if c.func.attr in ("append", "extend", "insert"):
                o = max([self.order(a) for a in c.args], default=CLEAN)
                self.env[name] = max(self.env.get(name, CLEAN), o, max([lo for lo, _ in self.loops], default=CLEAN))
                self.last_def[name] = st
                return
            if c.func.attr == "reverse":
                if self.env.get(name, CLEAN) == INDEX:
                    self.env[name] = ARRIVAL
                return
            self.order(c)
            return
        if isinstance(st, ast.For):
            lo = self.order(st.iter)
            names = [n.id for n in ast.walk(st.target) if isinstance(n, ast.Name)]
            for n in names:
                self.env[n] = lo
            first = set()
            if isinstance(st.target, ast.Tuple) and isinstance(st.target.elts[0], ast.Name):
                first = {st.target.elts[0].id}
            self.loops.append((lo, first))
            self.block(st.body)
            self.loops.pop()
            self.block(st.orelse)
            return
        if isinstance(st, ast.If):
            base = dict(self.env)
            self.block(st.body)
            a = self.env
            self.env = dict(base)
            self.block(st.orelse)
            b = self.env
            self.env = {k: max(a.get(k, CLEAN), b.get(k, CLEAN)) for k in set(a) | set(b)}
            return
        if isinstance(st, ast.Try):
            self.block(st.body)
            for h in st.handlers:
                self.block(h.body)
            self.block(st.orelse)
            self.block(st.finalbody)
            return
        if isinstance(st, (ast.With, ast.While)):
            self.block(st.body)
            return
        for c in ast.walk(st):
            if isinstance(c, ast.Call) and norm(c.func) == "results.get":
                self.saw_source = True


def rule_r5(rep, program: Program):
    r = rep.rule("R5", "chain start-up resets every transition parameter the adapter updates per iteration before using it: a value left in the shared integrator / system by another chain of the same process never reaches a chain's adaptation", floor=3)
    from ..cfg import CFG, node_expr
    from ..facts import must_facts

    for k in program.subclasses("Adapter", concrete_only=True):
        upd = k.resolve("update")
        if upd is None:
            raise AnalysisError(f"{k.name}.update not found")
        written = set()
        for n in ast.walk(upd.node):
            tgts = n.targets if isinstance(n, ast.Assign) else [n.target] if isinstance(n, (ast.AugAssign, ast.AnnAssign)) else []
            for t in tgts:
                if isinstance(t, ast.Attribute) and not is_self_attr(t) and not (isinstance(t.value, ast.Name) and t.value.id == "adapt_state"):
                    written.add(t.attr)
        r.inst({"adapter": k.name, "parameters written by update": sorted(written)})
        if not written:
            continue
        init = k.resolve("initialize")
        fns = [init]
        for c in ast.walk(init.node):
            if isinstance(c, ast.Call) and isinstance(c.func, ast.Attribute) and isinstance(c.func.value, ast.Name) and c.func.value.id == "self":
                h = k.resolve(c.func.attr)
                if h is not None and h not in fns:
                    fns.append(h)
        n_cons = 0
        for fn in fns:
            cfg = CFG(fn.node)

            def independent(e):
                for x in ast.walk(e):
                    if isinstance(x, ast.Attribute) and x.attr in written and not is_self_attr(x):
                        return False
                    if isinstance(x, ast.Call):
                        return False
                return True

            def gen(n, cur):
                st = n.ast
                out = set()
                if isinstance(st, ast.Assign):
                    for t in st.targets:
                        if isinstance(t, ast.Attribute) and t.attr in written and not is_self_attr(t) and independent(st.value):
                            out.add(("reset", t.attr))
                return out

            IN = must_facts(cfg, lambda e, pol: (), gen, None)
            for n in cfg.stmts():
                if n not in IN or IN[n] is None:
                    continue
                e = n.ast if isinstance(n.ast, ast.AST) else None
                if e is None:
                    continue
                # only the expression evaluated at this node, not nested statement bodies
                exprs = [node_expr(n)] if node_expr(n) is not None else []
                if isinstance(n.ast, ast.AugAssign):
                    exprs.append(n.ast.target)
                for ex in exprs:
                    for x in ast.walk(ex):
                        attr = None
                        if isinstance(x, ast.Attribute) and x.attr in written and not is_self_attr(x) and (isinstance(x.ctx, ast.Load) or isinstance(n.ast, ast.AugAssign)):
                            attr = x.attr
                            how = f"reads `{norm(x)}`"
                        elif isinstance(x, ast.Call) and isinstance(x.func, ast.Attribute) and x.func.attr == "step" and "integrator" in norm(x.func.value) and "step_size" in written:
                            attr = "step_size"
                            how = f"`{norm(x)[:40]}` integrates with the current step size"
                        if attr is None:
                            continue
                        n_cons += 1
                        ok = ("reset", attr) in IN[n]
                        r.inst({"adapter": k.name, "function": fn.qualname, "use": norm(x)[:50], "reset before": ok})
                        if not ok:
                            r.violate(PROP, f"{fn.qualname}:uses-shared-{attr}:{norm(x)[:40]}", f"{fn.qualname} {how} on a path where it has not been reset to a chain-independent value: chains run in one process share the integrator object and {k.name}.update writes `{attr}` every iteration, so a chain's start-up depends on which chain ran before it in the same worker (n_process / scheduling dependent output)", node=x, file=fn.file)
        if n_cons == 0:
            raise AnalysisError(f"{k.name}.initialize: no use of the adapted parameters {sorted(written)} found (anchor vanished)")
    # the adapter object itself is shared by every chain (and stage) run in a process and is copied
    # per worker: per-chain quantities live in the adapter state, never on the adapter
    for k in program.subclasses("Adapter", concrete_only=True):
        for c in k.mro:
            for mname, m in c.methods.items():
                if mname == "__init__" or m.is_setter:
                    continue
                stores = []
                for n in ast.walk(m.node):
                    tgts = n.targets if isinstance(n, ast.Assign) else [n.target] if isinstance(n, (ast.AugAssign, ast.AnnAssign)) else []
                    for t in tgts:
                        for tt in (t.elts if isinstance(t, ast.Tuple) else [t]):
                            base = tt
                            while isinstance(base, ast.Subscript):
                                base = base.value
                            if is_self_attr(base):
                                stores.append((n, base.attr))
                    if isinstance(n, ast.Call) and isinstance(n.func, ast.Attribute) and is_self_attr(n.func.value) and n.func.attr in ("append", "extend", "update", "add", "pop", "clear", "setdefault", "insert", "remove"):
                        stores.append((n, n.func.value.attr))
                    if isinstance(n, ast.Call) and norm(n.func) == "setattr" and n.args and norm(n.args[0]) == "self":
                        stores.append((n, norm(n.args[1]) if len(n.args) > 1 else "?"))
                r.inst({"adapter method": m.qualname, "stores on self": [a for _, a in stores]})
                for n, a in stores:
                    r.violate(PROP, f"{m.qualname}:stores-on-adapter:{a}", f"{m.qualname} writes `self.{a}`: the adapter object is shared by all chains and stages sampled in a process (and copied into each worker), so what one chain stores there is seen by the chains that happen to run after it in the same process - output then depends on where other chains start, on n_process and on the chain-to-worker assignment", node=n, file=m.file)
    return r


def _object_state_writes(m):
    """Stores into the object a method belongs to: attribute / item stores on self.<attr>, mutating container methods on
    it, setattr(self, ...), and the same through a local alias `x = self.<attr>`.  -> [(node, attribute)]"""
    aliases = {}
    for n in ast.walk(m.node):
        if isinstance(n, ast.Assign) and len(n.targets) == 1 and isinstance(n.targets[0], ast.Name) and is_self_attr(n.value):
            aliases[n.targets[0].id] = n.value.attr
        if isinstance(n, ast.NamedExpr) and is_self_attr(n.value):
            aliases[n.target.id] = n.value.attr
    stores = []

    def owner(base):
        if is_self_attr(base):
            return base.attr
        if isinstance(base, ast.Name) and base.id in aliases:
            return aliases[base.id]
        return None

    for n in ast.walk(m.node):
        tgts = n.targets if isinstance(n, ast.Assign) else [n.target] if isinstance(n, (ast.AugAssign, ast.AnnAssign)) else []
        for t in tgts:
            for tt in (t.elts if isinstance(t, ast.Tuple) else [t]):
                base = tt
                through_item = False
                while isinstance(base, ast.Subscript):
                    base = base.value
                    through_item = True
                if is_self_attr(base):
                    stores.append((n, base.attr))
                elif through_item and isinstance(base, ast.Name) and base.id in aliases:
                    stores.append((n, aliases[base.id]))
        if isinstance(n, ast.Call) and isinstance(n.func, ast.Attribute) and n.func.attr in ("append", "extend", "update", "add", "pop", "clear", "setdefault", "insert", "remove", "popitem", "discard") and owner(n.func.value) is not None:
            stores.append((n, owner(n.func.value)))
        if isinstance(n, ast.Call) and norm(n.func) == "setattr" and n.args and norm(n.args[0]) == "self":
            stores.append((n, norm(n.args[1]) if len(n.args) > 1 else "?"))
    return stores, aliases


def rule_r7(rep, program: Program):
    """A transition object is shared by every chain and stage sampled in a process (and copied into each worker).
    Whatever a `sample` call leaves on it - a statistics dictionary re-used between calls, a flag, a counter - is seen by
    the chains that happen to run after it in the same process, so outputs depend on which other chains run, where they
    start, on n_process and on the assignment of chains to workers."""
    r = rep.rule("R7", "transitions keep no per-call state: no method other than the constructor / property setters writes the transition object, and returned statistics are built per call", floor=6)
    seen = set()
    for k in program.subclasses("Transition", concrete_only=True):
        for c in k.mro:
            if c.name in ("object", "ABC"):
                continue
            for mname, m in c.methods.items():
                if mname == "__init__" or m.is_setter or getattr(m, "is_property", False) or m.qualname in seen:
                    continue
                seen.add(m.qualname)
                stores, aliases = _object_state_writes(m)
                r.inst({"transition method": m.qualname, "stores on self": sorted({a for _, a in stores}), "aliases of attributes": sorted(aliases)})
                for n, a in stores:
                    r.violate(PROP, f"{m.qualname}:stores-on-transition:{a}", f"{m.qualname} writes `self.{a}` (`{norm(n)[:50]}`): the transition object is shared by all chains and stages sampled in a process, so what one chain's iteration leaves there (e.g. an error flag that is only ever set) shows up in the statistics of the chains that run after it in the same process - the output depends on n_process and on which other chains are run", node=n, file=m.file)
                # a dictionary returned to the caller must not be an attribute of the transition
                for rt in ast.walk(m.node):
                    if isinstance(rt, ast.Return) and rt.value is not None:
                        for e in (rt.value.elts if isinstance(rt.value, ast.Tuple) else [rt.value]):
                            if is_self_attr(e) and e.attr.startswith("_") and "stat" in e.attr:
                                r.violate(PROP, f"{m.qualname}:returns-attribute:{e.attr}", f"{m.qualname} returns the transition's own `self.{e.attr}`: every call hands out the same object", node=rt, file=m.file)
    return r


def _key_is_index(key) -> bool:
    if isinstance(key, ast.Lambda) and isinstance(key.body, ast.Subscript) and isinstance(key.body.slice, ast.Constant) and key.body.slice.value == 0:
        return True
    if isinstance(key, ast.Call) and norm(key.func) in ("itemgetter", "operator.itemgetter") and key.args and isinstance(key.args[0], ast.Constant) and key.args[0].value == 0:
        return True
    return False


def rule_r4(rep, program: Program):
    r = rep.rule("R4", "generator state advanced in worker copies is written back, complete and unmodified, to the parent's per-chain generators", floor=3)
    sc = program.method("MarkovChainMonteCarloMethod", "sample_chains")
    f = program.func("samplers", "_sample_chains_parallel")
    w = program.func("samplers", "_sample_chains_worker")
    # the generators are loop-carried: defined before the stage loop and passed every stage
    r.inst({"loop-carried": "per_chain_rngs passed as rng= each stage"})
    # worker: what is returned for the generator
    apps = [n for n in ast.walk(w.node) if isinstance(n, ast.Call) and norm(n.func) == "chain_outputs.append"]
    if not apps or not isinstance(apps[0].args[0], ast.Tuple):
        raise AnalysisError("_sample_chains_worker: chain_outputs.append((...)) not found")
    elts = apps[0].args[0].elts
    env = {norm(n.targets[0]): n.value for n in ast.walk(w.node) if isinstance(n, ast.Assign) and len(n.targets) == 1 and isinstance(n.targets[0], ast.Name)}
    state_pos = None
    for i, e in enumerate(elts):
        v = env.get(norm(e), e) if isinstance(e, ast.Name) else e
        if "bit_generator" in norm(v) or "rng" in norm(v):
            state_pos = i
            expr = v
    r.inst({"worker returns": [norm(e) for e in elts], "generator state slot": state_pos})
    if state_pos is None:
        r.violate(PROP, "_sample_chains_worker:rng-state-not-returned", "the worker advances a pickled copy of the chain's generator but does not return its state: the parent's generator never advances and every later stage replays the same random stream", node=apps[0], file=w.file)
        return r
    full = isinstance(expr, ast.Attribute) and expr.attr == "state" and isinstance(expr.value, ast.Attribute) and expr.value.attr in ("bit_generator", "_bit_generator") and "rng" in norm(expr.value.value)
    if not full:
        r.violate(PROP, f"_sample_chains_worker:rng-state-partial:{norm(expr)}", f"the worker returns `{norm(expr)}` rather than the complete bit_generator.state dictionary: buffered output (has_uint32/uinteger, counter buffers) is lost at every stage boundary, so the stream is not continued exactly", node=apps[0], file=w.file)
    # parent: write back
    stores = [n for n in ast.walk(f.node) if isinstance(n, ast.Assign) and isinstance(n.targets[0], ast.Attribute) and n.targets[0].attr == "state" and "bit_generator" in norm(n.targets[0].value)]
    r.inst({"parent write-back": [norm(s) for s in stores]})
    if not stores:
        r.violate(PROP, "_sample_chains_parallel:rng-state-not-restored", "the state returned by the workers is not written back to the parent's generators", node=f.node, file=f.file)
        return r
    fenv = {norm(n.targets[0]): norm(n.value) for n in ast.walk(f.node) if isinstance(n, ast.Assign) and len(n.targets) == 1 and isinstance(n.targets[0], ast.Name)}

    def expand(txt: str) -> str:
        head = txt.split(".")[0].split("[")[0]
        seen = set()
        while head in fenv and head not in seen:
            seen.add(head)
            txt = fenv[head] + txt[len(head):]
            head = txt.split(".")[0].split("[")[0]
        return txt

    # the write-back happens after every parallel stage that returned results: the only admissible conditions are
    # those of the surrounding result collection (an empty / failed gather), never an option of the stage
    for s in stores:
        conds = execution_condition(f.node, s, stop_at=(ast.FunctionDef,))
        extra = [(t, tr) for t, tr in conds if any(isinstance(n, ast.Name) and n.id in ("common_kwargs", "adapters", "kwargs", "trace_funcs") or (isinstance(n, ast.Constant) and n.value in ("adapters", "trace_funcs")) for n in ast.walk(t))]
        r.inst({"write-back runs under": [("" if tr else "not ") + norm(t)[:50] for t, tr in conds]})
        # ... and it runs whenever the gathered results are collated: any further condition leaves some stage's
        # advance of the worker copies unrecorded in the parent
        gathers = [n for n in ast.walk(f.node) if isinstance(n, ast.Assign) and any(isinstance(c, ast.Call) and norm(c.func).endswith("results.get") for c in ast.walk(n.value))]
        if not gathers:
            raise AnalysisError("_sample_chains_parallel: results.get() gather not found")
        gconds = {(norm(t), tr) for t, tr in execution_condition(f.node, gathers[0], stop_at=(ast.FunctionDef,))}
        extra += [(t, tr) for t, tr in conds if (norm(t), tr) not in gconds and (t, tr) not in extra]
        if extra:
            txt = " and ".join(("" if tr else "not ") + f"({norm(t)})" for t, tr in extra)
            r.violate(PROP, f"_sample_chains_parallel:restore-conditional:{txt[:50]}", f"the generator states are written back only when `{txt}`: after a stage for which this does not hold (e.g. a warm-up stage without adapters) the parent's generators are not advanced, so the next stage replays the same random streams and parallel runs differ from sequential ones", node=s, file=f.file)
    for s in stores:
        tgt = expand(norm(s.targets[0]))
        if '["rng"]' not in tgt.replace("'", '"'):
            r.violate(PROP, f"_sample_chains_parallel:restore-target:{tgt}", "the restored object is not the per-chain generator passed as `rng`", node=s, file=f.file)
        if not isinstance(s.value, ast.Name):
            r.violate(PROP, f"_sample_chains_parallel:restore-value:{norm(s.value)[:50]}", f"the parent assigns `{norm(s.value)[:60]}` instead of the state object returned by the worker: parts of the generator state are taken from the stale parent copy", node=s, file=f.file)
            continue
        # the name must be bound by iterating over the gathered worker results, at the slot position
        loops = [n for n in ast.walk(f.node) if isinstance(n, ast.For) and any(x is s for x in ast.walk(n))]
        ok = False
        for lp in loops:
            if isinstance(lp.target, ast.Tuple) and len(lp.target.elts) == len(elts) and norm(lp.target.elts[state_pos]) == s.value.id:
                idx = norm(lp.target.elts[0])
                if f"[{idx}]" in expand(norm(s.targets[0])):
                    ok = True
                # the loop visits every gathered result: a slice / filter of the list leaves some generators behind
                it = lp.iter
                if isinstance(it, ast.Call) and call_name(it) in ("sorted", "list", "tuple", "reversed") and it.args:
                    it = it.args[0]
                if not isinstance(it, ast.Name):
                    r.violate(PROP, f"_sample_chains_parallel:restore-partial:{norm(lp.iter)[:40]}", f"the write-back loop iterates over `{norm(lp.iter)[:60]}` rather than the complete list of gathered worker results: the generators of the chains left out are not advanced and replay their streams in the next stage", node=lp, file=f.file)
        if not ok:
            r.violate(PROP, f"_sample_chains_parallel:restore-binding:{norm(s)[:50]}", "the restored state is not the element returned for the same chain index by the workers", node=s, file=f.file)
    # per_chain_kwargs must be materialised so that the parent's generator objects are the ones updated
    mat = [n for n in ast.walk(f.node) if isinstance(n, ast.Assign) and norm(n.targets[0]) == "per_chain_kwargs" and isinstance(n.value, ast.Call) and norm(n.value.func) in ("list", "tuple")]
    r.inst({"per_chain_kwargs materialised": bool(mat)})
    if not mat:
        r.violate(PROP, "_sample_chains_parallel:per_chain_kwargs-not-materialised", "per_chain_kwargs is a one-shot generator: it is exhausted when the queue is filled, so the write-back cannot reach the generators", node=f.node, file=f.file)
    return r


def run(rep, program: Program, tier: str) -> None:
    rep.explanation = (
        "Code-visible sources of schedule dependence: derivation of per-chain generators, ambient "
        "randomness scan over all modules, restoration of chain order after asynchronous workers, "
        "and value-flow of generator state across the pickle boundary of multi-process sampling."
    )
    rep.assumptions = ["races inside NumPy / the OS are not this code", "bit_generator.state is the complete state of a NumPy bit generator (NumPy contract)"]
    from . import samplersim

    rep.isolate(rule_r1, rep, program, derivation=not samplersim.available(program, tier))
    rep.isolate(rule_r2, rep, program)
    samplersim.superseded(rep, program, tier, [("R3", "worker outputs are restored to chain-index order before collation; the index travels with arguments and results")], "R6", rule_r3, rep, program)
    samplersim.superseded(rep, program, tier, [("R4", "generator state advanced in worker copies is written back, complete and unmodified, to the parent's per-chain generators")], "R6", rule_r4, rep, program)
    rep.isolate(rule_r5, rep, program)
    rep.isolate(rule_r7, rep, program)
    from . import samplersim

    rep.isolate(samplersim.rule, rep, program, tier, PROP, "R6")
    from . import transim

    rep.isolate(transim.rule, rep, program, PROP, "R8")
