"""Abstract runs of the Metropolis integration transitions (mici/transitions.py) in the token domain.

`MetropolisStaticIntegrationTransition` / `MetropolisRandomIntegrationTransition` and `_process_integrator_error` are
interpreted by mverif.absexec with harness objects for the system (energies read from a label -> value table), the
integrator (each step returns a labelled successor state or raises a chosen integrator error at a chosen step) and the
generator (a chosen uniform draw).  Energies and the uniform draw are a handful of concrete numbers chosen to reach every
branch (downhill, uphill accepted, uphill rejected, NaN energy, +inf energy); states are opaque objects compared by
identity.  Every run is judged against the documented transition:

* C12 - an integrator error inside the trajectory never escapes; the returned state is the *input* state object
  (position and momentum untouched), the matching error flag - and only that one - is True, accept_stat is 0;
  a NaN / infinite end-point energy is a rejection;
* C13 - the returned statistics have exactly the declared keys on every path; n_step is the number of completed steps;
* C01 - the proposal is accepted iff U < exp(min(0, h(start) - h(end))) and no error occurred; on acceptance the
  returned state is the end point with the original direction, on rejection the start state with the direction reversed;
* C14 - every call builds its own statistics dictionary and nothing of one call shows up in the next.
"""

from __future__ import annotations

import ast
import math

from ..absexec import BUILTINS, Env, ExcClass, ExcObj, HObj, Instance, Interp, PyRaise, Token, Unsupported, _builtin
from ..model import Program
from .samplersim import _load_module, _mod

STATE_SRC = '''
class ChainState:
    def __init__(self, **variables):
        self.__dict__.update(variables)
'''

ERRORS = ("ConvergenceError", "NonReversibleStepError")


class Harness:
    def __init__(self, program: Program):
        self.it = it = Interp()
        env_err = Env(it.globals)
        _load_module(it, env_err, _mod(program, "errors").source, {})
        env_state = Env(it.globals)
        _load_module(it, env_state, STATE_SRC, {})
        self.ChainState = env_state.lookup("ChainState")
        np = HObj(
            "np",
            attrs={"nan": float("nan"), "inf": float("inf"), "int64": Token("int64"), "float64": Token("float64")},
            methods={"isnan": lambda x: isinstance(x, float) and math.isnan(x), "exp": self._exp, "isfinite": lambda x: isinstance(x, (int, float)) and math.isfinite(x), "log": lambda x: math.log(x) if x > 0 else float("-inf")},
        )
        logger = HObj("logger", methods={n: (lambda *a, **k: None) for n in ("exception", "warning", "info", "error", "debug")})
        pre = {"np": np, "logger": logger, "ABC": None, "abstractmethod": _builtin(lambda f: f), "abstractproperty": _builtin(lambda f: f), "LogRepFloat": None}
        for name in ("Error", "IntegratorError", "ConvergenceError", "NonReversibleStepError", "HamiltonianDivergenceError"):
            try:
                pre[name] = env_err.lookup(name)
            except Unsupported:
                pre[name] = ExcClass(name)
        self.env = Env(it.globals)
        _load_module(it, self.env, _mod(program, "transitions").source, pre)

    @staticmethod
    def _exp(x):
        try:
            return math.exp(x)
        except OverflowError:
            return float("inf")

    def run(self, *, cls: str, n_step: int, error_at, error: str, h_init: float, h_final: float, u: float, calls: int = 1):
        it = self.it
        it.budget = 100000
        log = {"steps": 0, "h": 0, "uniform": 0}

        def h(state):
            log["h"] += 1
            return state.dict.get("energy")

        def step(state):
            k = log["steps"] % 1000
            if error_at is not None and k == error_at and log["steps"] < 1000:
                log["steps"] += 1000  # only the first call of a two-call scenario fails
                raise PyRaise(error, None, ExcObj(ExcClass(error)))
            log["steps"] += 1
            return it.call(self.ChainState, [], {"label": state.dict["label"] + ">s", "dir": state.dict["dir"], "energy": h_final})

        def uniform(*a, **k):
            log["uniform"] += 1
            return u

        system = HObj("system", methods={"h": h})
        integrator = HObj("integrator", attrs={"step_size": 0.25}, methods={"step": step})
        rng = HObj("rng", methods={"uniform": uniform, "integers": lambda lo, hi=None, **k: n_step})
        tcls = self.env.lookup(cls)
        args = [system, integrator, n_step] if "Static" in cls else [system, integrator, (n_step, n_step + 1)]
        trans = it.call(tcls, args)
        outs = []
        for c in range(calls):
            log["steps"] = log["steps"] - log["steps"] % 1000 if c else 0
            state = it.call(self.ChainState, [], {"label": f"x{c}", "dir": 1, "energy": h_init})
            rec = {"state_in": state, "raised": None}
            try:
                res = it.call(it.getattr(trans, "sample"), [state, rng])
                rec["result"] = res
            except PyRaise as e:
                rec["raised"] = e.exc_name
            rec["steps_done"] = log["steps"] % 1000
            outs.append(rec)
        declared = None
        try:
            declared = it.getattr(trans, "statistic_types")
        except (PyRaise, Unsupported):
            pass
        return {"calls": outs, "declared": declared, "log": dict(log)}


SCENARIOS = [
    dict(cls=c, n_step=n, error_at=ea, error=er, h_init=hi, h_final=hf, u=u)
    for c in ("MetropolisStaticIntegrationTransition", "MetropolisRandomIntegrationTransition")
    for n in (1, 3)
    for (ea, er) in [(None, "ConvergenceError")] + [(k, e) for k in range(n) for e in ERRORS]
    for (hi, hf, u) in ((2.0, 1.0, 0.99), (1.0, 2.0, 0.1), (1.0, 2.0, 0.9), (1.0, float("nan"), 0.0), (1.0, float("inf"), 0.0))
]


def judge(params, out):
    v = []
    where = f"{params['cls']}, n_step={params['n_step']}, " + (f"{params['error']} raised by integrator step {params['error_at'] + 1}" if params["error_at"] is not None else "no integrator error") + f", h(start)={params['h_init']}, h(end)={params['h_final']}, U={params['u']}"
    rec = out["calls"][0]
    if rec["raised"]:
        return [("C12", f"escapes:{rec['raised']}", f"the transition raises {rec['raised']} instead of returning a rejected move ({where})")]
    res = rec["result"]
    if not (isinstance(res, tuple) and len(res) == 2 and isinstance(res[1], dict)):
        return [("C13", "result-shape", f"sample() does not return (state, statistics dict) ({where})")]
    state, stats = res
    start = rec["state_in"]
    err = params["error_at"] is not None
    n_done = params["error_at"] if err else params["n_step"]
    hd = params["h_init"] - params["h_final"]
    prob = 0.0 if (isinstance(hd, float) and math.isnan(hd)) else math.exp(min(0.0, hd))
    accept = (not err) and params["u"] < prob
    # ---- C13: declared keys, step count
    if isinstance(out["declared"], dict):
        missing = sorted(set(out["declared"]) - set(stats))
        extra = sorted(set(stats) - set(out["declared"]))
        if missing:
            v.append(("C13", f"statistics-missing:{','.join(missing)}", f"the returned statistics lack the declared key(s) {missing}: the fill value survives in that row of the statistics arrays ({where})"))
        if extra:
            v.append(("C13", f"statistics-undeclared:{','.join(extra)}", f"the returned statistics contain undeclared key(s) {extra}: the sampler has no array for them ({where})"))
            if err:
                v.append(("C12", f"error-statistics-undeclared:{','.join(extra)}", f"after an integrator error the transition returns the undeclared statistic(s) {extra}: the sampler's statistics update has no array for them and raises KeyError, so the failure is not contained as a rejected iteration ({where})"))
    if stats.get("n_step") != n_done:
        v.append(("C13", "n_step", f"statistic n_step is {stats.get('n_step')!r}; {n_done} integrator step(s) were completed ({where})"))
    # ---- C12: containment
    if err:
        if state is not start:
            v.append(("C12", "error-not-rejected", f"after an integrator error the returned state is not the state the transition started from ({where})"))
        flag = {"ConvergenceError": "convergence_error", "NonReversibleStepError": "non_reversible_step"}[params["error"]]
        other = {"convergence_error", "non_reversible_step"} - {flag}
        if stats.get(flag) is not True:
            v.append(("C12", f"flag-not-set:{flag}", f"statistic `{flag}` is {stats.get(flag)!r} after a {params['error']} ({where})"))
        for o in other:
            if stats.get(o) not in (False, None):
                v.append(("C12", f"flag-wrongly-set:{o}", f"statistic `{o}` is {stats.get(o)!r} after a {params['error']} ({where})"))
        if stats.get("accept_stat") != 0.0:
            v.append(("C12", "accept-stat-after-error", f"accept_stat is {stats.get('accept_stat')!r} after an integrator error; an error is a rejection with acceptance statistic 0 ({where})"))
    else:
        for o in ("convergence_error", "non_reversible_step"):
            if stats.get(o) not in (False, None):
                v.append(("C12", f"flag-wrongly-set:{o}", f"statistic `{o}` is {stats.get(o)!r} although no integrator error occurred ({where})"))
        if isinstance(params["h_final"], float) and not math.isfinite(params["h_final"]) and state is not start:
            v.append(("C12", "non-finite-energy-accepted", f"a proposal with energy {params['h_final']} is accepted ({where})"))
    # ---- C01: accept rule and direction discipline
    if not (isinstance(params["h_final"], float) and not math.isfinite(params["h_final"])):
        if accept and state is start:
            v.append(("C01", "accept-rule", f"the proposal is rejected although U={params['u']} < exp(min(0, h(start) - h(end))) = {prob:.3f} ({where})"))
        if (not accept) and state is not start:
            v.append(("C01", "accept-rule", f"the proposal is accepted although {'an integrator error occurred' if err else f'U={params[chr(117)]} >= acceptance probability {prob:.3f}'} ({where})"))
    if isinstance(state, Instance):
        want_dir = 1 if (state is not start) else -1
        if state.dict.get("dir") != want_dir:
            v.append(("C01", "direction", f"the returned state has direction {state.dict.get('dir')!r}; {'an accepted proposal keeps the original direction' if state is not start else 'a rejection reverses the direction'} (it must be {want_dir}) ({where})"))
        if state is not start and state.dict.get("label") != "x0" + ">s" * params["n_step"]:
            v.append(("C01", "proposal", f"the accepted state is `{state.dict.get('label')}`, not the end point of the {params['n_step']}-step trajectory ({where})"))
    if not err and not (isinstance(hd, float) and math.isnan(hd)):
        ap = stats.get("metrop_accept_prob", stats.get("accept_stat"))
        if isinstance(ap, float) and abs(ap - prob) > 1e-12:
            v.append(("C01", "accept-probability", f"the acceptance probability recorded is {ap!r}; exp(min(0, h(start) - h(end))) = {prob!r} ({where})"))
    return v


def judge_two_calls(params, out):
    """First call hits an integrator error, the second (same transition object, fresh state) does not."""
    v = []
    a, b = out["calls"]
    if a["raised"] or b["raised"] or not all(isinstance(x.get("result"), tuple) and len(x["result"]) == 2 and isinstance(x["result"][1], dict) for x in (a, b)):
        return v
    sa, sb = a["result"][1], b["result"][1]
    where = f"{params['cls']}: a call with a {params['error']} followed by a call without error on the same transition object"
    if sa is sb:
        v.append(("C14", "statistics-dict-shared", f"both calls return the same dictionary object: the statistics of one iteration are overwritten by the next and flags set once stay set ({where})"))
    for fl in ("convergence_error", "non_reversible_step"):
        if sb.get(fl) not in (False, None):
            v.append(("C14", f"flag-leaks:{fl}", f"`{fl}` is {sb.get(fl)!r} in the second call: what one chain's iteration left on the shared transition object shows up in the statistics of whatever runs next in the same process ({where})"))
    return v


def run_all(program: Program):
    h = Harness(program)
    verdicts = {}
    n = 0
    for params in SCENARIOS:
        out = h.run(**params)
        n += 1
        for p_, k_, m_ in judge(params, out):
            verdicts.setdefault((p_, k_), m_)
    for cls in ("MetropolisStaticIntegrationTransition", "MetropolisRandomIntegrationTransition"):
        for er in ERRORS:
            params = dict(cls=cls, n_step=2, error_at=1, error=er, h_init=2.0, h_final=1.0, u=0.5)
            out = h.run(**params, calls=2)
            n += 1
            for p_, k_, m_ in judge_two_calls(params, out):
                verdicts.setdefault((p_, k_), m_)
    return {"runs": n, "verdicts": [(p_, k_, m_) for (p_, k_), m_ in verdicts.items()]}


TITLES = {
    "C01": "abstract runs of the Metropolis transitions: accept iff U < exp(min(0, h(start) - h(end))) and no error; accepted end point keeps the direction, a rejection reverses it",
    "C12": "abstract runs of the Metropolis transitions with an integrator error injected at every step: the error is contained as a rejection of the input state with exactly the matching flag set; non-finite end-point energies are rejections",
    "C13": "abstract runs of the Metropolis transitions: the returned statistics have exactly the declared keys on every path and n_step counts the completed steps",
    "C14": "abstract runs of the Metropolis transitions: successive calls on one transition object return independent statistics (nothing of one call leaks into the next)",
}


def rule(rep, program: Program, prop: str, rule_id: str):
    r = rep.rule(rule_id, TITLES[prop], floor=1)
    cache = getattr(program, "_transim_cache", None)
    if cache is None:
        try:
            cache = run_all(program)
        except Unsupported as exc:
            cache = exc
        program._transim_cache = cache
    if isinstance(cache, Exception):
        r.inst({"abstract runs": f"not available - the Metropolis transitions are outside the abstract executor's subset ({cache}); the structural rules decide alone"}, exercised=False)
        r.notes.append(f"abstract runs unavailable: {cache}")
        return r
    tm = _mod(program, "transitions")
    r.inst({"runs": cache["runs"], "scenario space": "static / random step count, 1 or 3 steps, no error or ConvergenceError / NonReversibleStepError at every step, energies downhill / uphill accepted / uphill rejected / NaN / +inf, two successive calls"})
    for p_, key, msg in cache["verdicts"]:
        if p_ == prop:
            r.violate(prop, f"Metropolis-transition:{key}", msg, node=None, file=str(tm.path))
    return r


def available(program: Program) -> bool:
    cache = getattr(program, "_transim_cache", None)
    if cache is None:
        try:
            cache = run_all(program)
        except Unsupported as exc:
            cache = exc
        program._transim_cache = cache
    return not isinstance(cache, Exception)
