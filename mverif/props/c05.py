"""C05 - Hamiltonian values and derivative methods of every system are consistent.

 R1 sum clause under the real MRO: h == h1 + h2, dh_dpos == dh1_dpos + dh2_dpos,
    dh_dmom == dh2_dmom as operator-word identities of the fully resolved methods
 R2/R3 term-wise differentiation: each value method, normalised to a sum of rational multiples
    of words, is differentiated with the derivative table and compared with the resolved
    derivative method (for constrained classes under both density conventions, which also
    decides that the two methods branch on the flag consistently); h1 does not depend on mom
 R4 return conventions of user derivative functions vs the auxiliary-output tables
    (shared with C18-R3)
"""

from __future__ import annotations

from ..lincomb import LinComb, MethodExpander, app
from ..model import Program
from ..poly import Rat
from ..report import AnalysisError
from . import c09, c18

PROP = "C05"

EXPAND = {"h", "h1", "h2", "dh_dpos", "dh1_dpos", "dh2_dpos", "dh_dmom", "dh2_dmom", "log_det_sqrt_gram", "inv_gram", "grad_log_det_sqrt_gram"}
POS, MOM = "state.pos", "state.mom"


def derivative(v: LinComb, var: str, where: str) -> LinComb:
    out = LinComb.zero()
    two = Rat.const(2)
    for w, c in v.t.items():
        d = None
        if w == ("self.neg_log_dens(state)",):
            d = LinComb.atom("self.grad_neg_log_dens(state)") if var == "pos" else LinComb.zero()
        elif w == (POS, POS):
            d = LinComb.atom(POS).scale(two) if var == "pos" else LinComb.zero()
        elif len(w) == 3 and w[0] == MOM and w[2] == MOM and isinstance(w[1], str) and w[1].endswith(".inv"):
            m = w[1][: -len(".inv")]
            if var == "mom":
                d = LinComb({(w[1], MOM): two})
            elif m == "self.metric":
                d = LinComb.zero()
            elif m == "self.metric(state)":
                d = app("self.vjp_metric_func(state)", "self.metric(state).grad_quadratic_form_inv(state.mom)")
        elif w == ("self.metric(state).log_abs_det",):
            d = app("self.vjp_metric_func(state)", "self.metric(state).grad_log_abs_det") if var == "pos" else LinComb.zero()
        elif w == ("self.gram(state).log_abs_det",):
            d = app("self.mhp_constr(state)", "self.gram(state).inv", "self.jacob_constr(state)", "self.metric.inv").scale(two) if var == "pos" else LinComb.zero()
        if d is None:
            raise AnalysisError(f"{where}: term {w} is outside the derivative table")
        out = out + d.scale(c)
    return out


def variants(k):
    if k.is_subclass_of("ConstrainedEuclideanMetricSystem"):
        return [{"dens_wrt_hausdorff": True}, {"dens_wrt_hausdorff": False}]
    return [{}]


def rule_r1(rep, program: Program, prop=PROP, rule="R1"):
    r = rep.rule(rule, "h == h1 + h2, dh_dpos == dh1_dpos + dh2_dpos, dh_dmom == dh2_dmom for the fully resolved methods of every concrete system class", floor=30)
    for k in c09.system_classes(program):
        for flags in variants(k):
            ex = MethodExpander(program, k, EXPAND, flags)
            vals = {n: ex.method(n) for n in ("h", "h1", "h2", "dh_dpos", "dh1_dpos", "dh2_dpos", "dh_dmom", "dh2_dmom")}
            tag = k.name + (f"[{','.join(f'{a}={b}' for a, b in flags.items())}]" if flags else "")
            for lhs, rhs_names in (("h", ("h1", "h2")), ("dh_dpos", ("dh1_dpos", "dh2_dpos")), ("dh_dmom", ("dh2_dmom",))):
                rhs = LinComb.zero()
                for n in rhs_names:
                    rhs = rhs + vals[n]
                r.inst({"class": tag, "identity": f"{lhs} == {' + '.join(rhs_names)}", "lhs": repr(vals[lhs])[:120]})
                if not vals[lhs].equals(rhs):
                    f = k.resolve(lhs)
                    r.violate(prop, f"{k.name}.{lhs}!={'+'.join(rhs_names)}", f"for {tag}: {lhs} resolves ({f.qualname}) to {vals[lhs]!r} but {' + '.join(rhs_names)} is {rhs!r}", node=f.node, file=f.file)
    seen, uniq = set(), []
    for fd in r.findings:
        if fd.key not in seen:
            seen.add(fd.key)
            uniq.append(fd)
    r.findings = uniq
    return r


def documented(k, flags) -> tuple[LinComb, LinComb]:
    """(h1, h2) as documented in the class docstrings (trusted table)."""
    half = Rat.const(1) / 2
    nld = LinComb.atom("self.neg_log_dens(state)")
    if k.is_subclass_of("RiemannianMetricSystem"):
        return nld + LinComb.atom("self.metric(state).log_abs_det").scale(half), LinComb({(MOM, "self.metric(state).inv", MOM): half})
    h1 = nld
    if k.is_subclass_of("ConstrainedEuclideanMetricSystem") and not flags.get("dens_wrt_hausdorff", True):
        h1 = h1 + LinComb.atom("self.gram(state).log_abs_det").scale(half)
    h2 = LinComb({(MOM, "self.metric.inv", MOM): half})
    if k.is_subclass_of("GaussianEuclideanMetricSystem"):
        h2 = h2 + LinComb({(POS, POS): half})
    return h1, h2


def rule_r2(rep, program: Program):
    r = rep.rule("R2", "h1 and h2 equal the documented formulas (negative log density, +1/2 log-determinant terms, kinetic energy 1/2 p^T M^-1 p, Gaussian 1/2 q^T q)", floor=24)
    for k in c09.system_classes(program):
        for flags in variants(k):
            ex = MethodExpander(program, k, EXPAND, flags)
            tag = k.name + (f"[{','.join(f'{a}={b}' for a, b in flags.items())}]" if flags else "")
            want1, want2 = documented(k, flags)
            for nm, want in (("h1", want1), ("h2", want2)):
                got = ex.method(nm)
                r.inst({"class": tag, "method": nm, "value": repr(got)[:140]})
                if not got.equals(want):
                    f = k.resolve(nm)
                    r.violate(PROP, f"{f.qualname}:{got!r}"[:160], f"for {tag}: {nm} evaluates to {got!r}; documented formula: {want!r}", node=f.node, file=f.file)
    seen, uniq = set(), []
    for fd in r.findings:
        if fd.key not in seen:
            seen.add(fd.key)
            uniq.append(fd)
    r.findings = uniq
    return r


def rule_r3(rep, program: Program, prop=PROP, rule="R3"):
    PROP = prop  # noqa: N806
    r = rep.rule(rule, "each derivative method equals the table derivative of the corresponding value method (per class and density convention)", floor=40)
    for k in c09.system_classes(program):
        for flags in variants(k):
            ex = MethodExpander(program, k, EXPAND, flags)
            tag = k.name + (f"[{','.join(f'{a}={b}' for a, b in flags.items())}]" if flags else "")
            h1, h2 = ex.method("h1"), ex.method("h2")
            pairs = [("h1", h1, "pos", "dh1_dpos"), ("h2", h2, "pos", "dh2_dpos"), ("h2", h2, "mom", "dh2_dmom"), ("h1", h1, "mom", None)]
            for vn, v, var, dn in pairs:
                want = derivative(v, var, f"{tag}.{vn}")
                got = ex.method(dn) if dn else LinComb.zero()
                r.inst({"class": tag, "value": vn, "d/d": var, "derivative method": dn, "expected": repr(want)[:140]})
                if not got.equals(want):
                    f = k.resolve(dn) if dn else k.resolve(vn)
                    what = f"{dn} = {got!r}" if dn else f"{vn} depends on the momentum"
                    r.violate(PROP, f"{f.qualname}:d{vn}/d{var}:{'' if dn else 'nonzero'}{got!r}"[:160], f"for {tag}: the derivative of {vn} = {v!r} with respect to {var} is {want!r}, but {what}", node=f.node, file=f.file)
    seen, uniq = set(), []
    for fd in r.findings:
        if fd.key not in seen:
            seen.add(fd.key)
            uniq.append(fd)
    r.findings = uniq
    return r


def rule_r5(rep, program: Program):
    import ast

    from ..effects import user_function_attrs
    from ..model import is_self_attr, norm

    r = rep.rule("R5", "user function wiring: method X evaluates self._X, which the constructor binds to the parameter X (derivative fallbacks differentiate the matching base function)", floor=9)
    seen = set()
    for k in c09.system_classes(program):
        uf = user_function_attrs(k)
        for c in k.mro:
            for name, f in c.methods.items():
                if name == "__init__" or f.qualname in seen:
                    continue
                calls = [n for n in ast.walk(f.node) if isinstance(n, ast.Call) and is_self_attr(n.func) and n.func.attr in uf]
                if not calls:
                    continue
                seen.add(f.qualname)
                attr = calls[0].func.attr
                bind = uf[attr]
                bargs = [norm(a) for a in bind.args]
                r.inst({"method": f.qualname, "calls": f"self.{attr}", "bound by": f"{norm(bind.func)}({', '.join(bargs)[:60]})"})
                # miswiring: the method is the wrapper of one user function but evaluates another
                # (a method that is no wrapper and evaluates a user function directly is C18-R2's concern)
                if attr != f"_{name}" and f"_{name}" in uf:
                    r.violate(PROP, f"{f.qualname}:calls:self.{attr}", f"{f.qualname} evaluates self.{attr} instead of self._{name}: it returns a different model function than its name says", node=f.node, file=f.file)
                # argument of the call is the position
                if not (calls[0].args and norm(calls[0].args[0]).endswith(".pos")):
                    r.violate(PROP, f"{f.qualname}:argument:{norm(calls[0].args[0]) if calls[0].args else None}", "the user model function is not evaluated at the state's position", node=calls[0], file=f.file)
    # constructor bindings: attribute _p <- parameter p (wrap_function) / (p, base, op, 'p') (autodiff_fallback)
    for k in c09.system_classes(program):
        for attr, call in user_function_attrs(k).items():
            fn = norm(call.func)
            args = [norm(a) for a in call.args]
            if call.keywords and fn in ("autodiff_fallback", "wrap_function"):
                # keyword arguments placed by the callee's signature
                callee = next((m.functions[fn] for m in program.modules.values() if fn in m.functions and m.name.startswith("mici.autodiff")), None)
                if callee is not None:
                    ps = callee.params
                    slots = dict(zip(ps, args))
                    slots.update({kw.arg: norm(kw.value) for kw in call.keywords if kw.arg})
                    args = []
                    for p_ in ps:
                        if p_ not in slots:
                            break
                        args.append(slots[p_])
            key = f"{k.name}:{attr}"
            ok = bool(args) and args[0] == attr[1:]
            if ok and fn == "autodiff_fallback":
                ok = len(args) >= 3
                if ok:
                    base = args[2].strip("'\"").split("_")[0]
                    pref = {"grad": "grad", "jacobian": "jacob", "hessian": "hess", "mhp": "mhp", "mtp": "mtp", "vjp": "vjp"}.get(base, base)
                    ok = attr[1:].startswith(pref)
            if (k.name, attr) in seen:
                continue
            seen.add((k.name, attr))
            r.inst({"class": k.name, "binding": f"self.{attr} = {fn}({', '.join(args)[:70]})", "ok": bool(ok)})
            if not ok:
                r.violate(PROP, f"{key}:binding:{args[:1]}", f"{k.name}: self.{attr} is bound to `{fn}({', '.join(args)[:80]})`, which is not the constructor argument of the same name / the matching differential operator", node=call, file=str(k.module.path))
    # de-duplicate
    seen2, uniq = set(), []
    for fd in r.findings:
        kk = fd.key.split(":", 1)[1] if fd.key.split(":")[0] in program.classes else fd.key
        if kk not in seen2:
            seen2.add(kk)
            uniq.append(fd)
    r.findings = uniq
    return r


def rule_r10(rep, program: Program):
    """The kinetic energy is 0.5 p' M^-1 p for the metric M the caller passed.  A constructor may pick a matrix *class*
    from the argument's type and dimensionality, never from the argument's values: a value test (np.allclose against the
    diagonal part, a sparsity or symmetry probe with tolerances) silently replaces some metrics by a different matrix."""
    import ast

    from ..model import call_name, execution_condition, is_self_attr, norm

    r = rep.rule("R10", "system constructors choose the metric's matrix class by type / dimensionality only and hand the argument itself to it (no value-dependent substitution of the metric)", floor=3)

    def type_test(t, param) -> bool:
        if isinstance(t, ast.BoolOp):
            return all(type_test(v, param) for v in t.values)
        if isinstance(t, ast.UnaryOp) and isinstance(t.op, ast.Not):
            return type_test(t.operand, param)
        if isinstance(t, ast.Compare) and len(t.ops) == 1:
            left, right = t.left, t.comparators[0]
            if isinstance(t.ops[0], (ast.Is, ast.IsNot)) and norm(right) == "None":
                return True
            for side in (left, right):
                if isinstance(side, ast.Attribute) and side.attr in ("ndim", "size", "dtype") and norm(side.value) == param:
                    return True
                if isinstance(side, ast.Subscript) and isinstance(side.value, ast.Attribute) and side.value.attr == "shape" and norm(side.value.value) == param:
                    return True
                if isinstance(side, ast.Call) and call_name(side) == "len" and side.args and norm(side.args[0]) in (param, f"{param}.shape"):
                    return True
            return False
        if isinstance(t, ast.Call) and call_name(t) in ("isinstance", "np.isscalar", "callable", "hasattr", "np.ndim"):
            return True
        if isinstance(t, ast.Name):
            return False
        return False

    n_sites = 0
    for k in c09.system_classes(program):
        init = k.methods.get("__init__")
        if init is None or "metric" not in init.params:
            continue
        param = "metric"
        for a in ast.walk(init.node):
            if not (isinstance(a, ast.Assign) and any(is_self_attr(t) and t.attr in ("metric", "_metric") for t in a.targets)):
                continue
            n_sites += 1
            conds = execution_condition(init.node, a, stop_at=(ast.FunctionDef,))
            r.inst({"class": k.name, "store": norm(a)[:70], "under": [("" if tr else "not ") + norm(t)[:50] for t, tr in conds]})
            exact_guard = False
            for t, _tr in conds:
                if type_test(t, param):
                    continue
                names = {call_name(c) for c in ast.walk(t) if isinstance(c, ast.Call)}
                if names & {"np.array_equal", "np.array_equiv"} and not names & {"np.allclose", "np.isclose", "np.round", "np.around"}:
                    # an exact comparison of the argument with the representation substituted for it: same operator
                    exact_guard = True
                    continue
                if not names & {"np.allclose", "np.isclose", "np.round", "np.around", "np.count_nonzero", "np.any", "np.all", "np.linalg.norm", "np.abs", "abs", "np.max", "max"} and not any(isinstance(c, ast.Compare) for c in ast.walk(t)):
                    raise AnalysisError(f"{k.name}.__init__: the test `{norm(t)[:60]}` selecting the metric representation is neither a type test nor a recognised value test")
                if True:
                    r.violate(PROP, f"{k.name}.__init__:metric-chosen-by-value:{norm(t)[:40]}", f"which matrix represents the metric depends on `{norm(t)}` - a test of the argument's values, not of its type or dimensionality: for some arrays the system's metric is not the one passed in, so h2 / dh2_dmom no longer equal 0.5 p' M^-1 p and M^-1 p for the caller's M", node=a, file=init.file)
            v = a.value
            if isinstance(v, ast.Call) and v.args:
                arg = v.args[0]
                if norm(arg) != param and not exact_guard and not (isinstance(arg, ast.Call) and call_name(arg) in ("np.asarray", "np.array", "np.ascontiguousarray") and arg.args and norm(arg.args[0]) == param):
                    r.violate(PROP, f"{k.name}.__init__:metric-from-derived-array:{norm(arg)[:40]}", f"the metric matrix is built from `{norm(arg)[:60]}` rather than from the argument itself", node=a, file=init.file)
            elif not (isinstance(v, ast.Name) and v.id == param) and not isinstance(v, ast.Call):
                r.violate(PROP, f"{k.name}.__init__:metric={norm(v)[:40]}", f"the metric attribute is set to `{norm(v)[:60]}`, not to the argument", node=a, file=init.file)
    if n_sites == 0:
        raise AnalysisError("no system constructor storing a `metric` argument found")
    return r


def run(rep, program: Program, tier: str) -> None:
    rep.explanation = (
        "Every Hamiltonian method of every concrete system class is resolved under the class's MRO "
        "and expanded to a sum of rational multiples of operator words; the sum clause is an "
        "identity between these normal forms and each derivative method is compared with the "
        "table derivative of its value method. Constrained classes are analysed under both "
        "density conventions."
    )
    rep.assumptions = [
        "derivative table (trusted, DESIGN.md section 7): neg_log_dens->grad_neg_log_dens; c*x@x->2c*x; c*p@M^-1@p -> d/dp 2c*M^-1@p, d/dq c*vjp(M.grad_quadratic_form_inv(p)); c*M(q).log_abs_det -> c*vjp(M.grad_log_abs_det); c*gram.log_abs_det -> 2c*mhp(gram^-1 @ jacob @ metric^-1)",
        "user functions and matrix primitives are correct (C10/C11)",
    ]
    rep.isolate(rule_r1, rep, program)
    rep.isolate(rule_r2, rep, program)
    rep.isolate(rule_r3, rep, program)
    rep.isolate(c18.rule_r3, rep, program, prop=PROP, rule="R4")
    rep.isolate(rule_r5, rep, program)
    # a derivative that updates a cached array in place is wrong from its second evaluation on (shared with C09-R9)
    rep.isolate(c09.rule_r9, rep, program, prop=PROP, rule="R6")
    # a value memoised on a state belongs to the system object that computed it: two systems of one class
    # (different metric / model functions) evaluated on the same state must not read each other's values (shared with C09-R6)
    rep.isolate(c09.rule_r6, rep, program, prop=PROP, rule="R7")
    # the Riemannian derivative methods are vector-Jacobian products with the matrix gradient members
    # (grad_log_abs_det, grad_quadratic_form_inv): their symmetry types are claimed here too (shared with C11-R1 / C11-R2)
    from . import c11

    rep.isolate(c11.rule_r1, rep, program, prop=PROP, rule="R8")
    rep.isolate(c11.rule_r2, rep, program, prop=PROP, rule="R9")
    rep.isolate(rule_r10, rep, program)
    # the Hamiltonian / its flows are evaluated through metric.inv, .sqrt, .log_abs_det of whatever matrix object the
    # metric is: a cache forwarded to a scaled / transposed / inverted matrix must satisfy its defining identity there,
    # or those members describe a different matrix from the one whose array and eigendecomposition the system uses
    # (shared with C10-R5)
    from . import c10

    _n0 = len(rep.rules)
    _r1, _r4, _r5c = c10.rule_algebra(rep, program, relevant=lambda cname, member: False)  # members the algebra cannot evaluate are C10's concern
    rep.rules = rep.rules[:_n0]
    _r = rep.rule("R11", "caches forwarded to derived matrices (capacitance, triangular factor, eigendecomposition, LU) satisfy their defining identity on the new arguments", floor=10)
    _r.instances = _r.exercised = _r5c.instances
    _r.samples = _r5c.samples
    for _fd in _r5c.findings:
        _fd.rule, _fd.prop = "R11", PROP
        _r.findings.append(_fd)
    rep.extra.pop("members_outside_algebra", None)
