"""C04 - constrained dynamics never leave the constraint manifold or its cotangent space.

 R1 projection solvers return only under `norm(constr(state)) < constraint_tol` on a residual
    evaluated at the returned position (killed by later position writes)          [= C12-R1]
 R2 every other exit raises ConvergenceError                                        [= C12-R2]
 R3 Lagrange-multiplier bookkeeping, by symbolic execution of one solver iteration on every
    path (inner line-search loop unrolled, bounded): the position changes by exactly
    -dh2_flow_pos_dmom @ (change of mu); mu only accumulates multiples of jacob_constr_prev.T @ ...;
    mu starts at zero; on return the momentum changes by -sign(time_step) * dh2_flow_mom_dmom @ mu;
    the flow derivatives are requested at abs(time_step)
 R4 in the constrained integrator every h1_flow is followed by the cotangent projection and
    every h2_flow by the retraction (with the pre-flow state) and then the cotangent projection
 R5 the cotangent projection annihilates the velocity constraint: J @ (dh2_dmom operator) @ P == 0
    by operator-word rewriting with gram == J @ metric^-1 @ J^T taken from the code
 R6 sampled momenta of constrained systems are projected
"""

from __future__ import annotations

import ast

from ..exctypes import ExcTypes
from ..lincomb import LinComb, MethodExpander
from ..model import Program, call_name, norm
from ..poly import Rat
from ..report import AnalysisError
from ..stepexec import StepExecutor
from ..symexec import SymEnv
from . import c09, c12

PROP = "C04"


def S(x):
    return Rat.sym(x)


# ----------------------------------------------------------------------
# R3: path enumeration of one outer iteration
class PathExec:
    def __init__(self, max_unroll=3):
        self.max_unroll = max_unroll
        self.paths = 0

    def run(self, body, env: SymEnv, consts: dict):
        """Yield (kind, env) with kind in {'end', 'return', 'break'}; raise paths are dropped."""
        yield from self._seq(list(body), env, consts)

    def _clone(self, env: SymEnv) -> SymEnv:
        e = SymEnv(dict(env.env))
        e.calls = list(env.calls)
        return e

    def _seq(self, stmts, env, consts):
        if not stmts:
            yield "end", env
            return
        st, rest = stmts[0], stmts[1:]
        if isinstance(st, ast.Raise):
            return
        if isinstance(st, ast.Return):
            yield "return", env
            return
        if isinstance(st, ast.Break):
            yield "break", env
            return
        if isinstance(st, ast.If):
            tv = self._const_test(st.test, consts)
            arms = [(True, st.body), (False, st.orelse)] if tv is None else [(tv, st.body if tv else st.orelse)]
            for _t, arm in arms:
                for kind, e2 in self._seq(list(arm), self._clone(env), consts):
                    if kind == "end":
                        yield from self._seq(rest, e2, consts)
                    else:
                        yield kind, e2
            return
        if isinstance(st, ast.For):
            if not (isinstance(st.iter, ast.Call) and norm(st.iter.func) == "range" and isinstance(st.target, ast.Name)):
                raise AnalysisError(f"loop outside the path grammar: {norm(st.iter)[:50]}")
            # bounded unrolling: n = 1..max_unroll iterations, each either breaking or exhausting
            for n_iter in range(1, self.max_unroll + 1):
                for kind, e2 in self._unroll(st, 0, n_iter, self._clone(env), consts):
                    yield from self._seq(rest, e2, consts) if kind in ("end", "break") else [(kind, e2)]
            return
        if isinstance(st, ast.Try):
            yield from self._seq(list(st.body) + rest, env, consts)
            return
        if isinstance(st, ast.Assign) and isinstance(st.targets[0], ast.Tuple) and isinstance(st.value, ast.Call):
            # a, b = f(...): fresh symbols per element
            for i, t in enumerate(st.targets[0].elts):
                env.env[env.key(t)] = Rat.sym(f"{norm(t)}")
            yield from self._seq(rest, env, consts)
            return
        env.exec(st)
        yield from self._seq(rest, env, consts)

    def _unroll(self, loop, i, n_total, env, consts):
        """Run iteration i of exactly n_total: iterations before the last must not break."""
        c2 = dict(consts)
        c2[loop.target.id] = i
        last = i == n_total - 1
        for kind, e2 in self._seq(list(loop.body), env, c2):
            self.paths += 1
            if kind == "break":
                if last:
                    yield "break", e2
                # a break before the last iteration is the shorter unrolling's path
            elif kind == "end":
                if last:
                    yield "end", e2  # loop exhausted after n_total iterations
                else:
                    yield from self._unroll(loop, i + 1, n_total, e2, consts)
            else:
                yield kind, e2

    def _const_test(self, t, consts):
        if isinstance(t, ast.Compare) and len(t.ops) == 1 and isinstance(t.left, ast.Name) and t.left.id in consts and isinstance(t.comparators[0], ast.Constant):
            a, b = consts[t.left.id], t.comparators[0].value
            op = t.ops[0]
            return {ast.Gt: a > b, ast.GtE: a >= b, ast.Lt: a < b, ast.LtE: a <= b, ast.Eq: a == b, ast.NotEq: a != b}[type(op)]
        if isinstance(t, ast.BoolOp):
            vals = [self._const_test(v, consts) for v in t.values]
            if isinstance(t.op, ast.And):
                if any(v is False for v in vals):
                    return False
                if all(v is True for v in vals):
                    return True
            else:
                if any(v is True for v in vals):
                    return True
                if all(v is False for v in vals):
                    return False
        return None


def rule_r3(rep, program: Program, tier: str):
    r = rep.rule("R3", "Lagrange-multiplier bookkeeping on every path of one solver iteration (symbolic execution; inner line search unrolled)", floor=12)
    unroll = 4 if tier == "thorough" else 3
    for f in c12.solver_functions(program):
        if "projection" not in f.name:
            continue
        body = f.body_without_docstring()
        # pre-loop statements
        loops = [st for st in ast.walk(f.node) if isinstance(st, ast.For) and norm(st.iter) == "range(max_iters)"]
        if len(loops) != 1:
            raise AnalysisError(f"{f.name}: main iteration loop not found")
        loop = loops[0]
        pre = [st for st in body if st.lineno < loop.lineno and not any(x is loop for x in ast.walk(st))]
        # mu initialised to zero
        mu0 = [st for st in pre if isinstance(st, ast.Assign) and norm(st.targets[0]) == "mu"]
        ok = mu0 and isinstance(mu0[0].value, ast.Call) and call_name(mu0[0].value) in ("np.zeros_like", "np.zeros")
        r.inst({"solver": f.name, "mu initialised": norm(mu0[0].value) if mu0 else None})
        if not ok:
            r.violate(PROP, f"{f.name}:mu-init", "the accumulated multiplier mu does not start at zero", node=f.node, file=f.file)
        # flow derivatives requested at abs(time_step) for the previous state
        dfl = [st for st in pre if isinstance(st, ast.Assign) and isinstance(st.value, ast.Call) and call_name(st.value).endswith("dh2_flow_dmom")]
        if not dfl:
            raise AnalysisError(f"{f.name}: dh2_flow_dmom call not found")
        args = [norm(a) for a in dfl[0].value.args]
        r.inst({"solver": f.name, "dh2_flow_dmom args": args})
        if args != ["state_prev", "abs(time_step)"]:
            r.violate(PROP, f"{f.name}:dh2_flow_dmom-args:{args}", "the flow Jacobians are not requested at abs(time_step) for the pre-flow state (the momentum correction below applies the sign separately)", node=dfl[0], file=f.file)
        names = [norm(t) for t in dfl[0].targets[0].elts] if isinstance(dfl[0].targets[0], ast.Tuple) else []
        if len(names) != 2:
            raise AnalysisError(f"{f.name}: dh2_flow_dmom result is not unpacked into two names")
        dpos, dmom = names
        # one outer iteration from a symbolic state
        px = PathExec(max_unroll=unroll)
        env0 = SymEnv({"mu": S("MU0"), "state.pos": S("Q0"), "state.mom": S("P0"), "step_size": S("STEP0"), "delta_pos": S("DPOS0")})
        n_end = n_ret = 0
        for kind, env in px.run(loop.body, env0, {loop.target.id: 1}):
            dmu = env.env["mu"] - S("MU0")
            dq = env.env["state.pos"] - S("Q0")
            if kind in ("end",):
                n_end += 1
                want = -(S(dpos) * dmu)
                if not dq.equals(want):
                    r.violate(PROP, f"{f.name}:pos-vs-mu:{dq!r}!={want!r}"[:170], f"on a path through one iteration the position changes by {dq!r} while the multiplier changes by {dmu!r}: the position is not pos + dh2_flow_pos_dmom @ (-delta mu), so the returned (pos, mom) is not Phi2(t) o Pi(lambda) for any single lambda", node=loop, file=f.file)
            elif kind == "return":
                n_ret += 1
                if not dq.is_zero() or not dmu.is_zero():
                    r.violate(PROP, f"{f.name}:return-after-update", "position or multiplier is modified between the convergence test and the return", node=loop, file=f.file)
                dp = env.env["state.mom"] - S("P0")
                want = -(S("sgn[time_step]") * S(dmom) * S("MU0"))
                if not dp.equals(want):
                    r.violate(PROP, f"{f.name}:mom-correction:{dp!r}"[:170], f"on return the momentum changes by {dp!r}; the Lagrange-multiplier form requires -sign(time_step) * dh2_flow_mom_dmom @ mu", node=loop, file=f.file)
        r.inst({"solver": f.name, "iteration paths": n_end, "return paths": n_ret, "unroll bound": unroll})
        if n_end == 0 or n_ret == 0:
            raise AnalysisError(f"{f.name}: no complete iteration / return path found")
        # delta_mu lies in the range of jacob_constr_prev.T
        dm = [st for st in ast.walk(loop) if isinstance(st, ast.Assign) and norm(st.targets[0]) == "delta_mu"]
        for st in dm:
            v = st.value
            ok = isinstance(v, ast.BinOp) and isinstance(v.op, ast.MatMult) and norm(v.left) == "jacob_constr_prev.T"
            r.inst({"solver": f.name, "delta_mu": norm(v)[:60]})
            if not ok:
                r.violate(PROP, f"{f.name}:delta_mu:{norm(v)[:50]}", "the multiplier increment is not jacob_constr_prev.T @ (...): the momentum correction leaves the span of the previous constraint normals", node=st, file=f.file)
        jp = [st for st in pre if isinstance(st, ast.Assign) and norm(st.targets[0]) == "jacob_constr_prev"]
        if not jp or norm(jp[0].value) != "system.jacob_constr(state_prev)":
            r.violate(PROP, f"{f.name}:jacob_constr_prev", "jacob_constr_prev is not the constraint Jacobian at the pre-flow state", node=f.node, file=f.file)
    return r


# ----------------------------------------------------------------------
def rule_r4(rep, program: Program):
    r = rep.rule("R4", "constrained integrator: h1_flow -> cotangent projection; h2_flow -> retraction (against the pre-flow copy) -> cotangent projection", floor=3)
    k = program.cls("ConstrainedLeapfrogIntegrator")
    events = StepExecutor(program, k).run()

    def check_block(block):
        evs = [e for e in block if e.kind in ("flow", "project", "retract", "update", "loop", "copy")]
        for i, e in enumerate(evs):
            if e.kind == "loop":
                check_block(e.body)
                continue
            if e.kind != "flow":
                continue
            same = [x for x in evs[i + 1 :] if x.kind == "loop" or x.obj == e.obj]
            nxt = same[0] if same else None
            r.inst({"flow": f"{e.prim}[{e.obj}] in {e.func}", "followed by": nxt.kind if nxt else None})
            if e.prim == "h1_flow":
                if e.obj == "S" and (nxt is None or nxt.kind != "project"):
                    r.violate(PROP, f"{e.func}:h1_flow-not-projected", "the momentum kick is not followed by the projection onto the cotangent space: the momentum leaves the cotangent space of the manifold", node=e.node, file=k.module.path)
            else:
                if nxt is None or nxt.kind != "retract":
                    r.violate(PROP, f"{e.func}:h2_flow-not-retracted:{e.obj}", "the unconstrained h2 flow is not followed by the retraction onto the manifold", node=e.node, file=k.module.path)
                    continue
                # the retraction must use the copy taken before the flow as previous state
                prev = nxt.info.get("prev")
                copies = [c for c in evs[:i] if c.kind == "copy" and c.obj == prev and c.info.get("src") == e.obj]
                ok_prev = bool(copies) or (e.obj != "S" and prev == "S") or (e.obj != "S" and any(c.kind == "copy" and c.obj == e.obj and c.info.get("src") == prev for c in evs[:i]))
                if not ok_prev:
                    r.violate(PROP, f"{e.func}:retraction-prev:{prev}", f"the retraction after the h2 flow is given `{prev}` as the pre-flow state, which is not a copy of the state taken before the flow", node=nxt.node, file=k.module.path)
                if not (nxt.coeff - e.coeff).is_zero():
                    r.violate(PROP, f"{e.func}:retraction-time:{nxt.coeff!r}", "the retraction is given a different time step than the flow it corrects", node=nxt.node, file=k.module.path)
                if e.obj == "S":
                    after = [x for x in same[1:] if x.kind != "copy"]
                    if not after or after[0].kind != "project":
                        r.violate(PROP, f"{e.func}:retraction-not-projected", "after the retraction the momentum is not projected onto the cotangent space at the new position", node=nxt.node, file=k.module.path)

    check_block(events)
    # the helper really calls the configured solver after the flow with (state, state_prev, t, system)
    f = k.methods.get("_h2_flow_retraction_onto_manifold")
    if f is not None:
        aliases = {"self.projection_solver"} | {a.targets[0].id for a in ast.walk(f.node) if isinstance(a, ast.Assign) and len(a.targets) == 1 and isinstance(a.targets[0], ast.Name) and norm(a.value) == "self.projection_solver"}
        calls = [c for c in ast.walk(f.node) if isinstance(c, ast.Call) and norm(c.func) in aliases]
        ok = calls and [norm(a) for a in calls[0].args] == [f.params[1], f.params[2], f.params[3], "self.system"]
        r.inst({"projection_solver args": [norm(a) for a in calls[0].args] if calls else None})
        if not ok:
            r.violate(PROP, f"{f.qualname}:solver-args", "the projection solver is not called with (state, state_prev, time_step, system)", node=f.node, file=f.file)
    return r


def _rewrite(lc: LinComb, rules) -> LinComb:
    out = LinComb.zero()
    for w, c in lc.t.items():
        w = list(w)
        changed = True
        guard = 0
        while changed:
            changed = False
            guard += 1
            if guard > 50:
                raise AnalysisError("rewriting did not terminate")
            for pat, rep_ in rules:
                n = len(pat)
                for i in range(len(w) - n + 1):
                    if tuple(w[i : i + n]) == tuple(pat):
                        w[i : i + n] = list(rep_)
                        changed = True
                        break
                if changed:
                    break
        out = out + LinComb({tuple(w): c})
    return out


def rule_r5_r6(rep, program: Program):
    r5 = rep.rule("R5", "cotangent projection annihilates the velocity constraint: J @ dh2_dmom-operator @ (I - projection) == 0 (operator words, gram taken from the code)", floor=2)
    r6 = rep.rule("R6", "sampled momenta of constrained systems are projected onto the cotangent space", floor=2)
    ks = [k for k in c09.system_classes(program) if k.is_subclass_of("ConstrainedTractableFlowSystem")]
    if len(ks) < 2:
        raise AnalysisError("constrained system classes not found")
    for k in ks:
        f = k.resolve("project_onto_cotangent_space")
        pm, ps = f.params[1], f.params[2]
        ex = MethodExpander(program, k, {"inv_gram"}, {})
        aug = [st for st in f.body_without_docstring() if isinstance(st, ast.AugAssign) and norm(st.target) == pm]
        ret = [st for st in f.body_without_docstring() if isinstance(st, ast.Return)]
        if len(aug) != 1 or not ret or norm(ret[0].value) != pm:
            raise AnalysisError(f"{f.qualname}: not of the form `mom op= ...; return mom`")
        corr = ex.ev(f, aug[0].value, {})
        P = LinComb.atom(pm) - corr if isinstance(aug[0].op, ast.Sub) else LinComb.atom(pm) + corr
        # gram word from the code
        g = k.resolve("gram")
        gret = [n for n in ast.walk(g.node) if isinstance(n, ast.Return)][0].value
        if not (isinstance(gret, ast.Call) and norm(gret.func) == "self.jacob_constr_inner_product"):
            raise AnalysisError(f"{g.qualname}: not a jacob_constr_inner_product(...) call")
        ip = k.resolve("jacob_constr_inner_product")
        binding = dict(zip(ip.params[1:], [norm(a).replace(g.params[1], ps) for a in gret.args]))
        # first return of the inner product with jacob_constr_2 defaulting to jacob_constr_1
        iret = sorted((n for n in ast.walk(ip.node) if isinstance(n, ast.Return)), key=lambda n: n.lineno)
        # gram() passes no second Jacobian: it defaults to the first one
        for pname in ip.params[1:]:
            if pname not in binding and pname.startswith("jacob_constr"):
                binding[pname] = binding[ip.params[1]]
        iexpr = None
        for n in iret:
            c = n.value
            if isinstance(c, ast.Call) and c.args:
                iexpr = c.args[0]
                break
        if iexpr is None:
            raise AnalysisError(f"{ip.qualname}: product expression not found")
        exi = MethodExpander(program, k, set(), {})
        gw = exi.ev(ip, iexpr, {})
        # substitute parameter names by the bound argument texts
        def subst_word(w):
            out = []
            for a in w:
                if isinstance(a, str):
                    base, suffix = (a[:-2], ".T") if a.endswith(".T") else (a, "")
                    out.append(binding.get(base, base) + suffix)
                else:
                    out.append(a)
            return tuple(out)
        if len(gw.t) != 1:
            raise AnalysisError(f"{ip.qualname}: inner product is not a single product")
        (gword, gc), = gw.t.items()
        gword = subst_word(gword)
        J = f"self.jacob_constr({ps})"
        Ginv = f"self.gram({ps}).inv"
        # velocity operator from dh2_dmom: word without the trailing momentum
        dh = k.resolve("dh2_dmom")
        exd = MethodExpander(program, k, set(), {})
        dv = exd.ev(dh, [n for n in ast.walk(dh.node) if isinstance(n, ast.Return)][0].value, {})
        if len(dv.t) != 1:
            raise AnalysisError(f"{dh.qualname}: not a single product")
        (dword, dc), = dv.t.items()
        if dword[-1] != f"{dh.params[1]}.mom":
            raise AnalysisError(f"{dh.qualname}: not of the form A @ mom")
        A = dword[:-1]
        lhs = LinComb({(J, *A): dc}).matmul(P)
        res = _rewrite(lhs, [(gword, ("<G>",)), (("<G>", Ginv), ()), ((Ginv, "<G>"), ())])
        r5.inst({"class": k.name, "projection": repr(P)[:160], "gram word": list(gword), "velocity operator": list(A), "J A P reduces to": repr(res)[:120]})
        if not res.is_zero():
            r5.violate(PROP, f"{f.qualname}:JAP={res!r}"[:170], f"J @ dh2_dmom-operator @ projection does not vanish for {k.name}: it reduces to {res!r}; projected momenta are not in the cotangent space (J M^-1 p != 0)", node=f.node, file=f.file)
        # both returns of the inner product denote J1 @ M @ J2^T (J2 defaulting to J1)
        for n in iret:
            c = n.value
            if not (isinstance(c, ast.Call) and c.args):
                continue
            w = exi.ev(ip, c.args[0], {})
            p1, pm_, p2 = ip.params[1], ip.params[2], ip.params[3] if len(ip.params) > 3 else None
            if len(w.t) != 1:
                raise AnalysisError(f"{ip.qualname}: inner product is not a single product")
            (ww, wc), = w.t.items()
            second = ww[2][:-2] if len(ww) == 3 and isinstance(ww[2], str) and ww[2].endswith(".T") else None
            ok = len(ww) == 3 and ww[0] == p1 and ww[1] == pm_ and second in (p1, p2) and wc.equals(Rat.const(1))
            r5.inst({"class": k.name, "inner product": list(ww), "ok": ok})
            if not ok:
                r5.violate(PROP, f"{ip.qualname}:product:{list(ww)}"[:150], f"jacob_constr_inner_product computes {list(ww)} (coefficient {wc!r}) instead of jacob_constr_1 @ inner_product_matrix @ jacob_constr_2.T: the Gram matrix / Newton system of the projection is wrong", node=n, file=ip.file)
        # R6
        sm = k.resolve("sample_momentum")
        rets = [n for n in ast.walk(sm.node) if isinstance(n, ast.Return)]
        v = rets[-1].value
        ok = isinstance(v, ast.Call) and norm(v.func) == "self.project_onto_cotangent_space"
        src_ok = False
        if ok:
            a0 = v.args[0]
            defs = {norm(st.targets[0]): st.value for st in ast.walk(sm.node) if isinstance(st, ast.Assign)}
            val = defs.get(norm(a0), a0)
            src_ok = isinstance(val, ast.Call) and "sample_momentum" in norm(val.func)
        r6.inst({"class": k.name, "sample_momentum": sm.qualname, "returns": norm(v)[:70]})
        if not ok or not src_ok:
            r6.violate(PROP, f"{sm.qualname}:unprojected", f"sample_momentum resolved for {k.name} does not return the cotangent projection of the freshly sampled momentum", node=sm.node, file=sm.file)
    for rr in (r5, r6):
        seen, uniq = set(), []
        for fd in rr.findings:
            if fd.key not in seen:
                seen.add(fd.key)
                uniq.append(fd)
        rr.findings = uniq
    return r5, r6


def run(rep, program: Program, tier: str) -> None:
    rep.explanation = (
        "Must-facts dataflow for the convergence-guarded returns of the three projection solvers; "
        "path-enumerating symbolic execution of one solver iteration (rational polynomials) for the "
        "Lagrange-multiplier bookkeeping; event-sequence rule for the projection pairing in the "
        "constrained integrator; operator-word rewriting for the cotangent projection."
    )
    rep.assumptions = [
        "h2_flow is linear in the momentum (documented assumption of the solvers), so arrays are modelled as commutative scalars in R3",
        "numerical satisfaction of the tolerances for every constraint function is not decided",
        f"R3 unrolls the inner line search to a bounded number of iterations",
    ]
    et = ExcTypes(program)
    rep.isolate(c12.rule_r1_r2, rep, program, et, prop=PROP, only_projection=True)
    rep.isolate(rule_r3, rep, program, tier)
    rep.isolate(rule_r4, rep, program)
    rep.isolate(rule_r5_r6, rep, program)
    # the constraint Jacobian / Gram matrix a projection reads from the state's cache must be those of the
    # system doing the projection, not of another system object evaluated on the state before (shared with C09-R6)
    from . import c09

    rep.isolate(c09.rule_r6, rep, program, prop=PROP, rule="R7")
    # a state restored from a pickle / deep copy must keep invalidating its cached constraint values, or the
    # projection solvers read a stale zero residual and return off the manifold (shared with C09-R5)
    rep.isolate(c09.rule_r5, rep, program, prop=PROP, rule="R8")
    # "otherwise it raises a convergence error": value and linear-algebra errors inside the projection solvers'
    # iterations are converted, none escapes as a foreign exception (shared with C12-R3)
    rep.isolate(c12.rule_r3, rep, program, et, prop=PROP, rule="R9", only_projection=True)
    # the solvers' update `mom -= dh2_flow_dmom-block @ multipliers` is the Lagrange-multiplier form of the constrained step
    # only if dh2_flow_dmom is the derivative of the flow actually applied (shared with C07-R3)
    from . import c07

    rep.isolate(c07.rule_r3, rep, program, prop=PROP, rule="R10")
    # the cotangent projection uses gram(state), cached on the position but built from the metric: after an adapter
    # replaces system.metric the states must be invalidated before momenta are re-drawn / projected (shared with C09-R10)
    rep.isolate(c09.rule_r10, rep, program, prop=PROP, rule="R11")
