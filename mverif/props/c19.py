"""C19 - matrix objects behave as immutable values.

 R1 effects in matrices.py: outside constructors only lazy slots are assigned, each under its own
    `is None` guard (or in a helper called only under such a guard); no in-place mutation of an
    operand, a parameter, a self attribute or anything that may alias one (matrix products may
    return their operand); no overwrite_* flags
 R2 ndarray constructor parameters that are retained are frozen (routed through Matrix.__init__'s
    keyword arguments or wrapped in another matrix object)
 R3 equality covers every constructor parameter the dense array depends on; hash uses only
    parameters that equality compares; __eq__ compares classes
"""

from __future__ import annotations

import ast

from ..model import ClassInfo, FuncInfo, Program, call_name, is_self_attr, norm, execution_condition
from ..report import AnalysisError

PROP = "C19"

MUTATING_METHODS = {"sort", "fill", "resize", "put", "itemset", "partition", "setflags", "byteswap"}
MUTATING_FUNCS = {"np.fill_diagonal", "np.copyto", "np.put", "np.place", "np.putmask", "np.add.at"}
VIEW_FUNCS = {"np.asfortranarray", "np.asarray_chkfinite", "np.require", "np.atleast_3d", "np.asarray", "np.asanyarray", "np.atleast_1d", "np.atleast_2d", "np.broadcast_to", "np.ravel", "np.reshape", "np.transpose", "np.squeeze", "np.ascontiguousarray", "np.diagonal", "np.triu", "np.tril"}
VIEW_METHODS = {"view", "reshape", "ravel", "squeeze", "transpose", "swapaxes", "diagonal"}
VIEW_ATTRS = {"T", "real", "imag", "flat"}


def matrix_functions(program: Program):
    m = program.module("matrices")
    fs = list(m.functions.values())
    for c in m.classes.values():
        fs += list(c.methods.values())
    return fs


def may_alias(e: ast.expr, f: FuncInfo, local_defs, depth=0):
    """Name of the parameter / self attribute that the value of e may alias (share memory
    with), else None.  Conservative about matrix products: `X @ p` may return p itself."""
    if depth > 6:
        return None
    params = set(f.params) - {"self"}
    if isinstance(e, ast.Name):
        if e.id in params and e.id not in local_defs:
            return e.id
        if e.id in local_defs:
            for v in local_defs[e.id]:
                a = may_alias(v, f, local_defs, depth + 1)
                if a:
                    return a
            if e.id in params:
                return e.id
        return None
    if isinstance(e, ast.Attribute):
        if is_self_attr(e):
            return f"self.{e.attr}"
        if e.attr in VIEW_ATTRS or e.attr in ("array", "diagonal", "_array"):
            return may_alias(e.value, f, local_defs, depth + 1)
        return None
    if isinstance(e, ast.Subscript):
        return may_alias(e.value, f, local_defs, depth + 1)
    if isinstance(e, ast.BinOp):
        if isinstance(e.op, ast.MatMult):
            return may_alias(e.left, f, local_defs, depth + 1) or may_alias(e.right, f, local_defs, depth + 1)
        return None  # arithmetic allocates
    if isinstance(e, ast.IfExp):
        return may_alias(e.body, f, local_defs, depth + 1) or may_alias(e.orelse, f, local_defs, depth + 1)
    if isinstance(e, ast.Call):
        cn = call_name(e)
        if cn in VIEW_FUNCS and e.args:
            return may_alias(e.args[0], f, local_defs, depth + 1)
        if cn in ("np.einsum", "numpy.einsum") and len(e.args) == 2 and isinstance(e.args[0], ast.Constant) and "->" in str(e.args[0].value):
            return may_alias(e.args[1], f, local_defs, depth + 1)
        if isinstance(e.func, ast.Attribute) and e.func.attr in VIEW_METHODS:
            return may_alias(e.func.value, f, local_defs, depth + 1)
        # internal multiply helpers may hand back their operand (identity-like matrices do)
        if isinstance(e.func, ast.Attribute) and e.func.attr in ("_left_matrix_multiply", "_right_matrix_multiply") and e.args:
            return may_alias(e.args[0], f, local_defs, depth + 1)
        return None
    return None


def rule_r1(rep, program: Program, prop=PROP, rule="R1", only_inplace=False):
    r = rep.rule(rule, "matrices.py: only guarded lazy slots are assigned outside constructors; no in-place mutation of anything that may alias an operand, parameter or attribute", floor=150)
    slots = set()
    for f in matrix_functions(program):
        # module-level helpers take part in clause (b): they receive the caller's arrays too
        local_defs = {}
        for n in ast.walk(f.node):
            if isinstance(n, ast.Assign) and len(n.targets) == 1 and isinstance(n.targets[0], ast.Name):
                local_defs.setdefault(n.targets[0].id, []).append(n.value)
            if isinstance(n, ast.For) and isinstance(n.target, ast.Name):
                local_defs.setdefault(n.target.id, []).append(n.iter)
            # unpacking: each name may be (a view of) an element of the unpacked value
            if isinstance(n, ast.Assign) and len(n.targets) == 1 and isinstance(n.targets[0], (ast.Tuple, ast.List)):
                elts = n.targets[0].elts
                if isinstance(n.value, (ast.Tuple, ast.List)) and len(n.value.elts) == len(elts):
                    pairs = list(zip(elts, n.value.elts))
                else:
                    pairs = [(t, n.value) for t in elts]
                for t, v in pairs:
                    t = t.value if isinstance(t, ast.Starred) else t
                    if isinstance(t, ast.Name):
                        local_defs.setdefault(t.id, []).append(v)
            if isinstance(n, ast.For) and isinstance(n.target, (ast.Tuple, ast.List)):
                for t in n.target.elts:
                    if isinstance(t, ast.Name):
                        its = n.iter.args if isinstance(n.iter, ast.Call) and call_name(n.iter) in ("zip", "enumerate") else [n.iter]
                        for it in its:
                            local_defs.setdefault(t.id, []).append(it)
            if isinstance(n, ast.NamedExpr) and isinstance(n.target, ast.Name):
                local_defs.setdefault(n.target.id, []).append(n.value)
        r.inst({"function": f.qualname}, exercised=True)
        # ---- (a) attribute stores outside constructors
        if f.cls is not None and f.name != "__init__" and not only_inplace:
            for n in ast.walk(f.node):
                tg = []
                if isinstance(n, ast.Assign):
                    for t in n.targets:
                        tg += t.elts if isinstance(t, ast.Tuple) else [t]
                elif isinstance(n, (ast.AugAssign, ast.AnnAssign)):
                    tg = [n.target]
                for t in tg:
                    if not is_self_attr(t):
                        continue
                    slot = t.attr
                    if isinstance(n, ast.AugAssign):
                        r.violate(prop, f"{f.qualname}:augassign:self.{slot}", f"`{norm(n)[:50]}` updates attribute {slot} in place after construction", node=n, file=f.file)
                        continue
                    guarded = _guarded_by_none_test(f, n, slot) or _helper_only_called_under_guard(program, f, slot)
                    slots.add(f"{f.cls.name}.{slot}")
                    if not guarded:
                        r.violate(prop, f"{f.qualname}:stores:self.{slot}", f"`self.{slot}` is assigned in {f.qualname} outside a `self.{slot} is None` lazy-initialisation guard: the object changes after construction (results depend on which members were used before)", node=n, file=f.file)
        # ---- (b) in-place mutation
        for n in ast.walk(f.node):
            what = None
            tgt = None
            if isinstance(n, ast.AugAssign) and isinstance(n.target, (ast.Name, ast.Subscript)):
                tgt = n.target if isinstance(n.target, ast.Name) else n.target.value
                what = f"`{norm(n)[:50]}`"
            elif isinstance(n, ast.Assign):
                for t in n.targets:
                    if isinstance(t, ast.Subscript) and not (isinstance(t.value, ast.Name) and t.value.id == "kwargs") and norm(t.value) != "self.__dict__":
                        tgt = t.value
                        what = f"`{norm(n)[:50]}`"
            elif isinstance(n, ast.Call):
                cn = call_name(n)
                for kw in n.keywords:
                    if kw.arg == "out":
                        tgt, what = kw.value, f"`out=` in `{norm(n)[:40]}`"
                    if kw.arg in ("overwrite_a", "overwrite_b", "overwrite_x") and isinstance(kw.value, ast.Constant) and kw.value.value is True:
                        arg = n.args[0] if n.args else None
                        a = may_alias(arg, f, local_defs) if arg is not None else None
                        if a:
                            r.violate(prop, f"{f.qualname}:{kw.arg}:{a}", f"`{norm(n)[:50]}` lets LAPACK overwrite `{a}`", node=n, file=f.file)
                if cn in MUTATING_FUNCS and n.args:
                    tgt, what = n.args[0], f"`{norm(n)[:50]}`"
                if isinstance(n.func, ast.Attribute) and n.func.attr in MUTATING_METHODS:
                    tgt, what = n.func.value, f"`{norm(n)[:50]}`"
            if tgt is None:
                continue
            a = may_alias(tgt, f, local_defs)
            if isinstance(tgt, ast.Name) and tgt.id in (set(f.params) - {"self"}) and tgt.id not in local_defs:
                a = tgt.id
            if a and not (f.name == "__init__" and a.startswith("self.") is False and isinstance(n, ast.Assign) and False):
                r.violate(prop, f"{f.qualname}:inplace:{a}:{norm(n)[:40]}", f"{what} modifies memory that may belong to `{a}` (a caller-supplied operand / parameter or an attribute of the matrix; matrix products such as an identity may hand back their operand unchanged): the operand or the matrix itself is changed by an operation", node=n, file=f.file)
    rep.extra["lazy_slots"] = sorted(slots)
    return r


def _guarded_by_none_test(f: FuncInfo, node, slot: str) -> bool:
    # conditions under which the store executes (enclosing ifs and earlier guard clauses such as
    # `if self._x is not None: return self._x`): one of them must say "the slot is still None"
    stmt = node
    # locals holding the slot's value when the test is made: `x = self._slot` (bound once) or `(x := self._slot)`
    aliases = {f"self.{slot}"}
    counts = {}
    for n in ast.walk(f.node):
        if isinstance(n, ast.Name) and isinstance(n.ctx, ast.Store):
            counts[n.id] = counts.get(n.id, 0) + 1
    for n in ast.walk(f.node):
        if isinstance(n, ast.NamedExpr) and norm(n.value) == f"self.{slot}":
            aliases.add(n.target.id)
            aliases.add(norm(n))
        if isinstance(n, ast.Assign) and len(n.targets) == 1 and isinstance(n.targets[0], ast.Name) and norm(n.value) == f"self.{slot}":
            # later re-bindings of the alias happen inside the guarded arm (the freshly constructed value)
            aliases.add(n.targets[0].id)
    for e, truth in execution_condition(f.node, stmt, stop_at=(ast.FunctionDef,)):
        for lit in (e.values if isinstance(e, ast.BoolOp) and ((isinstance(e.op, ast.And) and truth) or (isinstance(e.op, ast.Or) and not truth)) else [e]):
            neg = False
            while isinstance(lit, ast.UnaryOp) and isinstance(lit.op, ast.Not):
                lit, neg = lit.operand, not neg
            if isinstance(lit, ast.Compare) and len(lit.ops) == 1 and norm(lit.left) in aliases and norm(lit.comparators[0]) == "None":
                is_none = isinstance(lit.ops[0], (ast.Is, ast.Eq))
                if (is_none != neg) == truth:
                    return True
    for n in ast.walk(f.node):
        if isinstance(n, ast.If) and any(x is node for s in n.body for x in ast.walk(s)):
            t = norm(n.test)
            if f"self.{slot} is None" in t:
                return True
            # paired slots initialised together: the guard tests another slot that the same body fills
            stored = {tt.attr for s in n.body for x in ast.walk(s) if isinstance(x, ast.Assign) for t2 in x.targets for tt in (t2.elts if isinstance(t2, ast.Tuple) else [t2]) if is_self_attr(tt)}
            if any(f"self.{o} is None" in t for o in stored):
                return True
    return False


def _helper_only_called_under_guard(program: Program, f: FuncInfo, slot: str) -> bool:
    """f stores the slot; accept if every call of f (self.f()) in the module sits under a guard
    mentioning `self.<slot> is None`."""
    sites = 0
    for g in matrix_functions(program):
        for n in ast.walk(g.node):
            if isinstance(n, ast.If) and f"self.{slot} is None" in norm(n.test):
                for s in n.body:
                    for c in ast.walk(s):
                        if isinstance(c, ast.Call) and is_self_attr(c.func, f.name):
                            sites += 1
    total = sum(1 for g in matrix_functions(program) for c in ast.walk(g.node) if isinstance(c, ast.Call) and is_self_attr(c.func, f.name))
    return total > 0 and sites == total


# ----------------------------------------------------------------------
def attr_sources(program: Program, k: ClassInfo):
    """attr -> set of K's constructor parameter names that feed it (through super().__init__
    and Cls.__init__(self, ...) chains); also the set of attrs that are frozen by
    Matrix.__init__ (passed as keyword arguments)."""
    out: dict[str, set] = {}
    frozen: set[str] = set()
    wrapped: dict[str, set] = {}
    derived: dict[str, set] = {}

    def params_of(e, binding):
        s = set()
        for n in ast.walk(e):
            if isinstance(n, ast.Name) and n.id in binding:
                s |= binding[n.id]
        return s

    def process(cls: ClassInfo, binding: dict, depth=0):
        f = cls.methods.get("__init__")
        if f is None:
            # inherit: next class in K's MRO after cls
            i = k.mro.index(cls)
            for c in k.mro[i + 1 :]:
                if "__init__" in c.methods:
                    return process(c, binding, depth)
            return
        if depth > 8:
            raise AnalysisError("constructor chain too deep")
        local = dict(binding)
        local_wrapped = set()
        def wraps(v):
            """The value is a matrix object whenever the parameter it comes from is an ndarray."""
            if isinstance(v, ast.Call) and norm(v.func) in program.classes:
                return True
            if isinstance(v, ast.Name) and v.id in local_wrapped:
                return True
            if isinstance(v, ast.IfExp):
                t, neg = v.test, False
                if isinstance(t, ast.UnaryOp) and isinstance(t.op, ast.Not):
                    t, neg = t.operand, True
                if isinstance(t, ast.Call) and norm(t.func) == "isinstance" and len(t.args) == 2 and "ndarray" in norm(t.args[1]):
                    return wraps(v.orelse if neg else v.body)
                return wraps(v.body) and wraps(v.orelse)
            return False

        for st in ast.walk(f.node):
            if isinstance(st, ast.Assign) and len(st.targets) == 1 and isinstance(st.targets[0], ast.Name):
                local[st.targets[0].id] = local.get(st.targets[0].id, set()) | params_of(st.value, local)
                for c in ast.walk(st.value):
                    if isinstance(c, ast.Call) and norm(c.func) in program.classes:
                        local_wrapped.add(st.targets[0].id)
        for st in ast.walk(f.node):
            if isinstance(st, ast.Assign):
                for t in st.targets:
                    for tt in (t.elts if isinstance(t, ast.Tuple) else [t]):
                        if is_self_attr(tt):
                            out.setdefault(tt.attr, set()).update(params_of(st.value, local))
                            if wraps(st.value):
                                wrapped.setdefault(tt.attr, set()).update(params_of(st.value, local))
                            if _fresh_value(st.value):
                                derived.setdefault(tt.attr, set()).update(params_of(st.value, local))
            if isinstance(st, ast.Call):
                cn = call_name(st)
                target = None
                offset = 0
                if cn == "super().__init__":
                    i = k.mro.index(cls)
                    for c in k.mro[i + 1 :]:
                        if "__init__" in c.methods:
                            target = c
                            break
                elif cn.endswith(".__init__") and cn.split(".")[0] in program.classes:
                    target = program.classes[cn.split(".")[0]]
                    offset = 1
                if target is None:
                    continue
                g = target.methods["__init__"]
                gps = g.params[1:]
                nb = {}
                for p, a in zip(gps, st.args[offset:]):
                    nb[p] = params_of(a, local)
                for kw in st.keywords:
                    if kw.arg is None:
                        # **kwargs passthrough
                        for kk, vv in local.items():
                            if kk.startswith("kw:"):
                                nb[kk] = vv
                        continue
                    if kw.arg in gps:
                        nb[kw.arg] = params_of(kw.value, local)
                    else:
                        nb[f"kw:{kw.arg}"] = params_of(kw.value, local)
                if target.name == "Matrix":
                    for kk, vv in nb.items():
                        if kk.startswith("kw:"):
                            out.setdefault(kk[3:], set()).update(vv)
                            frozen.add(kk[3:])
                    if "shape" in nb:
                        out.setdefault("_shape", set()).update(nb["shape"])
                else:
                    process(target, nb, depth + 1)

    init = k.resolve("__init__")
    binding = {p: {p} for p in init.params[1:]}
    if init.node.args.kwarg:
        binding[init.node.args.kwarg.arg] = set()
    process(init.cls, binding)
    for at, ps in derived.items():
        wrapped.setdefault(at, set()).update(ps)  # freshly computed values are not the caller's array
    return out, frozen, wrapped, init


def _fresh_value(e) -> bool:
    """The value is a newly allocated object (result of a computing call or arithmetic), not an
    alias of a parameter."""
    if isinstance(e, ast.Call):
        cn = call_name(e)
        if cn in VIEW_FUNCS or (isinstance(e.func, ast.Attribute) and e.func.attr in VIEW_METHODS):
            return False
        return cn not in ("tuple", "list")
    if isinstance(e, ast.BinOp) and not isinstance(e.op, ast.MatMult):
        return True
    return False


def reads_transitive(program: Program, k: ClassInfo, fname: str, seen=None) -> set[str]:
    """self attributes read by the method fname resolved in K, through self properties/methods."""
    seen = seen if seen is not None else set()
    f = k.resolve(fname)
    if f is None or f.qualname in seen:
        return set()
    seen.add(f.qualname)
    out = set()
    for n in ast.walk(f.node):
        if is_self_attr(n) and isinstance(n.ctx, ast.Load):
            g = k.resolve(n.attr)
            if g is not None and g is not f:
                out |= reads_transitive(program, k, n.attr, seen)
            elif g is None:
                out.add(n.attr)
        # `self @ x` / x @ self uses the multiply members
        if isinstance(n, ast.BinOp) and isinstance(n.op, ast.MatMult):
            for side, meth in ((n.left, "_left_matrix_multiply"), (n.right, "_right_matrix_multiply")):
                if isinstance(side, ast.Name) and side.id == "self":
                    out |= reads_transitive(program, k, meth, seen)
        if isinstance(n, ast.Call) and isinstance(n.func, ast.Attribute) and isinstance(n.func.value, ast.Call) and call_name(n.func.value) == "super":
            g = k.resolve_super(f.cls, n.func.attr)
            if g is not None:
                sub = ClassInfo  # noqa: F841
                out |= _reads_func(program, k, g, seen)
    return out


def _reads_func(program, k, f, seen):
    if f.qualname in seen:
        return set()
    seen.add(f.qualname)
    out = set()
    for n in ast.walk(f.node):
        if is_self_attr(n) and isinstance(n.ctx, ast.Load):
            g = k.resolve(n.attr)
            if g is not None and g is not f:
                out |= reads_transitive(program, k, n.attr, seen)
            elif g is None:
                out.add(n.attr)
    return out


# attributes that by constructor contract are determined by another compared attribute
SUPPRESS = {
    ("InverseTriangularMatrix", "lower"): "for a triangular array the flag is determined by the array (contract of make_triangular=False)",
    ("InverseLUFactoredSquareMatrix", "inv_lu_and_piv"): "by constructor contract the LU factors are the factorisation of inv_array, which equality compares",
    ("InverseLUFactoredSquareMatrix", "inv_lu_transposed"): "by constructor contract the LU factors are the factorisation of inv_array, which equality compares",
}
DERIVABLE_OPTIONAL = {"factor", "lu_and_piv", "lu_transposed", "eigvec", "eigval", "capacitance_matrix", "make_triangular", "check_shapes", "factor_is_lower", "is_posdef"}


def rule_r2_r3(rep, program: Program):
    r2 = rep.rule("R2", "retained ndarray constructor parameters are frozen (Matrix.__init__ keyword) or wrapped in a matrix object", floor=20)
    r3 = rep.rule("R3", "equality covers every constructor parameter the array depends on; hash parameters subset of equality parameters; __eq__ compares classes", floor=25)
    # the freezing mechanism itself
    mi = program.method("Matrix", "__init__")
    kw = mi.node.args.kwarg.arg if mi.node.args.kwarg else None
    freezes = False
    for n in ast.walk(mi.node):
        if isinstance(n, ast.For) and kw and norm(n.iter) == f"{kw}.items()" and isinstance(n.target, ast.Tuple):
            vname = norm(n.target.elts[1])
            for st in ast.walk(n):
                if isinstance(st, ast.Assign) and norm(st.targets[0]) == f"{vname}.flags.writeable" and norm(st.value) == "False":
                    freezes = True
                if isinstance(st, ast.Expr) and isinstance(st.value, ast.Call) and norm(st.value.func) == f"{vname}.setflags" and any(k2.arg == "write" and norm(k2.value) == "False" for k2 in st.value.keywords):
                    freezes = True
    r2.inst({"Matrix.__init__ freezes ndarray keyword arguments": freezes})
    if not freezes:
        r2.violate(PROP, "Matrix.__init__:no-freeze", "Matrix.__init__ no longer makes ndarray keyword arguments read-only: every parameter array can be modified in place after construction", node=mi.node, file=mi.file)
    eqf = program.method("Matrix", "__eq__")
    if "__class__" not in norm(eqf.node) and "type(" not in norm(eqf.node):
        r3.violate(PROP, "Matrix.__eq__:no-class-test", "__eq__ does not compare the classes of the operands", node=eqf.node, file=eqf.file)
    for k in program.subclasses("Matrix", concrete_only=True):
        src, frozen, wrapped, init = attr_sources(program, k)
        # ---------------- R3
        array_attrs = reads_transitive(program, k, "array") | reads_transitive(program, k, "_left_matrix_multiply")
        eq_attrs = reads_transitive(program, k, "_check_equality")
        hash_attrs = reads_transitive(program, k, "_compute_hash")
        takes_size = "size" in init.params
        d_params = set()
        for a in array_attrs:
            if a == "_shape" and not takes_size:
                continue
            d_params |= src.get(a, set())
        e_params = set()
        for a in eq_attrs:
            e_params |= src.get(a, set())
        h_params = set()
        for a in hash_attrs:
            h_params |= src.get(a, set())
        # optional precomputed arguments are derivable from the defining ones
        defaults = _defaults(init)
        optional = {p for p in d_params if p in defaults and isinstance(defaults[p], ast.Constant) and defaults[p].value is None and p in DERIVABLE_OPTIONAL and (d_params - {p}) & e_params}
        missing = {p for p in d_params - e_params - optional if (k.name, p) not in SUPPRESS and not any((c.name, p) in SUPPRESS for c in k.mro)}
        r3.inst({"class": k.name, "array depends on": sorted(d_params), "equality compares": sorted(e_params), "hash uses": sorted(h_params)})
        eqm = k.resolve("_check_equality")
        for p in sorted(missing):
            if p in DERIVABLE_OPTIONAL and p not in ("sign",):
                continue
            r3.violate(PROP, f"{eqm.qualname}:missing:{p}[{k.name}]", f"{k.name}: the dense array depends on constructor parameter `{p}` but `{eqm.qualname}` does not compare it: two objects that differ only in `{p}` compare equal although their arrays differ", node=eqm.node, file=eqm.file)
        # equality / hash must be functions of the constructor parameters only: a slot that is filled
        # lazily (None until some property is first requested) makes them depend on evaluation history
        lazy = set()
        for c in k.mro:
            for mname, mf in c.methods.items():
                if mname == "__init__":
                    continue
                for n in ast.walk(mf.node):
                    if isinstance(n, ast.Assign):
                        for t in n.targets:
                            for tt in (t.elts if isinstance(t, ast.Tuple) else [t]):
                                if is_self_attr(tt):
                                    lazy.add(tt.attr)
        for fn_name in ("_check_equality", "_compute_hash"):
            fn = k.resolve(fn_name)
            if fn is None:
                continue
            raw = sorted({n.attr for n in ast.walk(fn.node) if isinstance(n, ast.Attribute) and n.attr in lazy and isinstance(n.value, ast.Name)})
            r3.inst({"class": k.name, "function": fn.qualname, "lazy slots read directly": raw})
            for a in raw:
                r3.violate(PROP, f"{fn.qualname}:reads-lazy-slot:{a}[{k.name}]", f"{fn.qualname} reads the slot `{a}` directly; that slot stays None until a property is first requested and is filled afterwards, so two matrices with equal parameters compare {'unequal' if fn_name == '_check_equality' else 'with different hashes'} depending on which properties were evaluated first (and copies stop equalling their originals)", node=fn.node, file=fn.file)
        hm = k.resolve("_compute_hash")
        extra = {p for p in h_params - e_params if p not in DERIVABLE_OPTIONAL}
        for p in sorted(extra):
            r3.violate(PROP, f"{hm.qualname}:hash-extra:{p}[{k.name}]", f"{k.name}: hash depends on `{p}`, which equality does not compare: equal objects can hash differently", node=hm.node, file=hm.file)
        # ---------------- R2
        a = init.node.args
        anns = {x.arg: (norm(x.annotation) if x.annotation is not None else "") for x in a.posonlyargs + a.args + a.kwonlyargs}
        for p, ann in anns.items():
            if p == "self" or "NDArray" not in ann and "ndarray" not in ann:
                continue
            holders = {at for at, ps in src.items() if p in ps and at != "_shape"}
            if not holders:
                continue
            ok = any(at in frozen for at in holders) or any(p in wrapped.get(at, set()) for at in holders)
            # an array that is only used to build a fresh array / matrix is not retained
            r2.inst({"class": k.name, "parameter": p, "held by": sorted(holders), "frozen or wrapped": ok})
            if not ok:
                r2.violate(PROP, f"{init.qualname}:unfrozen:{p}[{k.name}]", f"{k.name}: array parameter `{p}` is kept in {sorted(holders)} without being made read-only (not routed through Matrix.__init__'s keyword arguments) or wrapped in a matrix object: the caller can modify the matrix after construction through its own reference", node=init.node, file=init.file)
    for rr in (r2, r3):
        seen, uniq = set(), []
        for fd in rr.findings:
            base = fd.key.split("[")[0]
            if base not in seen:
                seen.add(base)
                fd.key = base
                uniq.append(fd)
        rr.findings = uniq
    return r2, r3


def _defaults(init: FuncInfo):
    a = init.node.args
    pos = a.posonlyargs + a.args
    d = {}
    for p, v in zip(pos[len(pos) - len(a.defaults):], a.defaults):
        d[p.arg] = v
    for p, v in zip(a.kwonlyargs, a.kw_defaults):
        if v is not None:
            d[p.arg] = v
    return d


LAYOUT_ATTRS = {"strides", "data", "flags", "itemsize", "nbytes", "base", "ctypes"}
ZERO_NORMALISERS = {"np.abs", "np.absolute", "np.where", "np.square", "abs"}


def rule_r5(rep, program: Program):
    """Equality of array parameters is np.array_equal: it ignores dtype, memory layout and the sign
    of zeros.  hash_array must therefore hash a canonical form of the *values*: every aspect of the
    array it feeds to the hash must be one that equal arrays share."""
    r = rep.rule("R5", "hash_array hashes only what np.array_equal compares: bytes of a canonical (fixed dtype, C-contiguous, zero-sign-free) copy, plus at most the shape", floor=3)
    f = program.func("utils", "hash_array")
    if f is None:
        raise AnalysisError("utils.hash_array not found")
    prm = f.params[0]
    # how do the matrix classes compare array parameters?
    eq_calls = set()
    for g in matrix_functions(program):
        if g.name == "_check_equality":
            for c in ast.walk(g.node):
                if isinstance(c, ast.Call) and call_name(c).startswith("np.") and ("equal" in call_name(c) or "close" in call_name(c)):
                    eq_calls.add(call_name(c))
    r.inst({"array equality used by _check_equality": sorted(eq_calls)})
    if not eq_calls <= {"np.array_equal"}:
        raise AnalysisError(f"array parameters compared with {sorted(eq_calls)}: the hash rule assumes np.array_equal")
    # canonical locals: derived from the parameter through a dtype-fixing contiguous copy
    canon = {}
    for st in f.body_without_docstring():
        if isinstance(st, ast.Assign) and len(st.targets) == 1 and isinstance(st.targets[0], ast.Name):
            v = st.value
            fixes_dtype = contiguous = zero = False
            for n in ast.walk(v):
                if isinstance(n, ast.Call):
                    cn = call_name(n)
                    has_dtype = len(n.args) >= 2 or any(k.arg == "dtype" for k in n.keywords)
                    if cn in ("np.ascontiguousarray", "np.array", "np.asarray", "np.require") and n.args and norm(n.args[0]) == prm and has_dtype:
                        fixes_dtype = True
                        contiguous = contiguous or cn in ("np.ascontiguousarray", "np.array")
                    if isinstance(n.func, ast.Attribute) and n.func.attr == "astype" and norm(n.func.value) == prm:
                        fixes_dtype = contiguous = True
                    if cn in ZERO_NORMALISERS:
                        zero = True
                if isinstance(n, ast.BinOp) and isinstance(n.op, ast.Add) and any(isinstance(x, ast.Constant) and x.value == 0 for x in (n.left, n.right)):
                    zero = contiguous = True  # arithmetic allocates a fresh C-contiguous result
                if isinstance(n, ast.BinOp) and isinstance(n.op, ast.Pow):
                    zero = contiguous = True
            src = next((n.id for n in ast.walk(v) if isinstance(n, ast.Name) and n.id in canon), None)
            if src is not None and not any(isinstance(n, ast.Name) and n.id == prm for n in ast.walk(v)):
                # a further step applied to a canonical form keeps what that form already fixes
                base = canon[src]
                canon[st.targets[0].id] = {"dtype": base["dtype"] or fixes_dtype, "contiguous": base["contiguous"] or contiguous, "zero": base["zero"] or zero}
            elif any(isinstance(n, ast.Name) and n.id == prm for n in ast.walk(v)):
                canon[st.targets[0].id] = {"dtype": fixes_dtype, "contiguous": contiguous, "zero": zero}
    r.inst({"canonical forms": canon})
    full = {n for n, c in canon.items() if all(c.values())}
    # every read of the raw parameter outside the canonicalisation, and every aspect fed to the hash
    for n in ast.walk(f.node):
        if isinstance(n, ast.Attribute) and isinstance(n.value, ast.Name) and n.value.id == prm:
            inside_canon = any(isinstance(st, ast.Assign) and len(st.targets) == 1 and isinstance(st.targets[0], ast.Name) and st.targets[0].id in canon and any(x is n for x in ast.walk(st)) for st in f.body_without_docstring())
            if n.attr in LAYOUT_ATTRS or n.attr in ("dtype", "tobytes", "view", "tostring", "dumps", "byteswap") and not inside_canon:
                what = "memory layout" if n.attr in LAYOUT_ATTRS else "data type / raw bytes"
                r.violate(PROP, f"hash_array:raw:{n.attr}", f"hash_array reads `{prm}.{n.attr}` of the array as given: the hash depends on its {what}, which np.array_equal (the matrices' equality) ignores - equal matrices hash differently (and a byte view of a non-C-contiguous array raises)", node=n, file=f.file)
        if isinstance(n, ast.Call) and call_name(n) in ("bytes", "memoryview", "id", "hash") and n.args and norm(n.args[0]) == prm:
            r.violate(PROP, f"hash_array:raw:{call_name(n)}", f"hash_array applies {call_name(n)}() to the array as given (layout / dtype / identity dependent)", node=n, file=f.file)
    used = {n.value.id for n in ast.walk(f.node) if isinstance(n, ast.Attribute) and isinstance(n.value, ast.Name) and n.value.id in canon and n.attr in ("tobytes", "view", "data")}
    r.inst({"forms whose bytes are hashed": sorted(used)})
    for name in sorted(used - full):
        missing = [k for k, v in canon[name].items() if not v]
        r.violate(PROP, f"hash_array:canonical:{name}:missing:{','.join(missing)}", f"the bytes hashed come from `{name}`, which does not fix {missing} (dtype: equal int / float arrays; contiguous: equal arrays in C / Fortran order; zero: 0.0 == -0.0 have different bytes): arrays that compare equal hash differently", node=f.node, file=f.file)
    if not used and not r.findings:
        raise AnalysisError("hash_array: no hashed byte source recognised")
    for n in ast.walk(f.node):
        if isinstance(n, ast.Attribute) and isinstance(n.value, ast.Name) and n.value.id in canon and n.attr in ("strides", "dtype") and not any(isinstance(c, ast.Call) and call_name(c) in ("np.result_type",) and any(x is n for x in ast.walk(c)) for c in ast.walk(f.node)):
            # strides of the canonical copy are a function of its shape; its dtype of the input dtype
            if n.attr == "dtype" and not canon[n.value.id]["dtype"]:
                r.violate(PROP, f"hash_array:{n.value.id}.dtype", "the dtype of a copy that keeps the input dtype is fed to the hash", node=n, file=f.file)
    return r


def rule_r7(rep, program: Program):
    """`np.array(m)` asks `__array__` for a copy.  A hook that does not accept the `copy` keyword leaves the copying to
    NumPy; one that accepts it is trusted by NumPy (2.x) to have honoured it, so returning the cached dense array itself
    when `copy` may be True hands the caller a writeable alias of the matrix's own storage."""
    import ast

    from ..model import execution_condition, is_self_attr, norm

    r = rep.rule("R7", "the array-protocol hook never returns the matrix's own cached array when a copy was requested", floor=1)
    n = 0
    _seen_cls = set()
    for k in program.subclasses("Matrix") + ([program.cls("Matrix")] if program.cls("Matrix") is not None else []):
        if k.name in _seen_cls:
            continue
        _seen_cls.add(k.name)
        f = k.methods.get("__array__")
        if f is None:
            continue
        n += 1
        takes_copy = "copy" in f.params
        rets = [x for x in ast.walk(f.node) if isinstance(x, ast.Return) and x.value is not None]
        r.inst({"class": k.name, "accepts copy=": takes_copy, "returns": [norm(x.value)[:40] for x in rets]})
        if not takes_copy:
            continue  # NumPy makes the copy itself
        bound = {}
        for a in ast.walk(f.node):
            if isinstance(a, ast.Assign) and len(a.targets) == 1 and isinstance(a.targets[0], ast.Name):
                bound.setdefault(a.targets[0].id, []).append(a.value)
        for x in rets:
            v = x.value
            if isinstance(v, ast.Name) and len(bound.get(v.id, [])) == 1:
                v = bound[v.id][0]  # a local bound once: what it was bound to
            own = is_self_attr(v) or (isinstance(v, ast.Attribute) and is_self_attr(v.value))
            if not own:
                continue
            conds = execution_condition(f.node, x, stop_at=(ast.FunctionDef,))
            if not any("copy" in norm(t) for t, _tr in conds):
                r.violate(PROP, f"{k.name}.__array__:returns-own-array:{norm(v)[:30]}", f"{k.name}.__array__ accepts `copy=` but returns `{norm(v)[:40]}` - the matrix's own cached array - on a path that does not look at it: `np.array(m)` / `np.array(m, copy=True)` then hands out a writeable alias, and writing into the caller's \"copy\" changes the matrix (its array no longer matches its parameters, equality and hash)", node=x, file=f.file)
    if n == 0:
        raise AnalysisError("no matrix class defines __array__")
    return r


def run(rep, program: Program, tier: str) -> None:
    rep.explanation = (
        "Effect analysis of matrices.py (attribute stores outside constructors must be guarded lazy "
        "slots; may-alias analysis for in-place operations, treating matrix products as possibly "
        "returning their operand), parameter-flow analysis through the constructor chains (which "
        "constructor parameter feeds which attribute, which are frozen), and comparison of the "
        "parameters the array depends on with those compared by equality / used by hash."
    )
    rep.assumptions = [
        "named suppressions (one symbol each, with reason): " + "; ".join(f"{c}.{p}: {why}" for (c, p), why in SUPPRESS.items()),
        "bit-identical repeatability of LAPACK calls is not decided; copy/deepcopy/pickle use the default protocol (no class overrides them - checked)",
    ]
    rep.isolate(rule_r1, rep, program)
    rep.isolate(rule_r2_r3, rep, program)
    rep.isolate(rule_r5, rep, program)
    rep.isolate(rule_r7, rep, program)
    # a cache handed on to a derived matrix (capacitance, factor, eigendecomposition, LU) that does not satisfy its defining
    # identity makes a property of the derived matrix depend on which property of the source was evaluated first: the
    # result of `m.T.inv` then depends on the history of `m` (shared with C10-R5)
    from . import c10

    n0 = len(rep.rules)
    _r1, _r4, r5c = c10.rule_algebra(rep, program, relevant=lambda cname, member: False)  # members the algebra cannot evaluate are C10's concern
    rep.rules = rep.rules[:n0]
    r6 = rep.rule("R6", "caches forwarded to derived matrices satisfy their defining identity on the new arguments: results do not depend on which property was evaluated first", floor=10)
    r6.instances = r6.exercised = r5c.instances
    r6.samples = r5c.samples
    for fd in r5c.findings:
        fd.rule, fd.prop = "R6", PROP
        r6.findings.append(fd)
    rep.extra.pop("members_outside_algebra", None)
    # no class customises copying/pickling
    r = rep.rule("R4", "no matrix class overrides __copy__/__deepcopy__/__reduce__/__getstate__ (default protocols preserve exactly the attributes equality compares)", floor=30)
    for k in program.subclasses("Matrix"):
        bad = [n for n in ("__copy__", "__deepcopy__", "__reduce__", "__reduce_ex__", "__getstate__", "__setstate__") if n in k.methods]
        r.inst({"class": k.name, "overrides": bad})
        for n in bad:
            raise AnalysisError(f"{k.name} customises {n}: copy/pickle equality needs a dedicated rule")
