"""C13 - sampler outputs record exactly the post-iteration chain states.

 R1 Optional-flow: a parameter documented/annotated as possibly None is narrowed before any
    ordering comparison, arithmetic, range()/len(), iteration, subscription or attribute use
 R2 statistics tables: keys definitely present in the returned statistics of every concrete
    integration transition == keys declared in statistic_types (possible keys subset of declared)
 R3 row index = sample_index + sampling_index_offset for stats and traces; traces written
    after the transitions of the iteration from the loop-carried state, which is returned;
    the offset accumulates stage.n_iter exactly when the stage records; n_trace_iter formula
 R4 in-memory and memory-mapped storage branches agree on per-chain shape, fill and dtype;
    multi-process mode implies memory-mapped storage; memmaps are converted to paths before
    crossing the process boundary and re-opened on the other side
"""

from __future__ import annotations

import ast

from ..cfg import CFG, stmt_defs, node_expr
from ..exctypes import ExcTypes
from ..facts import conjuncts, must_facts
from ..model import Program, call_name, norm, dict_store_keys, execution_condition, bool_equivalent
from ..poly import Rat, eval_expr
from ..report import AnalysisError

# helpers of _sample_chain that the rules look for as calls; any other private helper is inlined
SAMPLE_CHAIN_ANCHORS = frozenset({"_update_chain_stats", "_update_monitor_stats", "_flush_memmap_chain_data", "_check_and_process_init_state", "_file_paths_to_memmaps", "_memmaps_to_file_paths"})

STORAGE_ANCHORS = frozenset({"_open_new_memmap", "_generate_memmap_filenames", "_get_valid_filename"})

PROP = "C13"


# ----------------------------------------------------------------------
# R1
def optional_params(f) -> list[str]:
    out = []
    a = f.node.args
    allp = a.posonlyargs + a.args + a.kwonlyargs
    defaults = {}
    pos = a.posonlyargs + a.args
    for p, d in zip(pos[len(pos) - len(a.defaults):], a.defaults):
        defaults[p.arg] = d
    for p, d in zip(a.kwonlyargs, a.kw_defaults):
        if d is not None:
            defaults[p.arg] = d
    for p in allp:
        ann = norm(p.annotation) if p.annotation is not None else ""
        d = defaults.get(p.arg)
        if "None" in ann or (isinstance(d, ast.Constant) and d.value is None):
            out.append(p.arg)
    return out


def none_sensitive_uses(e: ast.AST, name: str, known_nonnull: bool):
    """Yield (node, description) for uses of ``name`` inside expression e that fail for None,
    honouring short-circuit narrowing inside e."""

    def walk(x, nn):
        if isinstance(x, ast.BoolOp):
            cur = nn
            for v in x.values:
                yield from walk(v, cur)
                # after `v` evaluated: for Or, v was falsy; for And, v was truthy
                for ce, pol in conjuncts(v, isinstance(x.op, ast.And)):
                    if _is_none_test(ce, name) is not None:
                        isnone = _is_none_test(ce, name)
                        # (name is None) known False -> non-null ; (name is not None) known True -> non-null
                        if (isnone and not pol) or ((not isnone) and pol):
                            cur = True
                    if isinstance(ce, ast.Name) and ce.id == name and pol:
                        cur = True
            return
        if isinstance(x, ast.IfExp):
            yield from walk(x.test, nn)
            tnn, fnn = nn, nn
            for ce, pol in conjuncts(x.test, True):
                t = _is_none_test(ce, name)
                if t is not None and ((t and not pol) or ((not t) and pol)):
                    tnn = True
                if isinstance(ce, ast.Name) and ce.id == name and pol:
                    tnn = True
            for ce, pol in conjuncts(x.test, False):
                t = _is_none_test(ce, name)
                if t is not None and ((t and not pol) or ((not t) and pol)):
                    fnn = True
            yield from walk(x.body, tnn)
            yield from walk(x.orelse, fnn)
            return
        if isinstance(x, (ast.Lambda, ast.FunctionDef)):
            return
        if not nn:
            if isinstance(x, ast.Compare):
                ops = x.ops
                operands = [x.left, *x.comparators]
                for i, op in enumerate(ops):
                    if isinstance(op, (ast.Lt, ast.Gt, ast.LtE, ast.GtE)):
                        for o in (operands[i], operands[i + 1]):
                            if isinstance(o, ast.Name) and o.id == name:
                                yield x, f"ordering comparison `{norm(x)}`"
                    if isinstance(op, (ast.In, ast.NotIn)) and isinstance(operands[i + 1], ast.Name) and operands[i + 1].id == name:
                        yield x, f"membership test `{norm(x)}`"
            if isinstance(x, ast.BinOp):
                for o in (x.left, x.right):
                    if isinstance(o, ast.Name) and o.id == name:
                        yield x, f"arithmetic `{norm(x)}`"
            if isinstance(x, ast.UnaryOp) and isinstance(x.op, (ast.USub, ast.UAdd)) and isinstance(x.operand, ast.Name) and x.operand.id == name:
                yield x, f"arithmetic `{norm(x)}`"
            if isinstance(x, ast.Call) and isinstance(x.func, ast.Name) and x.func.id in ("range", "len", "int", "float", "sum", "min", "max", "list", "tuple", "enumerate", "zip", "sorted", "iter"):
                for a in x.args:
                    if isinstance(a, ast.Name) and a.id == name:
                        yield x, f"`{norm(x)[:40]}`"
            if isinstance(x, ast.Attribute) and isinstance(x.value, ast.Name) and x.value.id == name:
                yield x, f"attribute access `{norm(x)}`"
            if isinstance(x, ast.Subscript) and isinstance(x.value, ast.Name) and x.value.id == name:
                yield x, f"subscription `{norm(x)[:40]}`"
            if isinstance(x, ast.Starred) and isinstance(x.value, ast.Name) and x.value.id == name:
                yield x, f"unpacking `{norm(x)}`"
            if isinstance(x, (ast.ListComp, ast.GeneratorExp, ast.SetComp, ast.DictComp)):
                g = x.generators[0]
                if isinstance(g.iter, ast.Name) and g.iter.id == name:
                    yield x, f"iteration in `{norm(x)[:40]}`"
        for ch in ast.iter_child_nodes(x):
            yield from walk(ch, nn)

    yield from walk(e, known_nonnull)


def _is_none_test(e, name):
    """True for `name is None`, False for `name is not None`, else None."""
    if isinstance(e, ast.Compare) and len(e.ops) == 1 and isinstance(e.left, ast.Name) and e.left.id == name and isinstance(e.comparators[0], ast.Constant) and e.comparators[0].value is None:
        if isinstance(e.ops[0], (ast.Is, ast.Eq)):
            return True
        if isinstance(e.ops[0], (ast.IsNot, ast.NotEq)):
            return False
    return None


def rule_r1(rep, program: Program):
    r = rep.rule("R1", "Optional parameters of the sampling entry points are narrowed before None-sensitive uses (ordering, arithmetic, range/len, iteration, attribute, subscript)", floor=12)
    m = program.module("samplers")
    targets = []
    for fn in ("_sample_chain", "_sample_chains_parallel", "_sample_chains_sequential", "_init_traces", "_init_stats", "_finalize_adapters"):
        if fn in m.functions:
            targets.append(m.functions[fn])
    for cn in ("MarkovChainMonteCarloMethod", "HamiltonianMonteCarlo"):
        c = program.cls(cn)
        for mn in ("sample_chains", "__init__", "_preprocess_init_state"):
            if mn in c.methods:
                targets.append(c.methods[mn])
    for f in targets:
        opts = optional_params(f)
        if not opts:
            continue
        cfg = CFG(f.node)
        for name in opts:

            def atom(e, pol, name=name):
                t = _is_none_test(e, name)
                if t is not None and ((t and not pol) or ((not t) and pol)):
                    yield ("nn", name)
                if isinstance(e, ast.Name) and e.id == name and pol:
                    yield ("nn", name)

            def node_gen(n, state, name=name):
                a = n.ast
                if n.kind == "stmt" and isinstance(a, ast.Assign) and any(isinstance(t, ast.Name) and t.id == name for t in a.targets):
                    v = a.value
                    if isinstance(v, ast.Constant) and v.value is None:
                        return set()
                    if isinstance(v, ast.IfExp) and any(isinstance(b, ast.Constant) and b.value is None for b in (v.body, v.orelse)):
                        return set()
                    if isinstance(v, ast.Name):
                        return set()
                    return {("nn", name)}
                return set()

            def kill(n, fact, name=name):
                return fact == ("nn", name) and name in stmt_defs(n) and not (n.kind == "stmt" and isinstance(n.ast, ast.Assign))

            IN = must_facts(cfg, atom, node_gen, kill)
            n_uses = 0
            for n in cfg.stmts():
                if n not in IN:
                    continue
                e = node_expr(n)
                if e is None:
                    continue
                nn = ("nn", name) in IN[n]
                if n.kind == "for" and not nn and isinstance(e, ast.Name) and e.id == name:
                    r.violate(PROP, f"{f.qualname}:{name}:iteration", f"`{name}` may be None (documented option) when iterated over", node=e, file=f.file)
                for node, what in none_sensitive_uses(e, name, nn):
                    n_uses += 1
                    r.violate(PROP, f"{f.qualname}:{name}:{norm(node)[:50]}", f"`{name}` may be None here (it is an accepted, documented value) but is used in {what}: TypeError/AttributeError at run time", node=node, file=f.file)
            r.inst({"function": f.qualname, "param": name}, exercised=True)
    return r


# ----------------------------------------------------------------------
# R2
def declared_keys(k) -> set[str]:
    out = set()
    for c in k.mro:
        f = c.methods.get("__init__")
        if f is None:
            continue
        out |= dict_store_keys(f.node, "self._statistic_types")
    return out


def raise_set(program: Program, et: ExcTypes, modules, extra_funcs=()):
    out = set()
    fs = []
    for mn in modules:
        m = program.module(mn)
        fs += list(m.functions.values())
        for c in m.classes.values():
            fs += [f for n, f in c.methods.items() if n != "__init__"]
    fs += list(extra_funcs)
    for f in fs:
        for st in ast.walk(f.node):
            if isinstance(st, ast.Raise) and st.exc is not None:
                rc = et.raised_class(st, f.module)
                if rc:
                    out.add(rc)
    return out


def ladder_keys(program: Program, et: ExcTypes):
    pie = program.func("transitions", "_process_integrator_error")
    out = {}
    for n in ast.walk(pie.node):
        if isinstance(n, ast.If) and isinstance(n.test, ast.Call) and norm(n.test.func) == "isinstance":
            cls = et.canon(norm(n.test.args[1]), pie.module)
            keys = [t.slice.value for s in n.body if isinstance(s, ast.Assign) for t in s.targets if isinstance(t, ast.Subscript) and isinstance(t.slice, ast.Constant)]
            out[cls] = keys
    return out


def stats_key_facts(f, et):
    """(must keys, may keys) of the statistics dict at the returns of f."""
    cfg = CFG(f.node, catches=lambda h, r: et.catches(h, r, f.module), raised_class=lambda st: et.raised_class(st, f.module))
    dict_names = set()
    for n in ast.walk(f.node):
        if isinstance(n, ast.Assign) and len(n.targets) == 1 and isinstance(n.targets[0], ast.Name) and isinstance(n.value, ast.Dict):
            if all(isinstance(k, ast.Constant) and isinstance(k.value, str) for k in n.value.keys):
                dict_names.add(n.targets[0].id)
    if "stats" not in dict_names:
        return None
    d = "stats"

    def node_gen(n, state):
        a = n.ast
        out = set()
        if n.kind == "stmt" and isinstance(a, ast.Assign):
            for t in a.targets:
                if isinstance(t, ast.Name) and t.id == d and isinstance(a.value, ast.Dict):
                    out |= {("key", k.value) for k in a.value.keys}
                if isinstance(t, ast.Subscript) and norm(t.value) == d and isinstance(t.slice, ast.Constant):
                    out.add(("key", t.slice.value))
        return out

    def kill(n, fact):
        a = n.ast
        if n.kind == "stmt":
            for c in ast.walk(a):
                if isinstance(c, ast.Call) and norm(c.func) == f"{d}.pop" and c.args and isinstance(c.args[0], ast.Constant) and c.args[0].value == fact[1]:
                    return True
            if isinstance(a, ast.Delete):
                for t in a.targets:
                    if isinstance(t, ast.Subscript) and norm(t.value) == d and isinstance(t.slice, ast.Constant) and t.slice.value == fact[1]:
                        return True
            if isinstance(a, ast.Assign) and any(isinstance(t, ast.Name) and t.id == d for t in a.targets) and isinstance(a.value, ast.Dict):
                return ("key", fact[1]) not in {("key", k.value) for k in a.value.keys}
        return False

    IN = must_facts(cfg, lambda e, p: (), node_gen, kill)
    must = None
    for n in cfg.nodes:
        if n.kind == "stmt" and isinstance(n.ast, ast.Return) and n in IN:
            ks = {fa[1] for fa in IN[n] if fa[0] == "key"}
            must = ks if must is None else must & ks
    may = set()
    popped = set()
    for n in ast.walk(f.node):
        if isinstance(n, ast.Assign):
            for t in n.targets:
                if isinstance(t, ast.Name) and t.id == d and isinstance(n.value, ast.Dict):
                    may |= {k.value for k in n.value.keys}
                if isinstance(t, ast.Subscript) and norm(t.value) == d and isinstance(t.slice, ast.Constant):
                    may.add(t.slice.value)
        if isinstance(n, ast.Call) and norm(n.func) == f"{d}.pop" and n.args and isinstance(n.args[0], ast.Constant):
            popped.add(n.args[0].value)
    return must or set(), may, popped


def rule_r2(rep, program: Program, et: ExcTypes):
    r = rep.rule("R2", "returned statistics keys: definitely-present keys == declared statistic_types; possibly-present keys subset of declared (per concrete integration transition)", floor=4)
    ladder = ladder_keys(program, et)
    rs_integr = raise_set(program, et, ["integrators", "solvers"])
    for k in program.subclasses("IntegrationTransition", concrete_only=True):
        decl = declared_keys(k)
        sample = k.resolve("sample")
        fn = sample
        # Metropolis transitions delegate to _sample_n_step
        rets = [n for n in ast.walk(sample.node) if isinstance(n, ast.Return) and isinstance(n.value, ast.Call) and call_name(n.value).startswith("self.")]
        if rets:
            callee = k.resolve(call_name(rets[0].value).split(".")[1])
            if callee is not None:
                fn = callee
        facts = stats_key_facts(fn, et)
        if facts is None:
            raise AnalysisError(f"{k.name}: statistics dict literal not found in {fn.qualname}")
        must, may, popped = facts
        # helper functions that receive the dict
        extra_may = set()
        rs = set(rs_integr)
        if k.is_subclass_of("DynamicIntegrationTransition"):
            cd = k.resolve("_check_divergence")
            rs |= raise_set(program, et, [], [cd]) if cd is not None else set()
        for cls, keys in ladder.items():
            if any(et.is_subclass(x, cls) for x in rs):
                extra_may |= set(keys)
        may_all = (may | extra_may) - popped
        must = must - popped
        r.inst({"class": k.name, "declared": sorted(decl), "definitely_returned": sorted(must), "possibly_returned": sorted(may_all)})
        for key in sorted(decl - must):
            r.violate(PROP, f"{k.name}:stat:{key}:not-always-returned", f"statistic '{key}' is declared in statistic_types but not assigned on every path of {fn.qualname}: its initial fill value survives in the output array", node=fn.node, file=fn.file)
        for key in sorted(may_all - decl):
            r.violate(PROP, f"{k.name}:stat:{key}:undeclared", f"{fn.qualname} can return statistic '{key}' which {k.name} does not declare in statistic_types: storing it raises KeyError", node=fn.node, file=fn.file)
    return r


# ----------------------------------------------------------------------
# R3
def output_array_stores(f):
    """(statement, row expression) for every subscript store in ``f`` whose target array derives from
    the per-chain output parameters chain_stats / chain_traces (through .items()/.values() loops and
    subscripts)."""
    derived = {"chain_stats", "chain_traces"}
    for _ in range(4):
        for n in ast.walk(f.node):
            if isinstance(n, (ast.For, ast.comprehension)):
                if {x.id for x in ast.walk(n.iter) if isinstance(x, ast.Name)} & derived:
                    derived |= {x.id for x in ast.walk(n.target) if isinstance(x, ast.Name)}
            if isinstance(n, ast.Assign) and len(n.targets) == 1 and isinstance(n.targets[0], ast.Name) and isinstance(n.value, (ast.Subscript, ast.Call)) and {x.id for x in ast.walk(n.value) if isinstance(x, ast.Name)} & derived and not (isinstance(n.value, ast.Call) and norm(n.value.func) in ("_file_paths_to_memmaps",)):
                derived.add(n.targets[0].id)
    derived -= {"trans_key", "key"}
    out = []
    for n in ast.walk(f.node):
        tg = n.targets if isinstance(n, ast.Assign) else [n.target] if isinstance(n, ast.AugAssign) else []
        for t in tg:
            if isinstance(t, ast.Subscript):
                base = t.value
                root = base
                while isinstance(root, ast.Subscript):
                    root = root.value
                # a store two levels deep (array[row]) into something derived from the outputs
                if isinstance(root, ast.Name) and root.id in derived and isinstance(base, ast.Subscript):
                    out.append((n, t.slice))
    return out


def rule_r3(rep, program: Program):
    r = rep.rule("R3", "row index, store order, returned state, offset accumulation and n_trace_iter", floor=7)
    f = program.func_inlined("samplers", "_sample_chain", keep=SAMPLE_CHAIN_ANCHORS)
    want = Rat.sym("sample_index") + Rat.sym("sampling_index_offset")
    # locate the iteration loop
    loops = [n for n in ast.walk(f.node) if isinstance(n, ast.For) and norm(n.iter) == "chain_iterator"]
    if len(loops) != 1:
        raise AnalysisError("_sample_chain: iteration loop over chain_iterator not found")
    loop = loops[0]
    idx_name = norm(loop.target.elts[0]) if isinstance(loop.target, ast.Tuple) else norm(loop.target)
    want = Rat.sym(idx_name) + Rat.sym("sampling_index_offset")
    tstores_placeholder = []
    # stats store
    calls = [n for n in ast.walk(loop) if isinstance(n, ast.Call) and norm(n.func) == "_update_chain_stats"]
    if not calls:
        raise AnalysisError("_sample_chain: _update_chain_stats call not found")
    for c in calls:
        idx = eval_expr(c.args[0], {})
        r.inst({"store": "stats", "index": repr(idx)})
        if not idx.equals(want):
            r.violate(PROP, f"_sample_chain:stats-index:{norm(c.args[0])}", f"statistics are written at row `{norm(c.args[0])}` instead of {idx_name} + sampling_index_offset", node=c, file=f.file)
    # every other store into the per-chain output arrays made anywhere in _sample_chain (e.g. in the
    # interrupt handler) addresses a row by the same index
    for st, row in output_array_stores(f):
        if any(st is x for x in tstores_placeholder):
            continue
        idx = None
        try:
            idx = eval_expr(row, {})
        except AnalysisError:
            pass
        r.inst({"store": "output array", "statement": norm(st)[:60], "row": norm(row)})
        if idx is None or not idx.equals(want):
            r.violate(PROP, f"_sample_chain:output-store-index:{norm(row)[:40]}", f"`{norm(st)[:70]}` writes row `{norm(row)}` of a per-chain output array; rows are addressed by {idx_name} + sampling_index_offset - with a non-zero offset (a later recorded stage) this overwrites a row recorded by an earlier stage", node=st, file=f.file)
    ucs = program.func("samplers", "_update_chain_stats")
    stores = [n for n in ast.walk(ucs.node) if isinstance(n, ast.Assign) and isinstance(n.targets[0], ast.Subscript)]
    ok = any(norm(s.targets[0].slice) == ucs.params[0] and norm(s.value) == "val" for s in stores)
    r.inst({"store": "_update_chain_stats", "ok": ok})
    if not ok:
        r.violate(PROP, "_update_chain_stats:store", "statistic value is not stored at the row index it is given", node=ucs.node, file=ucs.file)
    # trace store
    tstores = [n for n in ast.walk(loop) if isinstance(n, ast.Assign) and isinstance(n.targets[0], ast.Subscript) and norm(n.targets[0].value).startswith("chain_traces[")]
    if not tstores:
        raise AnalysisError("_sample_chain: trace store not found")
    trans_loops = [n for n in loop.body if isinstance(n, ast.For) and "transitions" in norm(n.iter)]
    if len(trans_loops) != 1:
        raise AnalysisError("_sample_chain: transitions loop not found")
    tl = trans_loops[0]
    for s in tstores:
        idx = eval_expr(s.targets[0].slice, {})
        r.inst({"store": "trace", "index": repr(idx)})
        if not idx.equals(want):
            r.violate(PROP, f"_sample_chain:trace-index:{norm(s.targets[0].slice)}", f"traces are written at row `{norm(s.targets[0].slice)}` instead of {idx_name} + sampling_index_offset", node=s, file=f.file)
        # position: in a top-level statement of the iteration body after the transitions loop
        top = [st for st in loop.body if any(x is s for x in ast.walk(st))]
        after = top and loop.body.index(top[0]) > loop.body.index(tl)
        r.inst({"store": "trace", "after_transitions": bool(after)})
        if not after:
            r.violate(PROP, "_sample_chain:trace-before-transitions", "the trace of an iteration is written before (or inside) the loop over transitions: it does not record the state after the iteration", node=s, file=f.file)
        # traced object is the loop-carried state
        tf = [n for n in ast.walk(top[0]) if isinstance(n, ast.Call) and isinstance(n.func, ast.Name) and n.func.id == "trace_func"] if top else []
        for c in tf:
            if not (c.args and norm(c.args[0]) == "state"):
                r.violate(PROP, f"_sample_chain:traced-object:{norm(c)}", "trace functions are not applied to the loop-carried chain state", node=c, file=f.file)
    # state rebinding from transition.sample and return
    samp = [n for n in ast.walk(tl) if isinstance(n, ast.Assign) and isinstance(n.value, ast.Call) and call_name(n.value) == "transition.sample"]
    ok = samp and isinstance(samp[0].targets[0], ast.Tuple) and norm(samp[0].targets[0].elts[0]) == "state" and norm(samp[0].value.args[0]) == "state"
    r.inst({"state threading": bool(ok)})
    if not ok:
        r.violate(PROP, "_sample_chain:state-threading", "the state returned by transition.sample is not carried to the next transition / iteration", node=tl, file=f.file)
    rets = [n for n in ast.walk(f.node) if isinstance(n, ast.Return)]
    last = max(rets, key=lambda n: n.lineno)
    if not (isinstance(last.value, ast.Tuple) and norm(last.value.elts[0]) == "state"):
        r.violate(PROP, f"_sample_chain:returns:{norm(last.value)[:40]}", "the final state returned is not the loop-carried state", node=last, file=f.file)
    # offset accumulation in sample_chains
    sc = program.method("MarkovChainMonteCarloMethod", "sample_chains")
    upd = [n for n in ast.walk(sc.node) if isinstance(n, (ast.Assign, ast.AugAssign)) and any(norm(t) == "sampling_index_offset" for t in (n.targets if isinstance(n, ast.Assign) else [n.target]))]
    init = [u for u in upd if isinstance(u, ast.Assign) and isinstance(u.value, ast.Constant) and u.value.value == 0]
    acc = [u for u in upd if u not in init]
    r.inst({"offset": "init", "found": len(init)})
    if len(init) != 1:
        r.violate(PROP, "sample_chains:offset-init", "sampling_index_offset is not initialised to 0 exactly once", node=sc.node, file=sc.file)
    if not acc:
        r.violate(PROP, "sample_chains:offset-never-advanced", "sampling_index_offset never advances between stages: every recorded stage overwrites rows from 0", node=sc.node, file=sc.file)
    for u in acc:
        if isinstance(u, ast.AugAssign):
            inc = eval_expr(u.value, {}) if isinstance(u.op, ast.Add) else None
        else:
            inc = eval_expr(u.value, {}) - Rat.sym("sampling_index_offset")
        r.inst({"offset": "update", "stmt": norm(u), "increment": repr(inc)})
        if inc is None or not inc.equals(Rat.sym("stage.n_iter")):
            r.violate(PROP, f"sample_chains:offset-update:{norm(u)}", f"`{norm(u)}` does not accumulate the stage length (increment {inc!r} instead of stage.n_iter): rows of a later recorded stage land at the wrong offset", node=u, file=sc.file)
        # condition: the update executes exactly when the stage records something (an enclosing `if`,
        # or an earlier guard clause that `continue`s, possibly written with De Morgan)
        conds = [(e, t) for e, t in execution_condition(sc.node, u) if "stage.trace_funcs" in norm(e) or "stage.record_stats" in norm(e)]
        expected = ast.parse("stage.trace_funcs is not None or stage.record_stats", mode="eval").body
        eq = bool_equivalent(conds, expected) if conds else False
        r.inst({"offset": "condition", "executes when": [("" if t else "not ") + norm(e) for e, t in conds], "equivalent to recording": eq})
        if not eq:
            r.violate(PROP, f"sample_chains:offset-condition:{[('' if t else 'not ') + norm(e) for e, t in conds]}", "the row offset must advance exactly when the stage records (stage.trace_funcs is not None or stage.record_stats)", node=u, file=sc.file)
    # the same conditions select the arrays handed to the chains
    kwc = {}
    for n in ast.walk(sc.node):
        if isinstance(n, ast.keyword) and n.arg in ("chain_traces", "chain_stats") and isinstance(n.value, ast.IfExp):
            kwc[n.arg] = norm(n.value.test)
    r.inst({"recording conditions": kwc})
    if kwc.get("chain_traces") != "stage.trace_funcs is not None" or kwc.get("chain_stats") != "stage.record_stats":
        r.violate(PROP, f"sample_chains:recording-conditions:{kwc}", "trace/statistic arrays are not handed to the chains under the stage's own recording flags", node=sc.node, file=sc.file)
    # n_trace_iter
    nti = [n for n in ast.walk(sc.node) if isinstance(n, ast.Assign) and norm(n.targets[0]) == "n_trace_iter"]
    if len(nti) != 1:
        raise AnalysisError("sample_chains: n_trace_iter assignment not found")
    v = nti[0].value
    ok = isinstance(v, ast.IfExp) and norm(v.test) == "trace_warm_up" and eval_expr(v.body, {}).equals(Rat.sym("n_warm_up_iter") + Rat.sym("n_main_iter")) and eval_expr(v.orelse, {}).equals(Rat.sym("n_main_iter"))
    r.inst({"n_trace_iter": norm(v), "ok": bool(ok)})
    if not ok:
        r.violate(PROP, f"sample_chains:n_trace_iter:{norm(v)}", "array length is not (n_warm_up_iter + n_main_iter if trace_warm_up else n_main_iter): arrays are longer/shorter than the number of recorded iterations", node=nti[0], file=sc.file)
    return r


# ----------------------------------------------------------------------
# R4
def rule_r4(rep, program: Program):
    r = rep.rule("R4", "storage siblings agree (shape, fill, dtype); multi-process implies memmap; memmaps cross the process boundary as paths; one file per array", floor=8)
    for fname in ("_init_stats", "_init_traces"):
        f = program.func_inlined("samplers", fname, keep=STORAGE_ANCHORS)
        ifs = [n for n in ast.walk(f.node) if isinstance(n, ast.If) and norm(n.test) == "use_memmap"]
        if len(ifs) != 1:
            raise AnalysisError(f"{fname}: `if use_memmap` not found")
        node = ifs[0]
        mm = [c for s in node.body for c in ast.walk(s) if isinstance(c, ast.Call) and norm(c.func) == "_open_new_memmap"]
        im = [c for s in node.orelse for c in ast.walk(s) if isinstance(c, ast.Call) and call_name(c) in ("np.full", "numpy.full")]
        if len(mm) != 1 or len(im) != 1:
            raise AnalysisError(f"{fname}: storage constructors not found")
        a, b = mm[0], im[0]
        shape_m, fill_m, dt_m = a.args[1], a.args[2], a.args[3]
        shape_i, fill_i, dt_i = b.args[0], b.args[1], b.args[2] if len(b.args) > 2 else next((k.value for k in b.keywords if k.arg == "dtype"), None)
        # in-memory shape = (n_chain, *per-chain shape)
        sm = [norm(e) for e in (shape_m.elts if isinstance(shape_m, ast.Tuple) else [shape_m])]
        si = [norm(e) for e in (shape_i.elts if isinstance(shape_i, ast.Tuple) else [shape_i])]
        r.inst({"function": fname, "memmap": [sm, norm(fill_m), norm(dt_m)], "in_memory": [si, norm(fill_i), norm(dt_i)]})
        if si[0] != "n_chain" or si[1:] != sm:
            r.violate(PROP, f"{fname}:shape:{si}!={sm}", "per-chain array shape differs between in-memory and memory-mapped storage", node=b, file=f.file)
        if norm(fill_m) != norm(fill_i):
            r.violate(PROP, f"{fname}:fill:{norm(fill_m)}!={norm(fill_i)}", "initial fill value differs between in-memory and memory-mapped storage", node=b, file=f.file)
        if norm(dt_m) != norm(dt_i):
            r.violate(PROP, f"{fname}:dtype:{norm(dt_m)}!={norm(dt_i)}", "dtype differs between in-memory and memory-mapped storage", node=b, file=f.file)
    # the arrays are allocated from what will be stored in them: the store loop lets the *last* trace
    # function returning a key win, so the allocation must run for every (function, key) pair too
    ft = program.func_inlined("samplers", "_init_traces", keep=STORAGE_ANCHORS)
    for st in ast.walk(ft.node):
        if isinstance(st, ast.Assign) and len(st.targets) == 1 and isinstance(st.targets[0], ast.Subscript) and norm(st.targets[0].value) == "traces":
            conds = [(e, t) for e, t in execution_condition(ft.node, st, stop_at=(ast.FunctionDef,)) if "use_memmap" not in norm(e)]
            r.inst({"function": "_init_traces", "allocation": norm(st.targets[0]), "conditions": [("" if t else "not ") + norm(e) for e, t in conds]})
            if conds:
                r.violate(PROP, f"_init_traces:conditional-allocation:{norm(conds[0][0])[:40]}", f"the trace array for a key is only allocated when {[('' if t else 'not ') + norm(e) for e, t in conds]}: when several trace functions return the same key the array keeps the dtype / shape of an earlier function while the values stored are those of the last one (silent casts)", node=st, file=ft.file)
    # one file per array: the file name is a function of every index of the array it backs
    prefixes = {}
    for fname in ("_init_stats", "_init_traces"):
        f = program.func_inlined("samplers", fname, keep=STORAGE_ANCHORS)
        for st in ast.walk(f.node):
            if not (isinstance(st, ast.Assign) and len(st.targets) == 1 and isinstance(st.targets[0], ast.Subscript)):
                continue
            # the list of file names may be built in a named local first
            name_lists = {}
            for a in ast.walk(f.node):
                if isinstance(a, ast.Assign) and len(a.targets) == 1 and isinstance(a.targets[0], ast.Name) and isinstance(a.value, ast.Call) and norm(a.value.func) == "_generate_memmap_filenames":
                    name_lists[a.targets[0].id] = a.value
            gens = [c for c in ast.walk(st.value) if isinstance(c, ast.Call) and norm(c.func) == "_generate_memmap_filenames"]
            gens += [name_lists[x.id] for x in ast.walk(st.value) if isinstance(x, ast.Name) and x.id in name_lists]
            if not gens:
                continue
            g = gens[0]
            dest_keys = set()
            t = st.targets[0]
            while isinstance(t, ast.Subscript):
                dest_keys |= {x.id for x in ast.walk(t.slice) if isinstance(x, ast.Name)}
                t = t.value
            if len(g.args) < 4:
                raise AnalysisError(f"{fname}: _generate_memmap_filenames call with fewer than 4 arguments")
            name_vars = {x.id for x in ast.walk(g.args[2]) if isinstance(x, ast.Name)}
            prefixes[fname] = norm(g.args[1])
            per_chain = norm(g.args[3]) in ("range(n_chain)", "list(range(n_chain))")
            r.inst({"function": fname, "array indexed by": sorted(dest_keys), "file name built from": sorted(name_vars), "prefix": norm(g.args[1]), "one per chain": per_chain})
            missing = dest_keys - name_vars
            if missing:
                r.violate(PROP, f"{fname}:memmap-name-misses:{sorted(missing)}", f"the memory-map file name in {fname} is built from {sorted(name_vars)} but the arrays are distinguished by {sorted(dest_keys)}: two arrays that differ only in {sorted(missing)} are backed by the same file and overwrite each other (in-memory storage keeps them apart)", node=g, file=f.file)
            if not per_chain:
                r.violate(PROP, f"{fname}:memmap-not-per-chain:{norm(g.args[3])[:30]}", "memory-mapped arrays are not created one per chain index", node=g, file=f.file)
    if len(prefixes) != 2:
        raise AnalysisError("memory-map file name construction not found in _init_stats / _init_traces")
    if len(set(prefixes.values())) != 2:
        r.violate(PROP, f"memmap-prefix-shared:{sorted(prefixes.values())}", "trace and statistics arrays use the same file-name prefix: a traced quantity and a statistic with the same key share a file", node=None, file=str(program.func("samplers", "_init_stats").file))
    gm = program.func("samplers", "_generate_memmap_filenames")
    rets = [n for n in ast.walk(gm.node) if isinstance(n, ast.Return)]
    comp = rets[-1].value if rets else None
    used = set()
    if isinstance(comp, (ast.ListComp, ast.GeneratorExp)):
        local_defs = {norm(a.targets[0]): {x.id for x in ast.walk(a.value) if isinstance(x, ast.Name)} for a in ast.walk(gm.node) if isinstance(a, ast.Assign)}
        for x in ast.walk(comp.elt):
            if isinstance(x, ast.Name):
                used |= {x.id} | local_defs.get(x.id, set())
        idx = {x.id for x in ast.walk(comp.generators[0].target) if isinstance(x, ast.Name)}
        need = {gm.params[1], gm.params[2]} | idx
        over = norm(comp.generators[0].iter) == gm.params[3]
    else:
        need, idx, over = {"?"}, set(), False
    r.inst({"_generate_memmap_filenames uses": sorted(used & (need | idx))})
    if not need <= used or not over:
        r.violate(PROP, f"_generate_memmap_filenames:name-ignores:{sorted(need - used)}", "generated file names do not depend on prefix, key and chain index: distinct arrays share a file", node=gm.node, file=gm.file)
    onm = program.func("samplers", "_open_new_memmap")
    fills = [n for n in ast.walk(onm.node) if isinstance(n, ast.Assign) and isinstance(n.targets[0], ast.Subscript) and norm(n.targets[0].slice) in (":", "...", "slice(None, None, None)") and norm(n.value) == onm.params[2]]
    r.inst({"_open_new_memmap fill": bool(fills)})
    if not fills:
        r.violate(PROP, "_open_new_memmap:fill", "a new memory-mapped array is not initialised with the default value", node=onm.node, file=onm.file)
    sc = program.method("MarkovChainMonteCarloMethod", "sample_chains")
    um = [n for n in ast.walk(sc.node) if isinstance(n, ast.Assign) and norm(n.targets[0]) == "use_memmap"]
    if len(um) != 1:
        raise AnalysisError("sample_chains: use_memmap assignment not found")
    v = um[0].value
    atoms = {norm(x) for x in (v.values if isinstance(v, ast.BoolOp) and isinstance(v.op, ast.Or) else [v])}
    r.inst({"use_memmap": sorted(atoms)})
    if not (atoms & {"n_process > 1", "n_process != 1", "1 < n_process"}):
        r.violate(PROP, f"sample_chains:use_memmap:{sorted(atoms)}", "multi-process sampling does not imply memory-mapped storage: worker processes would write to private copies of the arrays", node=um[0], file=sc.file)
    par = program.func("samplers", "_sample_chains_parallel")
    conv = {norm(t.slice) for n in ast.walk(par.node) if isinstance(n, ast.Assign) and isinstance(n.value, ast.Call) and norm(n.value.func) == "_memmaps_to_file_paths" for t in n.targets if isinstance(t, ast.Subscript)}
    r.inst({"converted before queue": sorted(conv)})
    for k in ("'chain_stats'", "'chain_traces'"):
        if k not in conv:
            r.violate(PROP, f"_sample_chains_parallel:not-converted:{k}", f"{k} is put on the worker queue without converting memmaps to file paths", node=par.node, file=par.file)
    ch = program.func_inlined("samplers", "_sample_chain", keep=SAMPLE_CHAIN_ANCHORS)
    back = {norm(n.targets[0]) for n in ast.walk(ch.node) if isinstance(n, ast.Assign) and isinstance(n.value, ast.Call) and norm(n.value.func) == "_file_paths_to_memmaps"}
    r.inst({"re-opened in worker": sorted(back)})
    if back != {"chain_traces", "chain_stats"}:
        r.violate(PROP, f"_sample_chain:reopen:{sorted(back)}", "file paths received by a worker are not re-opened as memmaps for both traces and statistics", node=ch.node, file=ch.file)
    return r


def run(rep, program: Program, tier: str) -> None:
    rep.explanation = (
        "Optional-narrowing dataflow over the sampling entry points, definite/possible key sets of "
        "the statistics dictionaries against the declared tables (with the raise-set of the guarded "
        "call tree deciding which conditional flags can occur), linear forms of the row indices and "
        "offset updates, and sibling agreement of the two storage branches."
    )
    rep.assumptions = ["stage lengths partition the iterations (C16-R1)", "equality of recorded numbers with states at run time is not decided"]
    et = ExcTypes(program)
    rep.isolate(rule_r1, rep, program)
    rep.isolate(rule_r2, rep, program, et)
    from . import samplersim

    samplersim.superseded(rep, program, tier, [("R3", "output rows are written at sample_index + offset, after the transitions of the iteration")], "R8", rule_r3, rep, program)
    samplersim.superseded(rep, program, tier, [("R4", "in-memory and memory-mapped storage agree; one file per array; one allocation per (trace function, key)")], "R8", rule_r4, rep, program)
    from . import c14

    samplersim.superseded(rep, program, tier, [("R5", "worker outputs are restored to chain-index order before collation")], "R8", c14.rule_r3, rep, program, prop=PROP, rule="R5")
    # the arrays are sized from the trace_warm_up option; the stagers must record / trace warm-up stages under exactly that option (shared with C16-R1)
    from . import c16

    samplersim.superseded(rep, program, tier, [("R6", "warm-up stages record statistics / traces iff trace_warm_up")], "R8", c16.rule_record_flags, rep, program, prop=PROP, rule="R6")
    # a traced quantity that is cached in the state (e.g. the Hamiltonian) is that of the row's state only if every update
    # of a state variable goes through assignment, which invalidates the cache (shared with C09-R7)
    from . import c09

    rep.isolate(c09.rule_r7, rep, program, control=False, prop=PROP, rule="R7")
    from . import samplersim

    rep.isolate(samplersim.rule, rep, program, tier, PROP, "R8")
    from . import transim

    rep.isolate(transim.rule, rep, program, PROP, "R9")
    # traced quantities that are cached in the state (the Hamiltonian) are those of the row's state and of the sampler's
    # own system only if the cache key identifies the system object (shared with C09-R6)
    rep.isolate(c09.rule_r6, rep, program, prop=PROP, rule="R10")
