"""C16 - adaptation is confined to warm-up; stages partition the iterations exactly.

 R1 partition: per stager, warm-up stage lengths sum to n_warm_up_iter (polynomial identity over
    the stage constructors, window-loop invariant, non-negativity of the remainder decided on
    the extracted integer expressions), the main stage is last / non-adaptive / recording, fast
    stages receive only fast adapters and slow windows all adapters
 R2 who may write transition parameters: step_size / metric are assigned only by constructors
    and Adapter methods; adapter methods are invoked only under `adapters is not None` in the
    chain loop and from _finalize_adapters with the stage's own adapters
 R3 a stage without iterations is never sampled, initialised or finalised
"""

from __future__ import annotations

import ast
import math
import re

from ..cfg import CFG, node_expr, stmt_defs
from ..facts import must_facts
from ..model import Program, bool_equivalent, call_name, execution_condition, norm, expand_locals
from ..poly import Rat, eval_expr
from ..report import AnalysisError

# helpers of _sample_chain that the rules look for as calls; any other private helper is inlined
SAMPLE_CHAIN_ANCHORS = frozenset({"_update_chain_stats", "_update_monitor_stats", "_flush_memmap_chain_data", "_check_and_process_init_state", "_file_paths_to_memmaps", "_memmaps_to_file_paths"})

PROP = "C16"


def _order(f):
    """node -> position in a pre-order walk of the function (source order, also for inlined code whose
    line numbers were moved to the call site)."""
    pos = {}

    def visit(n):
        pos[id(n)] = len(pos)
        for ch in ast.iter_child_nodes(n):
            visit(ch)

    visit(f.node)
    return pos


def chain_stage_calls(f):
    out = []
    for n in ast.walk(f.node):
        if isinstance(n, ast.Call) and norm(n.func) == "ChainStage":
            kws = {k.arg: k.value for k in n.keywords}
            for name, a in zip(("n_iter", "adapters", "trace_funcs", "record_stats"), n.args):
                kws[name] = a
            out.append((n, kws))
    pos = _order(f)
    return sorted(out, key=lambda x: pos[id(x[0])])


def enclosing(f, node, kinds):
    out = []

    def visit(cur, stack):
        for ch in ast.iter_child_nodes(cur):
            if ch is node:
                out.extend(stack)
                return True
            if visit(ch, stack + ([ch] if isinstance(ch, kinds) else [])):
                return True
        return False

    visit(f.node, [])
    return out


def int_expr_eval(e, n_name, n, env_exprs):
    """Evaluate an integer-valued expression tree of the analysed stager at a concrete value of
    the single free variable (float constants use Python float arithmetic, as the code will)."""
    if isinstance(e, ast.Constant) and isinstance(e.value, (int, float)):
        return e.value
    if isinstance(e, ast.Name):
        if e.id == n_name:
            return n
        if e.id in env_exprs:
            return int_expr_eval(env_exprs[e.id], n_name, n, env_exprs)
        raise AnalysisError(f"free name {e.id} in stage-length expression")
    if isinstance(e, ast.BinOp):
        a = int_expr_eval(e.left, n_name, n, env_exprs)
        b = int_expr_eval(e.right, n_name, n, env_exprs)
        if isinstance(e.op, ast.Add):
            return a + b
        if isinstance(e.op, ast.Sub):
            return a - b
        if isinstance(e.op, ast.Mult):
            return a * b
        if isinstance(e.op, ast.FloorDiv):
            return a // b
        if isinstance(e.op, ast.Div):
            return a / b
    if isinstance(e, ast.Call) and isinstance(e.func, ast.Name):
        args = [int_expr_eval(a, n_name, n, env_exprs) for a in e.args]
        if e.func.id == "int":
            return int(args[0])
        if e.func.id == "max":
            return max(args)
        if e.func.id == "min":
            return min(args)
        if e.func.id == "round":
            return round(*args)
        if e.func.id in ("floor", "ceil"):
            return getattr(math, e.func.id)(args[0])
    if isinstance(e, ast.Call) and call_name(e) in ("math.floor", "math.ceil", "np.floor", "np.ceil"):
        return getattr(math, call_name(e).split(".")[-1])(int_expr_eval(e.args[0], n_name, n, env_exprs))
    raise AnalysisError(f"stage-length expression outside the integer grammar: {norm(e)[:60]}")


def affine_upper(e, n_name, env_exprs):
    """(slope, const) with value <= slope*n + const for all n >= 1, or None."""
    if isinstance(e, ast.Constant) and isinstance(e.value, (int, float)):
        return (0.0, float(e.value))
    if isinstance(e, ast.Name):
        if e.id == n_name:
            return (1.0, 0.0)
        if e.id in env_exprs:
            return affine_upper(env_exprs[e.id], n_name, env_exprs)
        return None
    if isinstance(e, ast.BinOp):
        a = affine_upper(e.left, n_name, env_exprs)
        if isinstance(e.op, ast.Add):
            b = affine_upper(e.right, n_name, env_exprs)
            return None if a is None or b is None else (a[0] + b[0], a[1] + b[1])
        if isinstance(e.op, ast.Mult):
            for c, x in ((e.left, e.right), (e.right, e.left)):
                if isinstance(c, ast.Constant) and isinstance(c.value, (int, float)) and c.value >= 0:
                    u = affine_upper(x, n_name, env_exprs)
                    return None if u is None else (u[0] * c.value, u[1] * c.value)
        return None
    if isinstance(e, ast.Call) and isinstance(e.func, ast.Name):
        if e.func.id in ("int", "floor", "round") and e.args:
            u = affine_upper(e.args[0], n_name, env_exprs)
            return None if u is None else (u[0] * (1 + 1e-12), u[1] + (1.0 if e.func.id == "round" else 0.0))
        if e.func.id == "ceil":
            u = affine_upper(e.args[0], n_name, env_exprs)
            return None if u is None else (u[0] * (1 + 1e-12), u[1] + 1.0)
        if e.func.id == "max":
            us = [affine_upper(a, n_name, env_exprs) for a in e.args]
            if any(u is None for u in us):
                return None
            return (max(u[0] for u in us), sum(max(u[1], 0.0) for u in us))
        if e.func.id == "min":
            us = [affine_upper(a, n_name, env_exprs) for a in e.args]
            us = [u for u in us if u is not None]
            return us[0] if us else None
    return None


def _resolve_local(f, e, depth=0):
    """`e` with locals replaced by their definition when every definition of the local in the function
    has the same text (else the name is kept)."""
    import copy as _copy

    if depth > 4:
        return e
    defs = {}
    for n in ast.walk(f.node):
        if isinstance(n, ast.Assign) and len(n.targets) == 1 and isinstance(n.targets[0], ast.Name):
            defs.setdefault(n.targets[0].id, []).append(n.value)
    params = set(f.params)

    class Sub(ast.NodeTransformer):
        def visit_Name(self, n):  # noqa: N802
            if isinstance(n.ctx, ast.Load) and n.id in defs and n.id not in params and len({norm(v) for v in defs[n.id]}) == 1:
                return _resolve_local(f, _copy.deepcopy(defs[n.id][0]), depth + 1)
            return n

    return Sub().visit(_copy.deepcopy(e))


def _check_record_flags(r, prop, k, f, c, kw):
    """The sampler sizes the output arrays from the `trace_warm_up` option: a warm-up stage must record
    statistics exactly when that option is set, and be traced with the given functions exactly then."""
    tw = next((p for p in f.params if p == "trace_warm_up"), None)
    tf = f.params[4] if len(f.params) > 4 else "trace_funcs"
    if tw is None:
        raise AnalysisError(f"{k.name}.stages: trace_warm_up parameter not found")
    rs = _resolve_local(f, kw.get("record_stats")) if kw.get("record_stats") is not None else None
    if rs is None or norm(rs) != tw:
        r.violate(prop, f"{k.name}.stages:warm-up:{norm(kw.get('n_iter'))}:record_stats={norm(rs) if rs is not None else None}", f"the warm-up stage records statistics under `{norm(rs) if rs is not None else None}` instead of `{tw}`: sample_chains sizes the statistics arrays from {tw} (n_warm_up + n_main rows when it is set), so with a different condition rows stay at their fill values / main-stage rows land at the wrong offset", node=c, file=f.file)
    tr = _resolve_local(f, kw.get("trace_funcs")) if kw.get("trace_funcs") is not None else None
    ok = tr is not None and isinstance(tr, ast.IfExp) and ((norm(tr.test) == tw and norm(tr.orelse) == "None") or (norm(tr.test) == f"not {tw}" and norm(tr.body) == "None"))
    if ok:
        val = tr.body if norm(tr.test) == tw else tr.orelse
        val = _resolve_local(f, val)
        ok = norm(val) in (tf, f"tuple({tf}) if {tf} is not None else {tf}", f"tuple({tf}) if {tf} is not None else None", f"None if {tf} is None else tuple({tf})", f"{tf} if {tf} is None else tuple({tf})")
    if not ok:
        r.violate(prop, f"{k.name}.stages:warm-up:{norm(kw.get('n_iter'))}:trace_funcs={norm(tr)[:50] if tr is not None else None}", f"the warm-up stage is traced with `{norm(tr)[:60] if tr is not None else None}`, not `{tf} if {tw} else None`", node=c, file=f.file)


def rule_record_flags(rep, program: Program, prop=PROP, rule="R4"):
    r = rep.rule(rule, "every warm-up stage records statistics iff trace_warm_up and is traced with the given functions iff trace_warm_up (the sampler sizes the arrays from that option)", floor=4)
    for k in program.subclasses("Stager", concrete_only=True):
        f = k.resolve("stages")
        for c, kw in chain_stage_calls(f)[:-1]:
            r.inst({"stager": k.name, "stage": norm(kw.get("n_iter")), "record_stats": norm(_resolve_local(f, kw.get("record_stats"))) if kw.get("record_stats") is not None else None})
            _check_record_flags(r, prop, k, f, c, kw)
    return r


def rule_r1(rep, program: Program):
    r = rep.rule("R1", "stage partition: warm-up lengths sum to n_warm_up_iter, non-negative remainder, main stage last/non-adaptive/recording, fast stages get only fast adapters", floor=10)
    stagers = program.subclasses("Stager", concrete_only=True)
    if len(stagers) < 2:
        raise AnalysisError("expected at least two concrete stagers")
    for k in stagers:
        f = k.resolve("stages")
        ps = f.params
        n_warm, n_main, p_adapters, p_tf = ps[1], ps[2], ps[3], ps[4]
        stages = chain_stage_calls(f)
        if not stages:
            raise AnalysisError(f"{k.name}.stages: no ChainStage constructor found")
        main_call, main_kw = stages[-1]
        # ---- main stage
        r.inst({"stager": k.name, "main stage": {a: norm(v) for a, v in main_kw.items()}})
        if norm(main_kw.get("n_iter")) != n_main:
            r.violate(PROP, f"{k.name}.stages:main:n_iter={norm(main_kw.get('n_iter'))}", "the last stage does not have the requested number of main iterations", node=main_call, file=f.file)
        if norm(main_kw.get("adapters")) != "None":
            r.violate(PROP, f"{k.name}.stages:main:adapters={norm(main_kw.get('adapters'))}", "the main stage is given adapters: transition parameters keep changing during the main stage", node=main_call, file=f.file)
        if norm(main_kw.get("record_stats")) != "True":
            r.violate(PROP, f"{k.name}.stages:main:record_stats={norm(main_kw.get('record_stats'))}", "the main stage does not record statistics", node=main_call, file=f.file)
        if norm(main_kw.get("trace_funcs")) != p_tf:
            r.violate(PROP, f"{k.name}.stages:main:trace_funcs={norm(main_kw.get('trace_funcs'))}", "the main stage is not traced with the requested trace functions", node=main_call, file=f.file)
        conds = [norm(c.test) for c in enclosing(f, main_call, (ast.If,))]
        if conds and conds != [f"{n_main} > 0"]:
            r.violate(PROP, f"{k.name}.stages:main:condition={conds}", "the main stage is created under a condition other than n_main_iter > 0", node=main_call, file=f.file)
        # ---- warm-up stages
        warm = stages[:-1]
        fast_def = None
        for n in ast.walk(f.node):
            if isinstance(n, ast.Assign) and norm(n.targets[0]) == "fast_adapters":
                fast_def = n.value
        has_windows = any(enclosing(f, c, (ast.For,)) for c, _ in warm)
        total = Rat.const(0)
        window_loop_var = None
        for c, kw in warm:
            in_loop = enclosing(f, c, (ast.For,))
            ad = norm(kw.get("adapters"))
            want = p_adapters if (in_loop or not has_windows) else "fast_adapters"
            r.inst({"stager": k.name, "warm-up stage": norm(kw.get("n_iter")), "adapters": ad, "in window loop": bool(in_loop)})
            # a warm-up stage exists whenever warm-up iterations were requested - whatever the adapters / tracing options
            stmt_c = c
            pm_c = {ch: par for par in ast.walk(f.node) for ch in ast.iter_child_nodes(par)}
            while stmt_c in pm_c and not isinstance(stmt_c, ast.stmt):
                stmt_c = pm_c[stmt_c]
            conds_c = execution_condition(f.node, stmt_c, stop_at=(ast.FunctionDef,))
            if conds_c:
                eqv = bool_equivalent(conds_c, ast.parse(f"{n_warm} > 0", mode="eval").body)
                if eqv is not True:
                    txt = " and ".join(("" if tr else "not ") + f"({norm(t)})" for t, tr in conds_c)
                    r.violate(PROP, f"{k.name}.stages:warm-up:{norm(kw.get('n_iter'))}:condition", f"the warm-up stage of {norm(kw.get('n_iter'))} iterations is created only when `{txt}`, which is not equivalent to `{n_warm} > 0`: for the other inputs the requested warm-up iterations are silently dropped (the stage lengths no longer sum to the warm-up count)", node=c, file=f.file)
            if ad != want:
                what = "a fast (non-window) warm-up stage is given the slow adapters as well" if want == "fast_adapters" else "a slow adaptation window / warm-up stage is not given all adapters"
                r.violate(PROP, f"{k.name}.stages:warm-up:{norm(kw.get('n_iter'))}:adapters={ad}", what, node=c, file=f.file)
            _check_record_flags(r, PROP, k, f, c, kw)
            if in_loop:
                lp = in_loop[-1]
                # for i, n_iter in enumerate(slow_windows)
                tv = lp.target.elts[-1] if isinstance(lp.target, ast.Tuple) else lp.target
                if norm(kw.get("n_iter")) != norm(tv):
                    r.violate(PROP, f"{k.name}.stages:window:n_iter={norm(kw.get('n_iter'))}", "a slow window stage does not use the window length computed for it", node=c, file=f.file)
                window_loop_var = lp
            else:
                total = total + eval_expr(kw.get("n_iter"), {})
        if fast_def is not None:
            # every element that reaches fast_adapters passes exactly the filter `<adapter>.is_fast`; the
            # table may be a dict comprehension or be filled by a loop over adapters.items()
            region = [fast_def]
            if (isinstance(fast_def, ast.Dict) and not fast_def.keys) or (isinstance(fast_def, ast.Call) and norm(fast_def.func) == "dict" and not fast_def.args):
                for lp in ast.walk(f.node):
                    if isinstance(lp, ast.For) and any(isinstance(x, ast.Subscript) and norm(x.value) == "fast_adapters" and isinstance(x.ctx, ast.Store) for x in ast.walk(lp)) or (isinstance(lp, ast.For) and any(isinstance(x, ast.Call) and norm(x.func).startswith("fast_adapters[") for x in ast.walk(lp))):
                        region.append(lp)
            filters, sources = [], []
            for node in region:
                for c2 in ast.walk(node):
                    if isinstance(c2, ast.comprehension):
                        filters += c2.ifs
                        sources.append(norm(c2.iter))
                    if isinstance(c2, ast.For):
                        sources.append(norm(c2.iter))
                    if isinstance(c2, ast.If) and c2 is not node:
                        filters.append(c2.test)
            pos_fast = [t for t in filters if isinstance(t, ast.Attribute) and t.attr == "is_fast"]
            other = [t for t in filters if t not in pos_fast]
            ok = bool(pos_fast) and not other and any(p_adapters in s2 for s2 in sources)
            r.inst({"stager": k.name, "fast_adapters": [norm(x)[:60] for x in region], "filters": [norm(t) for t in filters]})
            if not ok:
                r.violate(PROP, f"{k.name}.stages:fast_adapters", "fast_adapters is not the is_fast subset of the given adapters", node=fast_def, file=f.file)
        # ---- sum identity
        if window_loop_var is not None:
            total_sym, detail = _window_total(r, k, f, window_loop_var)
            if total_sym is None:
                continue
            total = total + total_sym
        # substitute local definitions that are plain expressions of other locals
        local_defs = _single_defs(f)
        total = _subst(total, local_defs)
        r.inst({"stager": k.name, "sum of warm-up lengths": repr(total)})
        if not total.equals(Rat.sym(n_warm)):
            r.violate(PROP, f"{k.name}.stages:sum={total!r}", f"warm-up stage lengths sum to {total!r}, not {n_warm}", node=f.node, file=f.file)
        # ---- non-negativity of the remainder in the fallback branch
        if window_loop_var is not None:
            _remainder_nonneg(r, k, f, n_warm)
    # stages are returned in a dict keyed by label: two stages must never share a key (a later one
    # would silently replace the earlier, and its iterations disappear from the schedule)
    for k in program.subclasses("Stager", concrete_only=True):
        f = k.resolve("stages")
        if f is None:
            continue
        const_keys, loop_keys = [], []
        parents = {}
        for n in ast.walk(f.node):
            for ch in ast.iter_child_nodes(n):
                parents[ch] = n
        for n in ast.walk(f.node):
            if isinstance(n, ast.Assign) and len(n.targets) == 1 and isinstance(n.targets[0], ast.Subscript) and norm(n.targets[0].value) in ("sampling_stages", "stages"):
                key = n.targets[0].slice
                loop = None
                cur = n
                while cur in parents:
                    cur = parents[cur]
                    if isinstance(cur, (ast.For, ast.While)):
                        loop = cur
                        break
                (loop_keys if loop is not None else const_keys).append((n, key, loop))
        r.inst({"stager": k.name, "stage keys": [norm(x[1])[:40] for x in const_keys + loop_keys]})
        texts = [norm(x[1]) for x in const_keys]
        if len(set(texts)) != len(texts) or not all(isinstance(x[1], ast.Constant) for x in const_keys):
            r.violate(PROP, f"{k.name}.stages:duplicate-stage-key", "two stages outside the window loop are stored under the same / a computed key", node=f.node, file=f.file)
        for n, key, loop in loop_keys:
            idx = set()
            if isinstance(loop, ast.For) and isinstance(loop.iter, ast.Call) and norm(loop.iter.func) == "enumerate" and isinstance(loop.target, ast.Tuple) and isinstance(loop.target.elts[0], ast.Name):
                idx = {loop.target.elts[0].id}
            elif isinstance(loop, ast.For) and isinstance(loop.iter, ast.Call) and norm(loop.iter.func) == "range" and isinstance(loop.target, ast.Name):
                idx = {loop.target.id}
            used = {x.id for x in ast.walk(key) if isinstance(x, ast.Name)}
            if not (idx & used):
                r.violate(PROP, f"{k.name}.stages:window-key-not-unique:{norm(key)[:40]}", f"the stages created in the window loop are stored under the key `{norm(key)}`, which does not contain the loop's running index: two windows with the same {sorted(used) or 'label'} share a key, the later replaces the earlier in the returned dict, and the warm-up stages no longer add up to the requested count", node=n, file=f.file)
    return r


def _single_defs(f):
    """name -> value expr for locals assigned exactly once at one place per branch with the
    same right-hand side text in every assignment (else omitted)."""
    defs = {}
    for n in ast.walk(f.node):
        if isinstance(n, ast.Assign) and len(n.targets) == 1 and isinstance(n.targets[0], ast.Name):
            defs.setdefault(n.targets[0].id, []).append(n.value)
    return {k: v[0] for k, v in defs.items() if len({norm(x) for x in v}) == 1}


def _subst(total: Rat, defs):
    # substitute symbols that have a unique polynomial definition (one level, repeated)
    for _ in range(4):
        changed = False
        for s in list(total.symbols()):
            if s in defs:
                try:
                    val = eval_expr(defs[s], {})
                except AnalysisError:
                    continue
                if s in val.symbols():
                    continue
                # total is polynomial in s of degree <= 1 here
                try:
                    c = total.coeff_of(s)
                except AnalysisError:
                    continue
                total = total.without(s) + c * val
                changed = True
        if not changed:
            break
    return total


def _window_total(r, k, f, loop):
    """Check the window loop invariant; return (symbol for the total of the windows, detail)."""
    lst = norm(loop.iter.args[0]) if isinstance(loop.iter, ast.Call) and norm(loop.iter.func) == "enumerate" else norm(loop.iter)
    whiles = [n for n in ast.walk(f.node) if isinstance(n, ast.While)]
    wl = None
    for w in whiles:
        if any(isinstance(c, ast.Call) and norm(c.func) == f"{lst}.append" for c in ast.walk(w)):
            wl = w
    if wl is None:
        raise AnalysisError(f"{k.name}.stages: loop filling {lst} not found")
    pos = _order(f)
    t = wl.test
    if not (isinstance(t, ast.Compare) and len(t.ops) == 1 and isinstance(t.ops[0], ast.Lt) and isinstance(t.left, ast.Name) and isinstance(t.comparators[0], ast.Name)):
        raise AnalysisError(f"{k.name}.stages: window loop condition outside the accepted form: {norm(t)}")
    counter, total = t.left.id, t.comparators[0].id
    apps = [c for c in ast.walk(wl) if isinstance(c, ast.Call) and norm(c.func) == f"{lst}.append"]
    incs = [n for n in ast.walk(wl) if isinstance(n, ast.AugAssign) and norm(n.target) == counter and isinstance(n.op, ast.Add)]
    r.inst({"stager": k.name, "window loop": norm(t), "append": [norm(a.args[0]) for a in apps], "counter update": [norm(i) for i in incs]})
    if len(apps) != 1 or len(incs) != 1 or norm(apps[0].args[0]) != norm(incs[0].value):
        r.violate(PROP, f"{k.name}.stages:window-loop:co-update", "the window list and the iteration counter are not advanced by the same amount: the windows do not add up to the slow-stage length", node=wl, file=f.file)
        return None, None
    x = norm(apps[0].args[0])
    clamps = [n for n in ast.walk(wl) if isinstance(n, ast.If) and any(isinstance(s, ast.Assign) and norm(s.targets[0]) == x and eval_expr(s.value, {}).equals(Rat.sym(total) - Rat.sym(counter)) for s in n.body)]
    ok = False
    for c in clamps:
        # the overshoot test may be one disjunct of the clamp condition (when the branch is not taken
        # every disjunct is false, in particular the overshoot)
        for ct in c.test.values if isinstance(c.test, ast.BoolOp) and isinstance(c.test.op, ast.Or) else [c.test]:
            if isinstance(ct, ast.Compare) and len(ct.ops) == 1 and isinstance(ct.ops[0], (ast.Gt, ast.GtE)) and norm(ct.comparators[0]) == total and pos[id(c)] < pos[id(apps[0])]:
                ok = True
    r.inst({"stager": k.name, "window clamp": [norm(c.test) for c in clamps]})
    if not ok:
        r.violate(PROP, f"{k.name}.stages:window-loop:no-clamp", f"the last window is not clamped to the remaining iterations ({total} - {counter}): the windows overshoot the slow-stage length", node=wl, file=f.file)
        return None, None
    _window_progress(r, k, f, wl, x, counter, total, incs[0])
    # counter starts at 0
    init = [n for n in ast.walk(f.node) if isinstance(n, ast.Assign) and norm(n.targets[0]) == counter and pos[id(n)] < pos[id(wl)]]
    init.sort(key=lambda n: pos[id(n)])
    if not init or norm(init[-1].value) != "0":
        r.violate(PROP, f"{k.name}.stages:window-loop:counter-init", "the window iteration counter does not start at 0", node=wl, file=f.file)
        return None, None
    return Rat.sym(total), None


def _guard_facts(k):
    """Lower bounds on constructor parameters / the attributes they are stored in, established by
    `if <param> < c: raise ...` (or `<= c` for int-annotated parameters) guards in __init__."""
    init = k.resolve("__init__")
    facts = {}
    if init is None:
        return facts
    ann = {a.arg: norm(a.annotation) if a.annotation is not None else "" for a in init.node.args.args + init.node.args.kwonlyargs}
    for n in ast.walk(init.node):
        if not (isinstance(n, ast.If) and n.body and isinstance(n.body[0], ast.Raise)):
            continue
        tests = n.test.values if isinstance(n.test, ast.BoolOp) and isinstance(n.test.op, ast.Or) else [n.test]
        for t in tests:
            if isinstance(t, ast.Compare) and len(t.ops) == 1 and isinstance(t.left, ast.Name) and isinstance(t.comparators[0], ast.Constant) and isinstance(t.comparators[0].value, (int, float)):
                c = t.comparators[0].value
                if isinstance(t.ops[0], ast.Lt):
                    facts[t.left.id] = max(facts.get(t.left.id, -math.inf), c)
                elif isinstance(t.ops[0], ast.LtE) and ann.get(t.left.id) == "int" and float(c).is_integer():
                    facts[t.left.id] = max(facts.get(t.left.id, -math.inf), c + 1)
    out = dict(facts)
    stores = {}
    for kk in k.mro:
        for m in kk.methods.values():
            for n in ast.walk(m.node):
                if isinstance(n, (ast.Assign, ast.AugAssign, ast.AnnAssign)):
                    for t in n.targets if isinstance(n, ast.Assign) else [n.target]:
                        if isinstance(t, ast.Attribute) and isinstance(t.value, ast.Name) and t.value.id == "self":
                            stores.setdefault(t.attr, []).append((m, n))
    for attr, sts in stores.items():
        if len(sts) == 1 and sts[0][0].name == "__init__" and isinstance(sts[0][1], ast.Assign) and isinstance(sts[0][1].value, ast.Name) and sts[0][1].value.id in facts:
            out[f"self.{attr}"] = facts[sts[0][1].value.id]
    return out


def _lower_bound(e, facts, defs, depth=0):
    """A sound lower bound of a numeric expression (or -inf)."""
    if depth > 8 or e is None:
        return -math.inf
    if isinstance(e, ast.Constant) and isinstance(e.value, (int, float)) and not isinstance(e.value, bool):
        return e.value
    t = norm(e)
    if t in facts:
        return facts[t]
    if isinstance(e, ast.Name):
        if e.id in defs:
            return min(_lower_bound(v, facts, {a: b for a, b in defs.items() if a != e.id}, depth + 1) for v in defs[e.id])
        return -math.inf
    if isinstance(e, ast.Call):
        cn = norm(e.func)
        if cn == "max" and e.args and not e.keywords:
            return max(_lower_bound(a, facts, defs, depth + 1) for a in e.args)
        if cn == "min" and e.args and not e.keywords:
            return min(_lower_bound(a, facts, defs, depth + 1) for a in e.args)
        if cn in ("int", "math.floor") and len(e.args) == 1:
            lb = _lower_bound(e.args[0], facts, defs, depth + 1)
            return math.floor(lb) if lb >= 0 else -math.inf
        if cn in ("math.ceil", "round") and len(e.args) == 1:
            lb = _lower_bound(e.args[0], facts, defs, depth + 1)
            return math.floor(lb) if lb >= 0 else -math.inf
        return -math.inf
    if isinstance(e, ast.BinOp):
        a, b = _lower_bound(e.left, facts, defs, depth + 1), _lower_bound(e.right, facts, defs, depth + 1)
        if isinstance(e.op, ast.Add):
            return a + b
        if isinstance(e.op, ast.Mult):
            return a * b if a >= 0 and b >= 0 else -math.inf
        return -math.inf
    return -math.inf


def _implies_at_least_one(test, x):
    """`test` being false implies x >= 1: the test is (a disjunction containing) `x < 1`, `x <= 0`,
    `not x`, `x == 0` together with ... - only the order forms are accepted."""
    parts = test.values if isinstance(test, ast.BoolOp) and isinstance(test.op, ast.Or) else [test]
    for t in parts:
        if isinstance(t, ast.Compare) and len(t.ops) == 1 and isinstance(t.comparators[0], ast.Constant):
            c = t.comparators[0].value
            if norm(t.left) == x and ((isinstance(t.ops[0], ast.Lt) and c >= 1) or (isinstance(t.ops[0], ast.LtE) and c >= 0)):
                return True
        if isinstance(t, ast.Compare) and len(t.ops) == 1 and isinstance(t.left, ast.Constant) and norm(t.comparators[0]) == x:
            c = t.left.value
            if (isinstance(t.ops[0], ast.Gt) and c >= 1) or (isinstance(t.ops[0], ast.GtE) and c >= 0):
                return True
    return False


def _window_progress(r, k, f, wl, x, counter, total, inc):
    """Termination of the window loop: on every path through the body the counter advances by at
    least one iteration.  The loop condition gives total - counter >= 1 (integers); any other value
    of the window length needs a lower bound of 1, from the test of the branch that was not taken
    or from the definitions of the length (constructor guards, max(1, .))."""
    facts = _guard_facts(k)
    defs = {}
    for n in ast.walk(f.node):
        if isinstance(n, ast.Assign) and len(n.targets) == 1 and isinstance(n.targets[0], ast.Name):
            defs.setdefault(n.targets[0].id, []).append(n.value)
    pos = _order(f)
    pre = [s for s in wl.body if pos[id(s)] < pos[id(inc)]]
    # value of x at the increment: last assignment to x before it on each path
    paths = [("entry", None, None)]  # (how x was bound, binding expr, condition under which this path is taken)
    for s in pre:
        if isinstance(s, ast.Assign) and norm(s.targets[0]) == x:
            paths = [("assigned", s.value, None)]
        elif isinstance(s, ast.If):
            arms = []
            for arm, taken in ((s.body, True), (s.orelse, False)):
                asg = [a for a in arm if isinstance(a, ast.Assign) and norm(a.targets[0]) == x]
                if asg:
                    arms.append(("assigned", asg[-1].value, None))
                else:
                    arms += [(how, val, (s.test, taken)) if how == "entry" else (how, val, cnd) for how, val, cnd in paths]
            paths = arms
        elif any(isinstance(a, (ast.Assign, ast.AugAssign)) and norm(a.targets[0] if isinstance(a, ast.Assign) else a.target) == x for a in ast.walk(s)):
            raise AnalysisError(f"{k.name}.stages: window length bound in a statement form outside the accepted ones: {norm(s)[:60]}")
    bad = []
    for how, val, cnd in paths:
        if how == "assigned":
            try:
                is_rem = eval_expr(val, {}).equals(Rat.sym(total) - Rat.sym(counter))
            except AnalysisError:
                is_rem = False
            lb = 1 if is_rem else _lower_bound(val, facts, defs)
        else:
            # x as it entered the iteration: every definition outside `pre`
            # induction over the iterations: the value before the loop needs the bound outright, the
            # update inside the loop may assume it for the length just used
            outside = [n for n in ast.walk(f.node) if isinstance(n, ast.Assign) and len(n.targets) == 1 and norm(n.targets[0]) == x and not any(n is a for st in pre for a in ast.walk(st))]
            in_loop = {id(a) for a in ast.walk(wl)}
            dx = {a: b for a, b in defs.items() if a != x}
            lb = min((_lower_bound(n.value, {**facts, x: 1} if id(n) in in_loop else facts, dx) for n in outside), default=-math.inf)
            if cnd is not None and not cnd[1] and _implies_at_least_one(cnd[0], x):
                lb = max(lb, 1)
        r.inst({"stager": k.name, "window progress path": how, "value": norm(val) if val is not None else f"{x} from the previous iteration", "lower bound": lb if lb != -math.inf else "-inf"})
        if lb < 1:
            bad.append((how, val))
    if bad:
        srcs = sorted({norm(v) for n in ast.walk(f.node) if isinstance(n, ast.Assign) and len(n.targets) == 1 and norm(n.targets[0]) == x for v in [n.value]})
        r.violate(PROP, f"{k.name}.stages:window-loop:no-progress", f"the window loop advances `{counter}` by `{x}`, which has no lower bound of 1 on the path where the clamp is not taken (its values: {srcs}; no constructor guard, no max(1, .), no `{x} < 1` test): with an initial window of 0 iterations, or a multiplier below 1 once int() rounds a window down to 0, `{counter}` stops advancing and stages() never returns", node=wl, file=f.file)


def _remainder_nonneg(r, k, f, n_warm):
    """In the branch where fast-stage lengths are derived from n_warm_up_iter, the remainder
    n - a - b must be >= 0 (and a, b >= 0) for every n >= 1."""
    # find an If with assignments to the fast-stage length locals in both arms
    stage_len_names = set()
    for c, kw in chain_stage_calls(f)[:-1]:
        if not enclosing(f, c, (ast.For,)) and isinstance(kw.get("n_iter"), ast.Name):
            stage_len_names.add(kw["n_iter"].id)
    for n in ast.walk(f.node):
        if not (isinstance(n, ast.If) and n.orelse):
            continue
        arms = []
        for arm in (n.body, n.orelse):
            # names assigned in the arm, with temporaries of the arm substituted (also through tuple
            # assignments, e.g. when the derivation was moved into a helper and inlined back)
            d = {}
            for s in arm:
                if isinstance(s, ast.Assign) and len(s.targets) == 1:
                    t = s.targets[0]
                    if isinstance(t, ast.Tuple) and isinstance(s.value, ast.Tuple) and len(t.elts) == len(s.value.elts):
                        vals = [expand_locals(v, d) for v in s.value.elts]
                        for x, v in zip(t.elts, vals):
                            d[norm(x)] = v
                    else:
                        d[norm(t)] = expand_locals(s.value, {k2: v2 for k2, v2 in d.items() if k2 != norm(t)})
            arms.append(d)
        if not all(stage_len_names <= set(a) for a in arms):
            continue
        for d in arms:
            uses_n = any(n_warm in {x.id for x in ast.walk(d[s]) if isinstance(x, ast.Name)} for s in stage_len_names)
            if not uses_n:
                continue
            exprs = [d[s] for s in sorted(stage_len_names)]
            # exact evaluation for n = 1..N0, affine bound beyond
            us = [affine_upper(e, n_warm, d) for e in exprs]
            if any(u is None for u in us):
                raise AnalysisError(f"{k.name}.stages: cannot bound fast-stage lengths {[norm(e) for e in exprs]}")
            slope = sum(u[0] for u in us)
            const = sum(u[1] for u in us)
            if slope >= 1.0:
                raise AnalysisError(f"{k.name}.stages: fast-stage lengths grow like {slope}*n >= n")
            n0 = max(50, int(const / (1.0 - slope)) + 2)
            bad = None
            for nv in range(1, n0 + 1):
                vals = [int_expr_eval(e, n_warm, nv, d) for e in exprs]
                if any(v < 0 for v in vals) or sum(vals) > nv:
                    bad = (nv, vals)
                    break
            r.inst({"stager": k.name, "fast-stage lengths": [norm(e) for e in exprs], "checked exactly for n <=": n0, "affine bound": f"<= {slope:.3g}*n + {const:.3g}"})
            if bad:
                r.violate(PROP, f"{k.name}.stages:remainder-negative:n={bad[0]}", f"for n_warm_up_iter = {bad[0]} the fast stages take {bad[1]} iterations (sum {sum(bad[1])} > {bad[0]}): the slow-stage remainder is negative, no window is created and the warm-up stages no longer sum to the requested count", node=n, file=f.file)
        return
    raise AnalysisError(f"{k.name}.stages: branch deriving the fast-stage lengths not found")


def _is_has_iterations(t) -> bool:
    """The test reads only <stage>.n_iter and is false for 0, true for every positive count."""
    reads = {norm(n) for n in ast.walk(t) if isinstance(n, (ast.Attribute, ast.Name)) and not any(n is ch for par in ast.walk(t) if isinstance(par, ast.Attribute) for ch in [par.value])}
    if not reads or not all(x.endswith(".n_iter") for x in reads):
        return False

    def ev(e, v):
        if isinstance(e, ast.Attribute) and e.attr == "n_iter":
            return v
        if isinstance(e, ast.Constant) and isinstance(e.value, (int, float)):
            return e.value
        if isinstance(e, ast.UnaryOp) and isinstance(e.op, ast.Not):
            return not ev(e.operand, v)
        if isinstance(e, ast.BoolOp):
            vals = [ev(x, v) for x in e.values]
            return all(vals) if isinstance(e.op, ast.And) else any(vals)
        if isinstance(e, ast.Compare) and len(e.ops) == 1:
            a, b = ev(e.left, v), ev(e.comparators[0], v)
            table = {ast.Lt: a < b, ast.LtE: a <= b, ast.Gt: a > b, ast.GtE: a >= b, ast.Eq: a == b, ast.NotEq: a != b}
            if type(e.ops[0]) in table:
                return table[type(e.ops[0])]
        raise ValueError

    try:
        return not ev(t, 0) and all(bool(ev(t, v)) for v in (1, 2, 7, 1000))
    except (ValueError, TypeError):
        return False


def rule_r2(rep, program: Program, only_global: bool = False):
    r = rep.rule("R2", "step_size / metric are assigned only in constructors and Adapter methods; adapter methods run only under `adapters is not None` and from _finalize_adapters" + (" [the conditions inside _sample_chain / _finalize_adapters are decided by the abstract runs (R5)]" if only_global else ""), floor=6 if only_global else 12)
    for fn in program.all_functions():
        for n in ast.walk(fn.node):
            tgts = []
            if isinstance(n, ast.Assign):
                tgts = n.targets
            elif isinstance(n, (ast.AugAssign, ast.AnnAssign)):
                tgts = [n.target]
            for t in tgts:
                for tt in (t.elts if isinstance(t, ast.Tuple) else [t]):
                    if isinstance(tt, ast.Attribute) and tt.attr in ("step_size", "metric"):
                        owner_ok = fn.name == "__init__" or (fn.cls is not None and fn.cls.is_subclass_of("Adapter"))
                        r.inst({"store": f"{fn.qualname}: {norm(n)[:60]}", "allowed": owner_ok})
                        if not owner_ok:
                            r.violate(PROP, f"{fn.qualname}:writes:{norm(tt)}", f"{fn.qualname} assigns `{norm(tt)}`: a transition parameter is changed outside constructors and adapters, i.e. possibly during the main stage", node=n, file=fn.file)
                    if isinstance(tt, ast.Name) and False:
                        pass
        for n in ast.walk(fn.node):
            if isinstance(n, ast.Call) and norm(n.func) == "setattr" and len(n.args) >= 2 and isinstance(n.args[1], ast.Constant) and n.args[1].value in ("step_size", "metric"):
                owner_ok = fn.cls is not None and fn.cls.is_subclass_of("Adapter")
                if not owner_ok:
                    r.violate(PROP, f"{fn.qualname}:setattr:{n.args[1].value}", "transition parameter changed through setattr outside adapters", node=n, file=fn.file)
    # adapter method call sites
    allowed_callers = {"_sample_chain", "_finalize_adapters"}
    for fn in program.all_functions():
        for n in ast.walk(fn.node):
            if isinstance(n, ast.Call) and isinstance(n.func, ast.Attribute) and n.func.attr in ("initialize", "update", "finalize") and isinstance(n.func.value, ast.Name) and "adapter" in n.func.value.id:
                r.inst({"adapter call": f"{fn.qualname}: {norm(n.func)}"})
                if fn.name not in allowed_callers and not (fn.cls is not None and fn.cls.is_subclass_of("Adapter")):
                    r.violate(PROP, f"{fn.qualname}:calls:{norm(n.func)}", "adapter methods are invoked outside the chain loop / stage finalisation", node=n, file=fn.file)
    if only_global:
        return r
    f = program.func_inlined("samplers", "_sample_chain", keep=SAMPLE_CHAIN_ANCHORS)
    cfg = CFG(f.node)

    def atom(e, pol):
        if isinstance(e, ast.Compare) and len(e.ops) == 1 and norm(e.left) == "adapters" and isinstance(e.comparators[0], ast.Constant) and e.comparators[0].value is None:
            if (isinstance(e.ops[0], ast.IsNot) and pol) or (isinstance(e.ops[0], ast.Is) and not pol):
                yield ("adapters-not-none",)

    IN = must_facts(cfg, atom, None, lambda n, fa: "adapters" in stmt_defs(n))
    for n in cfg.stmts():
        e = node_expr(n)
        if e is None or n not in IN:
            continue
        for c in ast.walk(e):
            if isinstance(c, ast.Call) and isinstance(c.func, ast.Attribute) and c.func.attr in ("initialize", "update") and isinstance(c.func.value, ast.Name) and "adapter" in c.func.value.id:
                ok = ("adapters-not-none",) in IN[n]
                r.inst({"_sample_chain adapter call": norm(c.func), "guarded": ok})
                if not ok:
                    r.violate(PROP, f"_sample_chain:{norm(c.func)}:unguarded", "an adapter method is called without the `adapters is not None` guard", node=c, file=f.file)
    # every adapter of a transition is updated in every iteration of an adaptive stage: the update call runs
    # under exactly "this transition has adapters" - no further condition (e.g. on the returned statistics)
    pm_u = {ch: par for par in ast.walk(f.node) for ch in ast.iter_child_nodes(par)}
    n_upd = 0
    for c in ast.walk(f.node):
        if isinstance(c, ast.Call) and isinstance(c.func, ast.Attribute) and c.func.attr == "update" and isinstance(c.func.value, ast.Name) and "adapter" in c.func.value.id:
            st_u = c
            while st_u in pm_u and not isinstance(st_u, ast.stmt):
                st_u = pm_u[st_u]
            conds_u = execution_condition(f.node, st_u, stop_at=(ast.FunctionDef,))
            # tests of the enclosing try/loops that do not select iterations or transitions are none; keep all If tests
            eqv = bool_equivalent(conds_u, ast.parse("adapters is not None and trans_key in adapters", mode="eval").body)
            n_upd += 1
            txt = " and ".join(("" if tr else "not ") + f"({norm(t)})" for t, tr in conds_u)
            r.inst({"_sample_chain adapter update runs under": txt, "equivalent to 'the transition has adapters'": eqv})
            if eqv is not True:
                r.violate(PROP, f"_sample_chain:adapter.update:condition:{txt[:60]}", f"adapter.update runs under `{txt}`, which is not equivalent to `adapters is not None and trans_key in adapters`: in an adaptive stage some iterations / transitions are then not shown to the adapter (it is still initialised and finalised, so an un-updated initial state is written to the transition and used by the main stage)", node=c, file=f.file)
    if n_upd == 0:
        raise AnalysisError("_sample_chain: adapter.update call not found")
    sc = program.method("MarkovChainMonteCarloMethod", "sample_chains")
    fin = [c for c in ast.walk(sc.node) if isinstance(c, ast.Call) and norm(c.func) == "_finalize_adapters"]
    for c in fin:
        args = [norm(a) for a in c.args]
        r.inst({"finalize call": args})
        if len(args) < 3 or args[2] != "stage.adapters":
            r.violate(PROP, f"sample_chains:_finalize_adapters:{args}", "adapters finalised are not the current stage's adapters", node=c, file=sc.file)
    # guard of the finalisation: it must run whenever the stage produced adapter states at all
    nonempty = {"len(adapter_states) > 0", "len(adapter_states) != 0", "len(adapter_states) >= 1", "0 < len(adapter_states)", "adapter_states", "len(adapter_states)", "bool(adapter_states)", "stage.adapters is not None", "stage.adapters", "adapter_states is not None"}
    parents = {}
    for n in ast.walk(sc.node):
        for ch in ast.iter_child_nodes(n):
            parents[ch] = n
    for c in fin:
        conj = []
        node = c
        while node in parents and not isinstance(parents[node], ast.For):
            par = parents[node]
            if isinstance(par, ast.If):
                in_body = any(node is x for x in par.body)
                tests = par.test.values if isinstance(par.test, ast.BoolOp) and isinstance(par.test.op, ast.And) else [par.test]
                if not in_body:
                    tests = [ast.UnaryOp(op=ast.Not(), operand=par.test)]
                conj.extend(tests)
            node = par
        r.inst({"finalisation guard": [norm(t) for t in conj]})
        if not conj:
            continue
        for t in conj:
            txt = norm(t)
            if txt in nonempty:
                continue
            # "the stage has iterations" (the zero-length skip written as an enclosing test): R3 decides that clause
            if _is_has_iterations(t):
                continue
            if "adapter_states" in txt or "adapters" in txt:
                r.violate(PROP, f"sample_chains:finalize-guard:{txt[:60]}", f"stage finalisation is additionally guarded by `{txt}`, which is stronger than 'the stage produced adapter states': a stage that performed adaptation updates can end without _finalize_adapters (e.g. one transition without active adapters next to one with), so the main stage runs with an unfinalised step size / metric", node=t if hasattr(t, "lineno") else c, file=sc.file)
            else:
                raise AnalysisError(f"sample_chains: finalisation guarded by a condition outside the grammar: {txt[:60]}")
    # _finalize_adapters visits every (transition, adapter) pair unconditionally and pairs each
    # adapter with its own states and its own transition
    fa = program.func("samplers", "_finalize_adapters")
    calls = [c for c in ast.walk(fa.node) if isinstance(c, ast.Call) and isinstance(c.func, ast.Attribute) and c.func.attr == "finalize"]
    if len(calls) != 1:
        raise AnalysisError("_finalize_adapters: expected exactly one .finalize(...) call")
    fparents = {}
    for n in ast.walk(fa.node):
        for ch in ast.iter_child_nodes(n):
            fparents[ch] = n
    chain = []
    node = calls[0]
    while node in fparents:
        node = fparents[node]
        chain.append(node)
    loops = [n for n in chain if isinstance(n, ast.For)]
    conds = [n for n in chain if isinstance(n, (ast.If, ast.While, ast.Try))]
    jumps = [n for n in ast.walk(fa.node) if isinstance(n, (ast.Break, ast.Continue, ast.Return)) and not (isinstance(n, ast.Return) and n.value is None and n is fa.node.body[-1])]
    outer = loops[-1] if loops else None
    inner = loops[0] if len(loops) > 1 else None
    shape_ok = (
        len(loops) == 2 and not conds and not jumps
        and norm(outer.iter) == f"{fa.params[0]}.items()"
        and isinstance(inner.iter, ast.Call) and norm(inner.iter.func) == "zip" and len(inner.iter.args) == 2
    )
    r.inst({"_finalize_adapters": [norm(l.iter)[:60] for l in loops], "conditions": len(conds), "jumps": len(jumps)})
    if not shape_ok:
        r.violate(PROP, "_finalize_adapters:not-all-pairs", "_finalize_adapters does not visit every (transition, adapter) pair unconditionally (loop over all items of the state dictionary, zip of that transition's states and adapters, no condition / break / slice): some adapter of a stage that updated is never finalised", node=fa.node, file=fa.file)
    else:
        key, lst = (norm(x) for x in outer.target.elts)
        a_states, a_adapter = (norm(x) for x in inner.target.elts)
        z = [norm(x) for x in inner.iter.args]
        c = calls[0]
        args = [norm(a) for a in c.args]
        pair_ok = z == [lst, f"{fa.params[2]}[{key}]"] and norm(c.func.value) == a_adapter and args[0] == a_states and args[2] == f"{fa.params[3]}[{key}]" and args[1] == fa.params[1]
        r.inst({"pairing": z, "finalize args": args})
        if not pair_ok:
            r.violate(PROP, f"_finalize_adapters:pairing:{z}:{args}"[:120], "an adapter is not finalised with its own per-chain states on its own transition (states list of the key zipped with adapters[key]; transitions[key])", node=c, file=fa.file)
    kws = [k for c in ast.walk(sc.node) if isinstance(c, ast.Call) and norm(c.func) == "sample_chains_func" for k in c.keywords if k.arg == "adapters"]
    if not kws or norm(kws[0].value) != "stage.adapters":
        r.violate(PROP, f"sample_chains:adapters={norm(kws[0].value) if kws else None}", "chains are not given the current stage's adapters", node=sc.node, file=sc.file)
    return r


def rule_r3(rep, program: Program):
    r = rep.rule("R3", "a stage with zero iterations is skipped before sampling / adapter initialisation / finalisation", floor=2)
    sc = program.method("MarkovChainMonteCarloMethod", "sample_chains")
    cfg = CFG(sc.node)

    def atom(e, pol):
        t = norm(e)
        if t in ("stage.n_iter == 0", "0 == stage.n_iter") and not pol:
            yield ("nonempty",)
        if t in ("stage.n_iter > 0", "stage.n_iter != 0", "stage.n_iter >= 1", "0 < stage.n_iter", "stage.n_iter") and pol:
            yield ("nonempty",)
        if t in ("stage.n_iter <= 0", "stage.n_iter < 1") and not pol:
            yield ("nonempty",)

    IN = must_facts(cfg, atom, None, lambda n, fa: "stage" in stmt_defs(n))
    found = 0
    for n in cfg.stmts():
        e = node_expr(n)
        if e is None or n not in IN:
            continue
        for c in ast.walk(e):
            if isinstance(c, ast.Call) and norm(c.func) in ("sample_chains_func", "_finalize_adapters"):
                found += 1
                ok = ("nonempty",) in IN[n]
                r.inst({"call": norm(c.func), "dominated by stage.n_iter != 0": ok})
                if not ok:
                    r.violate(PROP, f"sample_chains:{norm(c.func)}:empty-stage-not-skipped", f"{norm(c.func)} runs for stages with n_iter == 0: adapters are initialised and finalised without a single update (the dual-averaging adapter then sets step_size = exp(0) = 1), so an initial default leaks into later stages", node=c, file=sc.file)
    if found < 2:
        raise AnalysisError("sample_chains: sampling / finalisation calls not found in the stage loop")
    return r


def run(rep, program: Program, tier: str) -> None:
    rep.explanation = (
        "Stage partition as a polynomial identity over the stage constructors plus the window-loop "
        "invariant; non-negativity of the slow-stage remainder decided on the extracted integer "
        "expressions (exact evaluation of the expression tree for small n, affine bound beyond); "
        "who-may-write analysis for step_size/metric; dominance of the empty-stage guard."
    )
    rep.assumptions = ["stager constructor arguments are non-negative integers and slow_window_multiplier >= 0", "arithmetic of the adapters themselves is C17"]
    from . import samplersim

    samplersim.with_fallback(rep, program, tier, "R5", rule_r1, rep, program)
    # who may write step_size / metric and who may call adapter methods is a whole-program scan (always structural);
    # the conditions inside _sample_chain / _finalize_adapters are decided by the abstract runs when available
    rep.isolate(rule_r2, rep, program, only_global=samplersim.available(program, tier))
    rep.isolate(rule_r3, rep, program)
    from . import samplersim

    rep.isolate(samplersim.rule, rep, program, tier, PROP, "R5")
