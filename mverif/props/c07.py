"""C07 - component flow maps are the exact flows of their Hamiltonian components.

 R1 h1_flow writes only mom with mom' = mom - dt*dh1_dpos; the drift flow writes only pos with
    pos' = pos + dt*dh2_dmom (per concrete class, resolved under the MRO)
 R2 the closed-form harmonic flow (Gaussian-split systems) is the exact flow: symbolic
    execution in the metric eigenbasis, then (a) it solves Hamilton's equations of the class's
    own h2 derivatives for all t (d/dt computed symbolically through sin/cos), (b) it is the
    identity at t = 0, (c) frequencies are eigval**-0.5 and both trig functions take omega*dt,
    (d) both variables are rotated into and out of the eigenbasis (eigvec.T inside, eigvec outside)
 R3 dh2_flow_dmom agrees with the momentum coefficients of the flow it describes
 R4 implicit-size safety: matrix members the flows use never hand an implicit (None) size to an
    array allocator without a guard
 R5 quantities derived from the (adaptable) metric are not memoised at object level in systems
"""

from __future__ import annotations

import ast

from ..effects import StateEffects
from ..model import Program, call_name, execution_condition, is_self_attr, norm, expand_locals, single_assignment_locals
from ..poly import Rat, sqrt_of
from ..report import AnalysisError
from ..symexec import SymEnv
from . import c09

PROP = "C07"


def S(x):
    return Rat.sym(x)


def rule_r1(rep, program: Program):
    r = rep.rule("R1", "kick and drift flows: write set and linear form (mom' = mom - dt*dh1_dpos, pos' = pos + dt*dh2_dmom)", floor=10)
    se = StateEffects(program)
    seen = set()
    for k in c09.system_classes(program):
        for name, var, dname, sign in (("h1_flow", "mom", "dh1_dpos", -1), ("h2_flow", "pos", "dh2_dmom", +1)):
            f = k.resolve(name)
            if f is None:
                continue
            if name == "h2_flow" and k.is_subclass_of("GaussianEuclideanMetricSystem"):
                continue  # closed-form rotation: R2
            sp = se.state_params(f)[0]
            dt = f.params[2]
            eff = se.effects(k, f, sp)
            r.inst({"class": k.name, "flow": f.qualname, "writes": sorted(eff.writes)})
            if f.qualname in seen:
                continue
            seen.add(f.qualname)
            if set(eff.writes) != {var}:
                r.violate(PROP, f"{f.qualname}:writes={sorted(eff.writes)}", f"{name} must change only `{var}` but writes {sorted(eff.writes)}", node=f.node, file=f.file)
            env = SymEnv({})
            env.run(f.body_without_docstring())
            got = env.env.get(f"{sp}.{var}")
            want = S(f"{sp}.{var}") + Rat.const(sign) * S(dt) * S(f"call[self.{dname}({sp})]")
            if got is None or not got.equals(want):
                r.violate(PROP, f"{f.qualname}:{var}'={got!r}", f"{name} sets {var}' = {got!r}; the exact flow of this component is {var} {'-' if sign < 0 else '+'} dt * {dname}", node=f.node, file=f.file)
    return r


TRIVIAL_EIGENBASIS = {"IdentityMatrix", "ScaledIdentityMatrix", "PositiveScaledIdentityMatrix", "DiagonalMatrix", "PositiveDiagonalMatrix"}


def gaussian_flow_variants(program: Program):
    """The harmonic flow, once per path selected by a test on the type of the metric
    (`if isinstance(self.metric, C): <fast path>`): [(label, rotation-free allowed?, env)]."""
    k = program.cls("GaussianEuclideanMetricSystem")
    f = k.methods.get("h2_flow")
    if f is None:
        raise AnalysisError("GaussianEuclideanMetricSystem.h2_flow not found")
    body = list(f.body_without_docstring())
    paths = [("general", False, body)]
    for i, st in enumerate(body):
        if not isinstance(st, ast.If):
            continue
        t, neg = st.test, False
        if isinstance(t, ast.UnaryOp) and isinstance(t.op, ast.Not):
            t, neg = t.operand, True
        if isinstance(t, ast.Call) and norm(t.func) == "isinstance" and len(t.args) == 2 and norm(t.args[0]) == "self.metric":
            classes = [norm(x).split(".")[-1] for x in (t.args[1].elts if isinstance(t.args[1], ast.Tuple) else [t.args[1]])]
            special, general = (st.orelse, st.body) if neg else (st.body, st.orelse)

            def seq(arm):
                arm = list(arm)
                leaves = bool(arm) and isinstance(arm[-1], ast.Return)
                arm = [x for x in arm if not isinstance(x, ast.Return)]
                return body[:i] + arm + ([] if leaves else body[i + 1 :])

            trivial = all(c in TRIVIAL_EIGENBASIS for c in classes)
            paths = [("general", False, seq(general)), (f"fast path for {'/'.join(classes)}", trivial, seq(special))]
            break
    out = []
    for label, rot_free, stmts in paths:
        env = SymEnv({"self.metric.eigval": S("R") * S("R"), "self.metric.scalar": S("R") * S("R"), "self.metric.diagonal": S("R") * S("R")}, cls=k)  # eigval = R**2 per eigen-mode (eigval > 0)
        env.run(stmts)
        out.append((label, rot_free, env))
    return k, f, out


def gaussian_flow(program: Program):
    k, f, variants = gaussian_flow_variants(program)
    return k, f, variants[0][2]


E, ET = "self.metric.eigvec", "self.metric.eigvec.T"


def rule_r2(rep, program: Program):
    r = rep.rule("R2", "harmonic flow is the exact flow of h2 in the metric eigenbasis: solves Hamilton's equations for all t, identity at t=0, frequencies eigval**-1/2, rotation into/out of the eigenbasis", floor=8)
    k, f, variants = gaussian_flow_variants(program)
    for label, rot_free, env in variants:
        _r2_path(r, program, k, f, env, label, rot_free)
    return r


def _r2_path(r, program, k, f, env, label, rot_free):
    sp, dt = f.params[1], f.params[2]
    q1, p1 = env.env.get(f"{sp}.pos"), env.env.get(f"{sp}.mom")
    if q1 is None or p1 is None:
        r.violate(PROP, f"{f.qualname}[{label}]:writes", "the harmonic flow does not assign both position and momentum", node=f.node, file=f.file)
        return r
    root = S("R")
    lam = root * root
    omega = Rat.const(1) / root
    # (c) trig arguments
    sins = [n for n in env.trig if n.startswith("sin[")]
    coss = [n for n in env.trig if n.startswith("cos[")]
    r.inst({"trig": sorted(env.trig)})
    if len(sins) + len(coss) == 1:
        have = "sin" if sins else "cos"
        miss = "cos" if sins else "sin"
        r.violate(PROP, f"{f.qualname}[{label}]:single-trig-term:{have}", f"the harmonic flow evaluates only {have}(omega*dt); the {miss} factor it needs is then derived from that value (e.g. sqrt(1 - {have}**2) = |{miss}|), which loses its sign: the map is the exact flow only while omega*|dt| stays within a quarter period", node=f.node, file=f.file)
        return r
    if len(sins) != 1 or len(coss) != 1:
        raise AnalysisError(f"{f.qualname}[{label}]: expected exactly one sin and one cos term")
    s, c = S(sins[0]), S(coss[0])
    for nm in (sins[0], coss[0]):
        arg = env.trig[nm]
        ok = arg.equals(omega * S(dt))
        r.inst({"argument of": nm[:3], "value": repr(arg), "ok": ok})
        if not ok:
            r.violate(PROP, f"{f.qualname}[{label}]:{nm[:3]}-argument:{arg!r}", f"{nm[:3]} is evaluated at {arg!r}; the oscillation frequency of h2 = q.q/2 + p.M^-1.p/2 in the eigenbasis of M is eigval**-1/2, so the argument must be dt * eigval**-1/2", node=f.node, file=f.file)
    # (d) eigenbasis structure: every term of q', p' is E * ET * (...) exactly once each
    for nm, v in (("pos", q1), ("mom", p1)):
        bad = False
        for m, _c in v.num.t.items():
            d = dict(m)
            if (d.get(E, 0), d.get(ET, 0)) != (1, 1) and not (rot_free and (d.get(E, 0), d.get(ET, 0)) == (0, 0)):
                bad = True
        r.inst({"eigenbasis structure of": nm, "ok": not bad})
        if bad:
            r.violate(PROP, f"{f.qualname}[{label}]:{nm}:eigenbasis", f"the new {nm} is not of the form eigvec @ (... eigvec.T @ x ...): a rotation into or out of the eigenbasis is missing or doubled", node=f.node, file=f.file)
    # scalar (per-mode) model: eigvec, eigvec.T -> 1
    one = Rat.const(1)
    q1s = q1.subs(E, one).subs(ET, one)
    p1s = p1.subs(E, one).subs(ET, one)
    q, p = S(f"{sp}.pos"), S(f"{sp}.mom")
    # (b) identity at t = 0
    q0 = q1s.subs(sins[0], Rat.const(0)).subs(coss[0], one)
    p0 = p1s.subs(sins[0], Rat.const(0)).subs(coss[0], one)
    ok0 = q0.equals(q) and p0.equals(p)
    r.inst({"identity at t=0": ok0})
    if not ok0:
        r.violate(PROP, f"{f.qualname}[{label}]:t0:{q0!r},{p0!r}", f"at dt = 0 the flow returns ({q0!r}, {p0!r}) instead of (pos, mom)", node=f.node, file=f.file)
    # (a) Hamilton's equations with the class's own derivative methods
    def d_dt(v: Rat) -> Rat:
        return v.diff(coss[0]) * (-omega * s) + v.diff(sins[0]) * (omega * c)

    dq = SymEnv({})
    g = k.resolve("dh2_dmom")
    dq.run([ast.Assign(targets=[ast.Name(id="_ret", ctx=ast.Store())], value=[n for n in ast.walk(g.node) if isinstance(n, ast.Return)][0].value)])
    dhdp = dq.env["_ret"]  # in symbols self.metric.inv, state.mom
    g2 = k.resolve("dh2_dpos")
    dq2 = SymEnv({})
    dq2.run([ast.Assign(targets=[ast.Name(id="_ret", ctx=ast.Store())], value=[n for n in ast.walk(g2.node) if isinstance(n, ast.Return)][0].value)])
    dhdq = dq2.env["_ret"]
    inv_lam = one / lam  # M^-1 acts as 1/eigval per mode
    sp_g = g.params[1]
    rhs_q = dhdp.subs_many({"self.metric.inv": inv_lam, f"{sp_g}.mom": p1s, f"{sp_g}.pos": q1s}) if "self.metric.inv" in dhdp.symbols() else None
    if rhs_q is None:
        raise AnalysisError(f"{g.qualname}: not of the form metric.inv @ mom")
    rhs_p = -(dhdq.subs_many({f"{g2.params[1]}.pos": q1s, f"{g2.params[1]}.mom": p1s}))
    lhs_q, lhs_p = d_dt(q1s), d_dt(p1s)
    # eigval = sqrt(eigval)**2
    okq = (lhs_q - rhs_q).is_zero()
    okp = (lhs_p - rhs_p).is_zero()
    r.inst({"d pos'/dt == dh2_dmom(pos', mom')": okq, "lhs": repr(lhs_q)[:100]})
    r.inst({"d mom'/dt == -dh2_dpos(pos', mom')": okp, "lhs": repr(lhs_p)[:100]})
    if not okq:
        r.violate(PROP, f"{f.qualname}[{label}]:ode:pos", f"the position output does not satisfy dq/dt = dh2/dp along the flow: d/dt = {lhs_q!r} but dh2_dmom at the flowed state is {rhs_q!r} (per eigen-mode)", node=f.node, file=f.file)
    if not okp:
        r.violate(PROP, f"{f.qualname}[{label}]:ode:mom", f"the momentum output does not satisfy dp/dt = -dh2/dq along the flow: d/dt = {lhs_p!r} but -dh2_dpos at the flowed state is {rhs_p!r} (per eigen-mode)", node=f.node, file=f.file)
    return r


def rule_r3(rep, program: Program, prop=PROP, rule="R3"):
    PROP = prop  # noqa: N806
    r = rep.rule(rule, "dh2_flow_dmom blocks equal the momentum coefficients of the flow (Euclidean drift and Gaussian rotation)", floor=4)
    one = Rat.const(1)
    # Euclidean: pos' = pos + dt*metric.inv@mom ; blocks (dt*metric.inv, I)
    k = program.cls("ConstrainedEuclideanMetricSystem")
    f = k.methods.get("dh2_flow_dmom")
    ret = expand_locals([n for n in ast.walk(f.node) if isinstance(n, ast.Return)][0].value, single_assignment_locals(f.node))
    if not (isinstance(ret, ast.Tuple) and len(ret.elts) == 2):
        raise AnalysisError(f"{f.qualname}: does not return a pair")
    dt = f.params[2]
    env = SymEnv({})
    a = env.ev(ret.elts[0])
    flow = program.cls("EuclideanMetricSystem").methods["h2_flow"]
    fe = SymEnv({})
    fe.run(flow.body_without_docstring())
    posn = fe.env.get(f"{flow.params[1]}.pos")
    dhm = program.cls("EuclideanMetricSystem").methods["dh2_dmom"]
    dq = SymEnv({})
    dq.run([ast.Assign(targets=[ast.Name(id="_ret", ctx=ast.Store())], value=[n for n in ast.walk(dhm.node) if isinstance(n, ast.Return)][0].value)])
    vel = dq.env["_ret"]
    coef = posn.subs(f"call[self.dh2_dmom({flow.params[1]})]", vel).coeff_of(f"{dhm.params[1]}.mom") if posn is not None else None
    want = coef.subs(flow.params[2], S(dt)) if coef is not None else None
    r.inst({"Euclidean dpos/dmom": repr(a), "flow coefficient": repr(want)})
    if want is None or not a.equals(want):
        r.violate(PROP, f"{f.qualname}:dpos_dmom:{a!r}", f"dh2_flow_dmom reports dpos/dmom = {a!r} but the drift flow moves the position by {want!r} @ mom", node=f.node, file=f.file)
    b = ret.elts[1]
    okb = isinstance(b, ast.Call) and call_name(b).endswith("IdentityMatrix")
    r.inst({"Euclidean dmom/dmom": norm(b)})
    if not okb:
        r.violate(PROP, f"{f.qualname}:dmom_dmom:{norm(b)[:40]}", "the drift flow leaves the momentum unchanged, so dmom/dmom must be the identity", node=f.node, file=f.file)
    # Gaussian
    k2, hf, env = gaussian_flow(program)
    sp = hf.params[1]
    q1, p1 = env.env[f"{sp}.pos"], env.env[f"{sp}.mom"]
    q1s = q1.subs(E, one).subs(ET, one)
    p1s = p1.subs(E, one).subs(ET, one)
    cq, cp = q1s.coeff_of(f"{sp}.mom"), p1s.coeff_of(f"{sp}.mom")
    kg = program.cls("GaussianDenseConstrainedEuclideanMetricSystem")
    g = kg.methods.get("dh2_flow_dmom")
    if g is None:
        raise AnalysisError("GaussianDenseConstrainedEuclideanMetricSystem.dh2_flow_dmom not found")
    ge = SymEnv({"self.metric.eigval": S("R") * S("R")}, cls=kg)
    body = g.body_without_docstring()
    ge.run(body[:-1])
    ret = body[-1].value
    # matrix-valued temporaries (constructor calls) named before the return are expanded; scalar
    # temporaries have already been executed symbolically above
    ctor_defs = {k2: v2 for k2, v2 in single_assignment_locals(g.node).items() if isinstance(v2, ast.Call) and call_name(v2).split(".")[-1][:1].isupper()}
    ret = expand_locals(ret, ctor_defs)
    if not (isinstance(ret, ast.Tuple) and len(ret.elts) == 2):
        raise AnalysisError(f"{g.qualname}: does not return a pair")
    dtg = g.params[2]
    for nm, el, want in (("dpos_dmom", ret.elts[0], cq), ("dmom_dmom", ret.elts[1], cp)):
        if not (isinstance(el, ast.Call) and call_name(el).endswith("EigendecomposedSymmetricMatrix") and len(el.args) == 2):
            raise AnalysisError(f"{g.qualname}: {nm} is not an EigendecomposedSymmetricMatrix(eigvec, eigval)")
        evec, evals = norm(el.args[0]), ge.ev(el.args[1])
        want_g = want
        # rename dt symbol and trig symbols consistently
        txt_w, txt_g = repr(want_g).replace(hf.params[2], "DT"), repr(evals).replace(dtg, "DT")
        ok = txt_w == txt_g and evec == E
        r.inst({"Gaussian block": nm, "reported eigenvalues": repr(evals)[:80], "flow coefficient": repr(want)[:80]})
        if not ok:
            r.violate(PROP, f"{g.qualname}:{nm}:{evals!r}"[:150], f"dh2_flow_dmom reports {nm} with eigenvalues {evals!r} (eigenvectors {evec}) but the flow's momentum coefficient per eigen-mode is {want!r}", node=g.node, file=g.file)
    return r


ALLOCATORS = {"np.ones", "np.zeros", "np.identity", "np.eye", "np.full", "np.empty", "np.arange", "range"}
FLOW_MEMBERS = {"diagonal", "eigval", "eigvec", "_left_matrix_multiply", "_right_matrix_multiply", "_construct_inv", "_construct_transpose", "_construct_sqrt", "_scalar_multiply", "inv", "sqrt", "transpose"}


def rule_r4(rep, program: Program):
    r = rep.rule("R4", "matrix classes constructible with an implicit size never pass self.shape[0] to an array allocator unguarded in members the flows use", floor=3)
    for k in program.subclasses("Matrix", concrete_only=True):
        init = k.resolve("__init__")
        a = init.node.args
        defaults = dict(zip([x.arg for x in (a.posonlyargs + a.args)][len(a.posonlyargs + a.args) - len(a.defaults):], a.defaults))
        if not ("size" in defaults and isinstance(defaults["size"], ast.Constant) and defaults["size"].value is None):
            continue
        for name in sorted(FLOW_MEMBERS):
            f = k.resolve(name)
            if f is None or f.is_abstract or f.cls is None or not any(c is f.cls for c in k.mro):
                continue
            pm = {}
            for n in ast.walk(f.node):
                for c in ast.iter_child_nodes(n):
                    pm[c] = n
            for n in ast.walk(f.node):
                if isinstance(n, ast.Call) and call_name(n) in ALLOCATORS and any(norm(x) == "self.shape[0]" for x in n.args):
                    guarded = False
                    cur = n
                    while cur in pm:
                        par = pm[cur]
                        if isinstance(par, ast.IfExp) and "self.shape[0] is None" in norm(par.test) and cur is par.orelse:
                            guarded = True
                        if isinstance(par, ast.IfExp) and "self.shape[0] is not None" in norm(par.test) and cur is par.body:
                            guarded = True
                        cur = par
                    # the enclosing statement executes only when the size is known (if-arm or a preceding
                    # guard clause that leaves the function)
                    stmt = n
                    while stmt in pm and not isinstance(stmt, ast.stmt):
                        stmt = pm[stmt]
                    for test, truth in execution_condition(f.node, stmt):
                        t = norm(test)
                        if (t == "self.shape[0] is None" and truth is False) or (t == "self.shape[0] is not None" and truth is True):
                            guarded = True
                    # dominating `if self.shape[0] is None: raise`
                    for st in f.body_without_docstring():
                        if isinstance(st, ast.If) and "self.shape[0] is None" in norm(st.test) and any(isinstance(s, ast.Raise) for s in st.body) and st.lineno < n.lineno:
                            guarded = True
                    r.inst({"class": k.name, "member": f.qualname, "allocator": norm(n)[:50], "guarded": guarded})
                    if not guarded:
                        r.violate(PROP, f"{f.qualname}:{norm(n)[:40]}:implicit-size", f"`{norm(n)[:60]}` receives self.shape[0], which is None for an implicit-size {k.name}: TypeError on NumPy 2 when a flow asks for {name} of the default metric", node=n, file=f.file)
        r.inst({"class with implicit size": k.name})
    return r


MEMO_DECORATORS = ("cached_property", "functools.cached_property", "lru_cache", "functools.lru_cache", "cache", "functools.cache")


def rule_r5(rep, program: Program, prop=PROP, rule="R5"):
    PROP = prop  # noqa: N806
    r = rep.rule(rule, "no object-level memoisation (cached_property / lru_cache / lazy slot) of quantities derived from self.metric in system classes", floor=10)
    for k in program.subclasses("System"):
        for name, f in k.methods.items():
            reads_metric = any(is_self_attr(n, "metric") for n in ast.walk(f.node))
            decos = [norm(d.func if isinstance(d, ast.Call) else d) for d in f.node.decorator_list]
            memo = [d for d in decos if d in MEMO_DECORATORS]
            lazy = [n for n in ast.walk(f.node) if isinstance(n, ast.If) and isinstance(n.test, ast.Compare) and is_self_attr(n.test.left) and isinstance(n.test.ops[0], ast.Is) and any(isinstance(s, ast.Assign) and any(is_self_attr(t) for t in s.targets) for s in n.body)] if name != "__init__" else []
            # any other store into the system object outside the constructor (a dict used as a cache,
            # a plain attribute): self.x = ..., self.x[k] = ..., self.x.setdefault / update / append
            if name != "__init__" and not f.is_setter:
                for n in ast.walk(f.node):
                    tg = n.targets if isinstance(n, ast.Assign) else [n.target] if isinstance(n, (ast.AugAssign, ast.AnnAssign)) else []
                    for t in tg:
                        for tt in (t.elts if isinstance(t, ast.Tuple) else [t]):
                            base = tt
                            while isinstance(base, ast.Subscript):
                                base = base.value
                            if is_self_attr(base) and base.attr not in ("metric",):
                                lazy.append(n)
                    if isinstance(n, ast.Call) and isinstance(n.func, ast.Attribute) and is_self_attr(n.func.value) and n.func.attr in ("setdefault", "update", "append", "add", "__setitem__"):
                        lazy.append(n)
            r.inst({"method": f.qualname, "reads self.metric": reads_metric}, exercised=reads_metric)
            if reads_metric and (memo or lazy):
                how = memo[0] if memo else "a lazily filled attribute"
                r.violate(PROP, f"{f.qualname}:memoised-metric-derived", f"{f.qualname} derives a value from self.metric and keeps it in {how}: metric adapters reassign system.metric, after which the flow keeps using quantities of the old metric", node=f.node, file=f.file)
            # transitive: memoised method calling self.<m> whose body reads metric (one level)
            if memo and not reads_metric:
                for c in ast.walk(f.node):
                    if isinstance(c, ast.Call) and is_self_attr(c.func):
                        g = k.resolve(c.func.attr)
                        if g is not None and any(is_self_attr(n, "metric") for n in ast.walk(g.node)):
                            r.violate(PROP, f"{f.qualname}:memoised-metric-derived", f"{f.qualname} memoises a value computed from self.metric (via {g.qualname})", node=f.node, file=f.file)
    return r


def run(rep, program: Program, tier: str) -> None:
    rep.explanation = (
        "Write sets and linear forms of the explicit flows; symbolic execution of the closed-form "
        "harmonic flow in the metric eigenbasis with symbolic time differentiation through sin/cos, "
        "checked against the class's own dh2 derivatives (an expression that satisfies the ODE for "
        "all t and is the identity at t=0 is the exact flow); agreement of dh2_flow_dmom with the "
        "flows' momentum coefficients; implicit-size guards; no object-level memoisation of "
        "metric-derived quantities."
    )
    rep.assumptions = [
        "per-eigen-mode scalar model: eigvec is orthogonal and metric.inv acts as 1/eigval in the eigenbasis (C10)",
        "d/dt sin = cos, d/dt cos = -sin",
    ]
    rep.isolate(rule_r1, rep, program)
    rep.isolate(rule_r2, rep, program)
    rep.isolate(rule_r3, rep, program)
    rep.isolate(rule_r4, rep, program)
    rep.isolate(rule_r5, rep, program)
    # a derivative that updates a cached array in place is wrong from its second evaluation on (shared with C09-R9)
    rep.isolate(c09.rule_r9, rep, program, prop=PROP, rule="R6")
    # a flow that reads a cached velocity which *is* another state's momentum array is not the flow of its own state (shared with C09-R8)
    rep.isolate(c09.rule_r8, rep, program, prop=PROP, rule="R7")
    # "the second flow conserves that component's energy": the component values read before and after a flow must be
    # those of the current state, i.e. every cached value method declares all state variables it reads (shared with C09-R1)
    from ..effects import StateEffects

    rep.isolate(c09.rule_r1, rep, program, StateEffects(program), prop=PROP, rule="R8")
    # h1_flow is the exact flow of h1 only if dh1_dpos is the gradient of the system's own h1 (shared with C05-R3)
    from . import c05

    rep.isolate(c05.rule_r3, rep, program, prop=PROP, rule="R9")
    # each system's flows must use that system's own cached derivatives: the cache key identifies the system object
    # (shared with C09-R6)
    rep.isolate(c09.rule_r6, rep, program, prop=PROP, rule="R10")
