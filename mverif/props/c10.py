"""C10 - structured matrix expressions agree with dense linear algebra.

 R1 sibling agreement: for each class in the table the left product, right product, dense array
    and transpose denote one operator (exact operator algebra, symbolic evaluation of the
    members against the class's denotation)
 R2 sign parity of every member of the sign-carrying families (exact in Z2): a value that is
    neither even nor odd under a reparametrisation that leaves the matrix unchanged is wrong
 R4 algebraic identities: _construct_inv @ self == I, sqrt @ sqrt.T == self,
    _scalar_multiply(c) == c * self (both sign branches), Woodbury through the capacitance lemma
 R5 consistency of forwarded caches: a capacitance matrix handed to a constructor equals the
    definition K^-1 + s V A^-1 U evaluated on the other new arguments; lower/upper flags follow
    transposition
 R6 triangular provenance (shared with C08-R4)
"""

from __future__ import annotations

import ast

from ..lincomb import LinComb
from ..matalg import Alg, MatEval, NeedSplit, Val
from ..model import Program, call_name, is_self_attr, norm, inline_private_helpers
from ..poly import Rat, sign_atom
from ..report import AnalysisError
from ..typeeval import TOP, Lattice, TypeEval
from . import c08

PROP = "C10"

# constructor parameter -> (kind, atom name); kinds: scalar, sign, mat, sym, orth, diagvec, flag, cache, ignore
PARAMS = {
    "scalar": ("scalar", "c0"), "size": ("ignore", None), "diagonal": ("diagvec", "D"), "array": ("mat", "A"),
    "inverse_array": ("mat", "A"), "lower": ("flag", "lower"), "make_triangular": ("ignore", None),
    "factor": ("mat", "F"), "sign": ("sign", "s"), "factor_is_lower": ("ignore", None), "is_posdef": ("ignore", None),
    "orth_array": ("orth", "Q"), "eigvec": ("orth", "Q"), "eigval": ("diagvec", "E"),
    "left_factor_matrix": ("mat", "L"), "right_factor_matrix": ("mat", "R"), "square_matrix": ("mat", "A"),
    "inner_square_matrix": ("mat", "K"), "capacitance_matrix": ("mat", "C"), "factor_matrix": ("mat", "U"),
    "symmetric_matrix": ("sym", "A"), "inner_symmetric_matrix": ("sym", "K"), "pos_def_matrix": ("sym", "A"),
    "inner_pos_def_matrix": ("sym", "K"), "inv_array": ("mat", "A"), "inv_lu_and_piv": ("ignore", None),
    "inv_lu_transposed": ("ignore", None), "lu_and_piv": ("ignore", None), "lu_transposed": ("ignore", None),
    "blocks": ("ignore", None), "matrices": ("ignore", None), "check_shapes": ("ignore", None),
    "rect_matrix": ("mat", "B"),
}

CLASSES = [
    "ScaledIdentityMatrix", "PositiveScaledIdentityMatrix", "DiagonalMatrix", "PositiveDiagonalMatrix",
    "TriangularMatrix", "InverseTriangularMatrix", "TriangularFactoredDefiniteMatrix",
    "TriangularFactoredPositiveDefiniteMatrix", "DenseDefiniteMatrix", "DensePositiveDefiniteMatrix",
    "OrthogonalMatrix", "ScaledOrthogonalMatrix", "EigendecomposedSymmetricMatrix",
    "EigendecomposedPositiveDefiniteMatrix", "SquareLowRankUpdateMatrix", "SymmetricLowRankUpdateMatrix",
    "PositiveDefiniteLowRankUpdateMatrix", "IdentityMatrix", "DenseRectangularMatrix", "DenseSquareMatrix",
    "InverseLUFactoredSquareMatrix", "DenseSymmetricMatrix", "DensePositiveDefiniteProductMatrix",
]
# classes whose inverse / sqrt / scalar members are inherited from a parent that is checked on its own
# atoms (the array of the product class is the word B P B', to which the factor lemma does not apply)
R1_ONLY = {"DensePositiveDefiniteProductMatrix"}
# members that are outside the operator algebra by nature (LAPACK Schur square root); anything else
# that cannot be evaluated is an unrecognised idiom and fails the run (exit 2) instead of being skipped
ALLOWED_OUTSIDE = {"PositiveDefiniteLowRankUpdateMatrix._construct_sqrt"}
LU_CLASSES = {"DenseSquareMatrix": ("self._array", "self._lu_transposed", "array", "lu_transposed"), "InverseLUFactoredSquareMatrix": ("self._inv_array", "self._inv_lu_transposed", "inv_array", "inv_lu_transposed")}
LOWRANK = ("SquareLowRankUpdateMatrix", "SymmetricLowRankUpdateMatrix", "PositiveDefiniteLowRankUpdateMatrix")
SYMMETRIC_ARRAY = ("DenseDefiniteMatrix", "DensePositiveDefiniteMatrix", "DenseSymmetricMatrix")


def _m(args, name, alg, default=None):
    v = args.get(name)
    if v is None or v.kind == "none":
        if default is None:
            raise AnalysisError(f"missing matrix argument {name}")
        return default
    if v.kind == "mat":
        return v.v
    if v.kind == "obj":
        return den(v.cls, v.args, alg)
    raise AnalysisError(f"argument {name} is not a matrix ({v.kind})")


def _s(args, name, default=None):
    v = args.get(name)
    if v is None or v.kind == "none":
        if default is None:
            raise AnalysisError(f"missing scalar argument {name}")
        return default
    if v.kind != "scalar":
        raise AnalysisError(f"argument {name} is not a scalar ({v.kind})")
    return v.v


def den(cls: str, args: dict, alg: Alg) -> LinComb:
    """Denotation of `cls(**args)` (trusted table, from the class docstrings)."""
    one = Rat.const(1)
    if cls == "IdentityMatrix":
        return alg.ident()
    if cls in ("ScaledIdentityMatrix", "PositiveScaledIdentityMatrix"):
        return alg.ident().scale(_s(args, "scalar"))
    if cls in ("DiagonalMatrix", "PositiveDiagonalMatrix"):
        return _m(args, "diagonal", alg)
    if cls in ("TriangularMatrix", "DenseSquareMatrix", "DenseSymmetricMatrix", "DenseRectangularMatrix", "OrthogonalMatrix", "DenseDefiniteMatrix", "DensePositiveDefiniteMatrix"):
        return _m(args, "array", alg)
    if cls == "DensePositiveDefiniteProductMatrix":
        b = _m(args, "rect_matrix", alg)
        p_ = _m(args, "pos_def_matrix", alg, alg.ident())
        return alg.mul(alg.mul(b, p_), alg.T(b))
    if cls == "InverseTriangularMatrix":
        return alg.inv(_m(args, "inverse_array", alg))
    if cls == "InverseLUFactoredSquareMatrix":
        return alg.inv(_m(args, "inv_array", alg))
    if cls in ("TriangularFactoredDefiniteMatrix", "TriangularFactoredPositiveDefiniteMatrix"):
        f = _m(args, "factor", alg)
        s = one if cls.endswith("PositiveDefiniteMatrix") else _s(args, "sign", one)
        return alg.mul(f, alg.T(f)).scale(s)
    if cls == "ScaledOrthogonalMatrix":
        return _m(args, "orth_array", alg).scale(_s(args, "scalar"))
    if cls in ("EigendecomposedSymmetricMatrix", "EigendecomposedPositiveDefiniteMatrix"):
        q, e = _m(args, "eigvec", alg), _m(args, "eigval", alg)
        return alg.mul(alg.mul(q, e), alg.T(q))
    if cls == "SquareLowRankUpdateMatrix":
        a, l, r = _m(args, "square_matrix", alg), _m(args, "left_factor_matrix", alg), _m(args, "right_factor_matrix", alg)
        k = _m(args, "inner_square_matrix", alg, alg.ident())
        return a + alg.mul(alg.mul(l, k), r).scale(_s(args, "sign", one))
    if cls in ("SymmetricLowRankUpdateMatrix", "PositiveDefiniteLowRankUpdateMatrix"):
        pa, pk = ("symmetric_matrix", "inner_symmetric_matrix") if cls.startswith("Symmetric") else ("pos_def_matrix", "inner_pos_def_matrix")
        a, u = _m(args, pa, alg), _m(args, "factor_matrix", alg)
        k = _m(args, pk, alg, alg.ident())
        return a + alg.mul(alg.mul(u, k), alg.T(u)).scale(_s(args, "sign", one))
    raise AnalysisError(f"class {cls} has no denotation in the table")


def symbolic_instance(program: Program, k, alg: Alg):
    """Constructor argument values of a generic instance of K and its attribute values obtained by
    symbolically executing the constructor chain."""
    init = k.resolve("__init__")
    args = {}
    s = sign_atom("s")
    for p in init.params[1:]:
        kind, nm = PARAMS.get(p, ("ignore", None))
        if kind == "scalar":
            args[p] = Val("scalar", Rat.sym(nm))
        elif kind == "sign":
            args[p] = Val("scalar", s)
        elif kind in ("mat", "sym", "orth"):
            if kind == "sym" or (p == "array" and k.name in SYMMETRIC_ARRAY):
                alg.sym.add(nm)
            if kind == "orth" or (p == "array" and k.name == "OrthogonalMatrix"):
                alg.orth.add(nm)
            args[p] = Val("mat", alg.atom(nm))
        elif kind == "diagvec":
            alg.sym.add(nm)
            args[p] = Val("mat", alg.atom(nm), diagvec=True)
        elif kind == "flag":
            args[p] = Val("bool", ("attr", f"self.{p}"))
        else:
            args[p] = Val("other", p)
    if k.name in LOWRANK:
        alg.sym.add("C") if k.name != "SquareLowRankUpdateMatrix" else None
    attrs: dict[str, Val] = {}

    def run_init(cls, binding, depth=0):
        f = cls.methods.get("__init__")
        if f is None:
            i = k.mro.index(cls)
            for c in k.mro[i + 1 :]:
                if "__init__" in c.methods:
                    return run_init(c, binding, depth)
            return
        ev = MatEval(program, k, alg, attrs, den, "__init__")
        env = dict(binding)

        def do(stmts):
            for st in stmts:
                if isinstance(st, ast.If):
                    # validation / normalisation of arguments: a generic instance has normalised
                    # arguments; when both arms define the same attribute take the general (else) arm
                    both = st.orelse and any(isinstance(x, ast.Assign) and is_self_attr(x.targets[0]) for x in st.orelse)
                    if both:
                        do(st.orelse)
                    continue
                if isinstance(st, ast.Assign) and len(st.targets) == 1 and isinstance(st.targets[0], ast.Name) and isinstance(st.value, (ast.Name, ast.IfExp)) and all(isinstance(x, ast.Name) and x.id in program.classes for x in ([st.value] if isinstance(st.value, ast.Name) else [st.value.body, st.value.orelse])):
                    # a local bound to a class (or to a choice of classes made while normalising the
                    # arguments: like the If rule above, the generic instance takes the general arm)
                    env[st.targets[0].id] = ("lazy", st.value if isinstance(st.value, ast.Name) else st.value.orelse)
                    continue
                if isinstance(st, ast.Assign) and len(st.targets) == 1:
                    t = st.targets[0]
                    try:
                        v = ev.ev(f, st.value, env)
                    except AnalysisError:
                        v = Val("other", norm(st.value)[:30])
                    if isinstance(t, ast.Name):
                        env[t.id] = v
                    elif is_self_attr(t):
                        attrs[f"self.{t.attr}"] = v
                    continue
                if isinstance(st, ast.Expr) and isinstance(st.value, ast.Call):
                    c = st.value
                    cn = call_name(c)
                    target = None
                    if cn == "super().__init__":
                        i = k.mro.index(cls)
                        for cc in k.mro[i + 1 :]:
                            if "__init__" in cc.methods:
                                target = cc
                                break
                    if target is None:
                        continue
                    g = target.methods["__init__"]
                    nb = {}
                    for p, a in zip(g.params[1:], c.args):
                        try:
                            nb[p] = ev.ev(f, a, env)
                        except AnalysisError:
                            nb[p] = Val("other", norm(a)[:30])
                    for kw in c.keywords:
                        if kw.arg is None:
                            continue
                        try:
                            val = ev.ev(f, kw.value, env)
                        except AnalysisError:
                            val = Val("other", norm(kw.value)[:30])
                        if kw.arg in g.params:
                            nb[kw.arg] = val
                        else:
                            attrs[f"self.{kw.arg}"] = val  # Matrix.__init__ keyword -> attribute
                            nb[f"kw:{kw.arg}"] = val
                    for kk, vv in binding.items():
                        if kk.startswith("kw:"):
                            nb.setdefault(kk, vv)
                    run_init(target, nb, depth + 1)

        do(f.body_without_docstring())

    run_init(init.cls, dict(args))
    return args, attrs


def instance_lemmas(k, alg: Alg, args, attrs):
    one = Rat.const(1)
    s = sign_atom("s")
    if k.name in LOWRANK:
        # capacitance definition C = K^-1 + s R A^-1 L, oriented as R A^-1 L -> s (C - K^-1)
        for a in ("self.square_matrix", "self.inner_square_matrix", "self.left_factor_matrix", "self.right_factor_matrix"):
            if a not in attrs or attrs[a].kind != "mat":
                raise AnalysisError(f"{k.name}: constructor does not give {a} a value inside the matrix algebra")
        A_, K_ = attrs["self.square_matrix"].v, attrs["self.inner_square_matrix"].v
        Lm, Rm = attrs["self.left_factor_matrix"].v, attrs["self.right_factor_matrix"].v
        C = alg.atom("C")
        pat = alg.mul(alg.mul(Rm, alg.inv(A_)), Lm)
        rep = (C - alg.inv(K_)).scale(s)
        (w, _c), = pat.t.items()
        pat_t = alg.T(pat)
        rep_t = alg.T(rep)
        (wt, _c), = pat_t.t.items()
        alg.lemmas.append((w, rep))
        if wt != w:
            alg.lemmas.append((wt, rep_t))
    if k.name == "DenseSymmetricMatrix":
        # array = Q E Q^T (eigendecomposition contract), oriented as A -> Q E Q^T
        Q, E = alg.atom("Q"), alg.atom("E")
        alg.lemmas.append(((("m", "A", False, False),), alg.mul(alg.mul(Q, E), alg.T(Q))))
    if k.name in ("DenseDefiniteMatrix", "DensePositiveDefiniteMatrix"):
        # array = s F F^T (factor contract), oriented as A -> s F F^T
        F = alg.atom("F")
        sgn = one if k.name == "DensePositiveDefiniteMatrix" else s
        alg.lemmas.append(((("m", "A", False, False),), alg.mul(F, alg.T(F)).scale(sgn)))
        alg.lemmas.append(((("m", "A", False, True),), alg.mul(alg.inv(alg.T(F)), alg.inv(F)).scale(sgn)))


def _with_helpers_inlined(f):
    """Member with private helper methods / functions of its class / module inlined (a product or
    a scaled-blocks tuple moved into a helper is evaluated where it is used)."""
    import dataclasses

    return dataclasses.replace(f, node=inline_private_helpers(f, methods=True))


def rule_algebra(rep, program: Program, relevant=None):
    r1 = rep.rule("R1", "left product, right product, dense array and transpose of each class denote one operator", floor=91)
    r4 = rep.rule("R4", "inverse, square root and scalar multiple satisfy M^-1 M = I, S S^T = M, (c M) = c * M", floor=53)
    r5 = rep.rule("R5", "forwarded capacitance caches equal their definition on the new arguments; lower/upper flags follow transposition", floor=20)
    # floors count decided (class, member[, LU flag]) obligations, not return paths: merging two
    # `return`s into a conditional expression must not look like a vanished anchor
    r1.units, r4.units = set(), set()
    skipped = []
    for cname in CLASSES:
        k = program.cls(cname)
        for member in ("_left_matrix_multiply", "_right_matrix_multiply", "_construct_array", "_construct_transpose", "_construct_inv", "_construct_sqrt", "_scalar_multiply"):
            f = k.resolve(member)
            if f is None or f.is_abstract:
                continue
            f = _with_helpers_inlined(f)
            if cname in R1_ONLY and member not in ("_left_matrix_multiply", "_right_matrix_multiply", "_construct_array", "_construct_transpose"):
                continue
            for lu_flag in ((False, True) if cname in LU_CLASSES else (None,)):
                alg = Alg()
                try:
                    args, attrs = symbolic_instance(program, k, alg)
                    if cname in LU_CLASSES:
                        arr_attr, flag_attr, _pa, _pf = LU_CLASSES[cname]
                        attrs[flag_attr] = Val("bool", lu_flag)
                        base = attrs[arr_attr].v
                        attrs["<lu_matrix>"] = alg.T(base) if lu_flag else base
                    if cname == "DenseSymmetricMatrix":
                        alg.orth.add("Q")
                        alg.sym.add("E")
                        attrs["self._eigvec"] = Val("mat", alg.atom("Q"))
                        attrs["self._eigval"] = Val("mat", alg.atom("E"), diagvec=True)
                    if k.name in ("DenseDefiniteMatrix", "DensePositiveDefiniteMatrix"):
                        attrs["self._factor"] = Val("mat", alg.atom("F"))
                        attrs["self._sign"] = Val("scalar", Rat.const(1) if k.name == "DensePositiveDefiniteMatrix" else sign_atom("s"))
                    if k.name in LOWRANK:
                        attrs["self._capacitance_matrix"] = Val("mat", alg.atom("C"))
                    D = den(k.name, args, alg)
                    attrs["<den>"] = D
                    attrs["<s>"] = sign_atom("s") if k.name != "DensePositiveDefiniteMatrix" else Rat.const(1)
                    instance_lemmas(k, alg, args, attrs)
                    ev = MatEval(program, k, alg, attrs, den, member)
                    O = alg.atom("O")
                    env = {}
                    if member in ("_left_matrix_multiply", "_right_matrix_multiply"):
                        env[f.params[1]] = Val("mat", O)
                    if member == "_scalar_multiply":
                        env[f.params[1]] = ("scalarparam",)
                    rets = _returns(ev, f, env)
                except AnalysisError as e:
                    skipped.append(f"{cname}.{member}: {str(e)[:70]}")
                    continue
                for asm, v in rets:
                    label = {"class": cname, "member": f.qualname, "assume": {a: b for a, b in asm.items()}}
                    (r1 if member in ("_left_matrix_multiply", "_right_matrix_multiply", "_construct_array", "_construct_transpose") else r4).units.add((cname, member, lu_flag))
                    try:
                        ev.assume = asm
                        if member == "_left_matrix_multiply":
                            got, want = ev._mat(f, v), alg.mul(D, O)
                            _cmp(r1, alg, got, want, f, cname, "left product is not M @ other", label)
                        elif member == "_right_matrix_multiply":
                            got, want = ev._mat(f, v), alg.mul(O, D)
                            _cmp(r1, alg, got, want, f, cname, "right product is not other @ M", label)
                        elif member == "_construct_array":
                            _cmp(r1, alg, ev._mat(f, v), D, f, cname, "dense array is not the matrix the products implement", label)
                        elif member == "_construct_transpose":
                            _cmp(r1, alg, ev._mat(f, v), alg.T(D), f, cname, "transpose object does not denote M^T", label)
                            _check_caches(r5, alg, ev, f, v, cname, "transpose")
                        elif member == "_construct_inv":
                            got = alg.mul(ev._mat(f, v), D)
                            _cmp(r4, alg, got, alg.ident(), f, cname, "inverse object times M is not the identity", label)
                            _check_caches(r5, alg, ev, f, v, cname, "inv")
                        elif member == "_construct_sqrt":
                            smat = ev._mat(f, v)
                            _cmp(r4, alg, alg.mul(smat, alg.T(smat)), D, f, cname, "sqrt @ sqrt.T is not M", label)
                        elif member == "_scalar_multiply":
                            c = ev.scalar_param()
                            _cmp(r4, alg, ev._mat(f, v), D.scale(c), f, cname, "scalar multiple does not denote c * M", label)
                            _check_caches(r5, alg, ev, f, v, cname, "scalar_multiply")
                    except AnalysisError as e:
                        skipped.append(f"{cname}.{member}: {str(e)[:70]}")
    unexpected = [x for x in skipped if x.split(":")[0] not in ALLOWED_OUTSIDE and (relevant is None or relevant(*x.split(":")[0].split(".", 1)))]
    if unexpected:
        rep.extra["members_outside_algebra"] = skipped
        raise AnalysisError("matrix members could not be evaluated in the operator algebra (idiom not recognised): " + "; ".join(unexpected[:4]))
    rep.extra["members_outside_algebra"] = skipped
    r1.notes.append(f"{len(skipped)} (class, member) pairs lie outside the operator algebra (comprehension/LAPACK based); listed in the evidence")
    return r1, r4, r5


def _returns(ev: MatEval, f, env):
    orig_ev = ev.ev

    def ev_with_scalar(fn, e, en):
        if isinstance(e, ast.Name) and isinstance(en.get(e.id), tuple) and en[e.id] == ("scalarparam",):
            return Val("scalar", ev.scalar_param())
        return orig_ev(fn, e, en)

    ev.ev = ev_with_scalar
    try:
        return ev.returns(f, env)
    except NeedSplit as ns:
        # a run-time flag the algebra cannot see: the obligations must hold for both of its values
        out = []
        base = dict(ev.assume)
        for val in (True, False):
            ev.assume = {**base, ns.key: val}
            for asm, v in ev.returns(f, env):
                out.append(({**asm, ns.key: val}, v))
        ev.assume = base
        return out


def _cmp(r, alg, got, want, f, cname, what, label):
    ok = alg.equal(got, want)
    label = dict(label)
    label["value"] = repr(alg.simplify(got))[:140]
    r.inst(label)
    if not ok:
        r.violate(PROP, f"{f.qualname}[{cname}]:{what[:40]}:{label.get('assume')}", f"{cname}: {what}: member {f.qualname} evaluates to {alg.simplify(got)!r} but the class denotes {alg.simplify(want)!r}", node=f.node, file=f.file)


def _check_caches(r5, alg: Alg, ev: MatEval, f, v: Val, cname, how):
    if v.kind != "obj":
        return
    one = Rat.const(1)
    if v.cls in LOWRANK and v.args.get("capacitance_matrix") is not None and v.args["capacitance_matrix"].kind != "none":
        a = v.args
        if v.cls == "SquareLowRankUpdateMatrix":
            A_, K_, L_, R_ = (_m(a, n, alg) for n in ("square_matrix", "inner_square_matrix", "left_factor_matrix", "right_factor_matrix"))
        else:
            pa, pk = ("symmetric_matrix", "inner_symmetric_matrix") if v.cls.startswith("Symmetric") else ("pos_def_matrix", "inner_pos_def_matrix")
            A_, K_, L_ = _m(a, pa, alg), _m(a, pk, alg), _m(a, "factor_matrix", alg)
            R_ = alg.T(L_)
        s_new = _s(a, "sign", one)
        want = alg.inv(K_) + alg.mul(alg.mul(R_, alg.inv(A_)), L_).scale(s_new)
        got = _m(a, "capacitance_matrix", alg)
        ok = alg.equal(got, want)
        r5.inst({"class": cname, "member": f.qualname, "forwarded capacitance": repr(alg.simplify(got))[:80], "definition on new arguments": repr(alg.simplify(want))[:80]})
        if not ok:
            r5.violate(PROP, f"{f.qualname}[{cname}]:capacitance-cache", f"{cname}.{f.name} hands the constructor the capacitance matrix {alg.simplify(got)!r}, but for the new arguments the capacitance K^-1 + s V A^-1 U is {alg.simplify(want)!r}: inverses / determinants of the result use a stale cache", node=f.node, file=f.file)
    if v.cls in ("DenseDefiniteMatrix", "DensePositiveDefiniteMatrix") and v.args.get("factor") is not None and v.args["factor"].kind in ("mat", "obj"):
        # a forwarded triangular factor must be a factor of the new array: array' = s' F' F'^T
        arr = _m(v.args, "array", alg)
        Fn = ev._mat(f, v.args["factor"])
        prod = alg.mul(Fn, alg.T(Fn))
        flag = v.args.get("is_posdef")
        if v.cls == "DensePositiveDefiniteMatrix" or (flag is not None and flag.kind == "bool" and flag.v is True):
            cands = [prod]
        elif flag is not None and flag.kind == "bool" and flag.v is False:
            cands = [prod.scale(Rat.const(-1))]
        else:
            # sign not decided by a constant flag: any sign s' (a symbolic sign included) will do
            cands = [prod, prod.scale(Rat.const(-1)), prod.scale(sign_atom("s"))]
        ok = any(alg.equal(arr, c) for c in cands)
        r5.inst({"class": cname, "member": f.qualname, "forwarded factor": repr(alg.simplify(Fn))[:60], "factor of the new array": ok})
        if not ok:
            r5.violate(PROP, f"{f.qualname}[{cname}]:factor-cache:{how}", f"{cname}.{f.name} hands the constructor the array {alg.simplify(arr)!r} together with the factor {alg.simplify(Fn)!r}, but F F^T = {alg.simplify(prod)!r}: the square root (momentum draws), inverse and log-determinant of the result use a factor of a different matrix", node=f.node, file=f.file)
    if v.cls == "DenseSymmetricMatrix" and all(v.args.get(a) is not None and v.args[a].kind in ("mat", "obj") for a in ("eigvec", "eigval")):
        # a forwarded eigendecomposition must be one of the new array: array' = Q' E' Q'^T
        arr = _m(v.args, "array", alg)
        Qn, En = ev._mat(f, v.args["eigvec"]), ev._mat(f, v.args["eigval"])
        want = alg.mul(alg.mul(Qn, En), alg.T(Qn))
        ok = alg.equal(arr, want)
        r5.inst({"class": cname, "member": f.qualname, "forwarded eigendecomposition": repr(alg.simplify(want))[:70], "of the new array": ok})
        if not ok:
            r5.violate(PROP, f"{f.qualname}[{cname}]:eigen-cache:{how}", f"{cname}.{f.name} hands the constructor the array {alg.simplify(arr)!r} together with eigenvectors / eigenvalues whose product Q E Q^T is {alg.simplify(want)!r}: the eigenvalue-eigenvector pairing (inverse, square root, products through the decomposition) no longer belongs to the array", node=f.node, file=f.file)
    if v.cls in LU_CLASSES and how in ("transpose", "inv") and "<lu_matrix>" in ev.attrs:
        _aa, _fa, pa, pf = LU_CLASSES[v.cls]
        new_arr = _m(v.args, pa, alg)
        fl = v.args.get(pf)
        if fl is None or fl.kind != "bool" or not isinstance(fl.v, bool):
            raise AnalysisError(f"{f.qualname}: LU transposition flag of the new object is not decidable")
        lm = ev.attrs["<lu_matrix>"]
        want = alg.T(lm) if fl.v else lm
        ok = alg.equal(new_arr, want)
        r5.inst({"class": cname, "member": f.qualname, "forwarded LU factors with flag": fl.v, "consistent with new array": ok})
        if not ok:
            r5.violate(PROP, f"{f.qualname}[{cname}]:lu-flag", f"{cname}.{f.name} forwards its LU factors with transposition flag {fl.v}, but the factors then describe {alg.simplify(want)!r} while the new object's array is {alg.simplify(new_arr)!r}: solves with the result use the wrong (transposed) system", node=f.node, file=f.file)
    if v.cls in ("TriangularMatrix", "InverseTriangularMatrix") and "lower" in v.args:
        arr = _m(v.args, "array" if v.cls == "TriangularMatrix" else "inverse_array", alg)
        base = next((ev.attrs[a] for a in ("self._inverse_array", "self._array") if a in ev.attrs and ev.attrs[a].kind == "mat"), None)
        if base is None:
            return
        lo = v.args["lower"]
        flipped = lo.kind == "bool" and isinstance(lo.v, tuple) and lo.v[0] == "not"
        # is the new array (a scalar multiple of) the transpose of the old one?
        old = base.v
        def same_up_to_scalar(x, y):
            if len(x.t) != 1 or len(y.t) != 1:
                return False
            (wx, _), = x.t.items()
            (wy, _), = y.t.items()
            return wx == wy
        transposed = same_up_to_scalar(alg.simplify(arr), alg.T(old)) and not same_up_to_scalar(alg.simplify(arr), old)
        r5.inst({"class": cname, "member": f.qualname, "array transposed": transposed, "lower flag flipped": flipped})
        if transposed != flipped:
            r5.violate(PROP, f"{f.qualname}[{cname}]:lower-flag", f"{cname}.{f.name} passes {'a transposed' if transposed else 'the same'} triangular array but {'flips' if flipped else 'keeps'} the lower/upper flag: triangular solves then read the wrong triangle", node=f.node, file=f.file)


def rule_lu_typestate(rep, program: Program):
    """The pair (_lu_and_piv, _lu_transposed) of DenseSquareMatrix: factors computed lazily from
    the object's own array describe that array untransposed, so wherever the factors may still be
    missing the flag must be False/None, or the lazy accessor must reset it."""
    r = rep.rule("R8", "LU cache typestate: a DenseSquareMatrix built with possibly-missing LU factors gets a neutral transposition flag, or the lazy factorisation resets the flag", floor=3)
    k = program.cls("DenseSquareMatrix")
    acc = k.methods.get("lu_and_piv")
    if acc is None:
        raise AnalysisError("DenseSquareMatrix.lu_and_piv not found")
    resets = False
    for n in ast.walk(acc.node):
        if isinstance(n, ast.If) and "self._lu_and_piv is None" in norm(n.test):
            fills = any(isinstance(x, ast.Assign) and norm(x.targets[0]) == "self._lu_and_piv" and "lu_factor(self._array" in norm(x.value) for x in n.body)
            setf = any(isinstance(x, ast.Assign) and norm(x.targets[0]) == "self._lu_transposed" and norm(x.value) == "False" for x in n.body)
            if fills and setf:
                resets = True
    r.inst({"lazy factorisation resets the flag": resets})
    init = k.methods["__init__"]
    for fn in program.all_functions():
        if fn.module.name != "mici.matrices":
            continue
        local_from_property = set()
        for n in ast.walk(fn.node):
            if isinstance(n, ast.Assign) and len(n.targets) == 1 and isinstance(n.targets[0], ast.Name) and norm(n.value) in ("self.lu_and_piv",):
                local_from_property.add(n.targets[0].id)
        for n in ast.walk(fn.node):
            if not (isinstance(n, ast.Call) and norm(n.func) == "DenseSquareMatrix"):
                continue
            args = dict(zip(init.params[1:], n.args))
            args.update({kw.arg: kw.value for kw in n.keywords})
            lu, flag = args.get("lu_and_piv"), args.get("lu_transposed")
            if lu is None or (isinstance(lu, ast.Constant) and lu.value is None):
                present = "absent"
            elif (isinstance(lu, ast.Name) and lu.id in local_from_property) or norm(lu) == "self.lu_and_piv" or isinstance(lu, ast.Tuple) or norm(lu) == "self._inv_lu_and_piv":
                present = "present"
            else:
                present = "maybe"
            neutral = flag is None or (isinstance(flag, ast.Constant) and flag.value in (None, False))
            ok = present == "present" or neutral or resets
            r.inst({"site": fn.qualname, "lu argument": norm(lu) if lu is not None else None, "factors": present, "flag": norm(flag) if flag is not None else None})
            if not ok:
                r.violate(PROP, f"{fn.qualname}:DenseSquareMatrix({norm(lu)},{norm(flag)})", f"{fn.qualname} builds a DenseSquareMatrix whose LU factors `{norm(lu)}` may still be missing, together with the transposition flag `{norm(flag)}`; the new object then factorises its own array lazily but keeps that flag (the accessor does not reset it), so its inverse solves the transposed system (only when no LU-dependent quantity was evaluated before)", node=n, file=fn.file)
    return r


BLOCK_CLASSES = ["MatrixProduct", "SquareMatrixProduct", "InvertibleMatrixProduct", "SquareBlockDiagonalMatrix", "SymmetricBlockDiagonalMatrix", "PositiveDefiniteBlockDiagonalMatrix", "BlockRowMatrix", "BlockColumnMatrix"]


def rule_blocks(rep, program: Program, tier: str):
    from ..blockeval import Blk, BlockEval, as_blk, den as bden, den_any

    ns = (2, 3, 4) if tier == "thorough" else (2, 3)
    r = rep.rule("R7", f"product and block classes for n in {ns} symbolic components: products, array, transpose, inverse, square root and scalar multiple agree with the block denotation", floor=60)
    skipped = []
    for cname in BLOCK_CLASSES:
        k = program.cls(cname)
        for member in ("_left_matrix_multiply", "_right_matrix_multiply", "_construct_array", "_construct_transpose", "_construct_inv", "_construct_sqrt", "_scalar_multiply"):
            f = k.resolve(member)
            if f is None or f.is_abstract:
                continue
            f = _with_helpers_inlined(f)
            for n in ns:
                alg = Alg()
                be = BlockEval(program, k, alg, n, member)
                if cname in ("SymmetricBlockDiagonalMatrix", "PositiveDefiniteBlockDiagonalMatrix"):
                    for i in range(n):
                        alg.sym.add(f"M{i+1}")
                try:
                    res = be.run(f)
                    results = ([res] if res is not None else []) + be.extra_returns
                    if not results:
                        raise AnalysisError("no return value")
                    D = be.self_den()
                    for v in results:
                        got = den_any(v, alg)
                        if member == "_left_matrix_multiply":
                            want, g = D.mul(be.other_repr(), alg), as_blk(got)
                            what = "left product is not M @ other"
                        elif member == "_right_matrix_multiply":
                            want, g = be.other_repr().mul(D, alg), as_blk(got)
                            what = "right product is not other @ M"
                        elif member == "_construct_array":
                            want, g = D, as_blk(got)
                            what = "dense array differs from the matrix the products implement"
                        elif member == "_construct_transpose":
                            want, g = D.T(alg), as_blk(got)
                            what = "transpose object does not denote M^T"
                        elif member == "_construct_inv":
                            g = as_blk(got).mul(D, alg)
                            z = LinComb.zero()
                            m_ = g.shape[0]
                            want = Blk([[alg.ident() if i == j else z for j in range(m_)] for i in range(m_)])
                            what = "inverse object times M is not the identity"
                        elif member == "_construct_sqrt":
                            sb = as_blk(got)
                            g, want = sb.mul(sb.T(alg), alg), D
                            what = "sqrt @ sqrt.T is not M"
                        else:
                            want = Blk([[x.scale(be.scalar) for x in row] for row in D.rows])
                            g = as_blk(got)
                            what = "scalar multiple does not denote c * M"
                        ok = g.equal(want, alg)
                        r.inst({"class": cname, "member": f.qualname, "n": n, "value": repr(g)[:120]})
                        if not ok:
                            r.violate(PROP, f"{f.qualname}[{cname}]:{what[:40]}", f"{cname} with {n} components: {what}: {f.qualname} evaluates to {g!r} but the class denotes {want!r}", node=f.node, file=f.file)
                except AnalysisError as e:
                    skipped.append(f"{cname}.{member}[n={n}]: {str(e)[:80]}")
    seen, uniq = set(), []
    for fd in r.findings:
        if fd.key not in seen:
            seen.add(fd.key)
            uniq.append(fd)
    r.findings = uniq
    rep.extra["block_members_outside_algebra"] = skipped
    if skipped:
        # on the pinned tree every block / product member evaluates; a member that stops doing so is an
        # unrecognised idiom, not something to skip silently
        raise AnalysisError("block / product members could not be evaluated (idiom not recognised): " + "; ".join(skipped[:3]))
    return r


# ----------------------------------------------------------------------
# R2 parity
PARITY_FAMILIES = [
    # (class, symmetry, atom parities, parity of M, {member: required parity})
    ("TriangularFactoredDefiniteMatrix", "sign -> -sign", {"self._sign": 1}, 1, {"_left_matrix_multiply": 1, "_right_matrix_multiply": 1, "_construct_array": 1, "log_abs_det": 0}),
    ("SquareLowRankUpdateMatrix", "(sign, inner) -> (-sign, -inner)", {"self._sign": 1, "self.inner_square_matrix": 1}, 0, {"_left_matrix_multiply": 0, "_right_matrix_multiply": 0, "_construct_array": 0, "diagonal": 0, "capacitance_matrix": 1, "log_abs_det": 0}),
    ("SymmetricLowRankUpdateMatrix", "(sign, inner) -> (-sign, -inner)", {"self._sign": 1, "self.inner_square_matrix": 1, "self.inner_symmetric_matrix": 1}, 0, {"capacitance_matrix": 1, "log_abs_det": 0}),
    ("PositiveDefiniteLowRankUpdateMatrix", "(sign, inner) -> (-sign, -inner)", {"self._sign": 1, "self.inner_square_matrix": 1, "self.inner_symmetric_matrix": 1, "self.inner_pos_def_matrix": 1}, 0, {"capacitance_matrix": 1, "_construct_sqrt": 0, "log_abs_det": 0}),
]


def rule_parity(rep, program: Program):
    r = rep.rule("R2", "members of the sign-carrying families have a pure parity under the reparametrisation that leaves / negates the matrix", floor=14)
    L = Lattice("parity")
    for cls, sym, atoms, mpar, members in PARITY_FAMILIES:
        k = program.cls(cls)
        for mname, want in members.items():
            f = k.resolve(mname)
            if f is None:
                raise AnalysisError(f"{cls}.{mname} not found")
            te = _ParityEval(program, k, L, dict(atoms), self_type=mpar)
            # the lazily cached capacitance attribute has the parity of its definition
            te.atoms["self._capacitance_matrix"] = 1
            got = te.member(f)
            r.inst({"class": cls, "symmetry": sym, "member": f.qualname, "parity": "mixed" if got == TOP else ("odd" if got else "even"), "required": "odd" if want else "even"})
            if got != want:
                r.violate(PROP, f"{f.qualname}[{cls}]:parity:{'mixed' if got == TOP else ('odd' if got else 'even')}", f"{cls}: under {sym} (the matrix becomes {'-M' if mpar else 'M'}) {mname} must be {'odd' if want else 'even'}, but the expression in {f.qualname} is {'a mixture of even and odd terms' if got == TOP else ('odd' if got else 'even')}: a sign factor is missing or spurious, so the result is wrong for sign = -1", node=f.node, file=f.file)
    return r


class _ParityEval(TypeEval):
    def __init__(self, program, k, L, atoms, self_type):
        super().__init__(k, L, atoms, self_type)
        self.program = program

    def member(self, f):
        # lazy-slot accessors: type of the value stored in the slot
        body = f.body_without_docstring()
        for st in body:
            if isinstance(st, ast.If) and "is None" in norm(st.test):
                env = {}
                for s in st.body:
                    if isinstance(s, ast.Assign) and len(s.targets) == 1 and is_self_attr(s.targets[0]):
                        return self.ev(f, s.value, env)
                    self._stmt(f, s, env)  # named parts of the definition
        return self.func(f)

    def ev(self, f, e, env):
        if isinstance(e, ast.Attribute) and e.attr == "log_abs_det":
            base = self.ev(f, e.value, env)
            return TOP if base == TOP else 0
        if isinstance(e, ast.Call) and isinstance(e.func, ast.Name) and e.func.id in self.program.classes:
            out = None
            for a in list(e.args) + [k.value for k in e.keywords]:
                t = self.ev(f, a, env)
                if t == TOP:
                    return TOP
                out = t if out is None else self.L.join_sum(out, t)
            return 0 if out is None else out
        return super().ev(f, e, env)


LAZY_MEMBERS = (
    # (class, public member, slot, the method whose result the obligations are proved for)
    ("Matrix", "transpose", "_transpose", "_construct_transpose"),
    ("ImplicitArrayMatrix", "array", "_array", "_construct_array"),
    ("InvertibleMatrix", "inv", "_inv", "_construct_inv"),
    ("PositiveDefiniteMatrix", "sqrt", "_sqrt", "_construct_sqrt"),
)


def _run_lazy_member(f, slot: str, ctor: str, filled: bool):
    """-> worst (returned value, slot value at exit, number of constructor calls) over the paths for one entry
    state of the slot; tests that are not about the slot being None are explored both ways."""
    outcomes = []

    def ev(e, st, env):
        if isinstance(e, ast.NamedExpr):
            v = ev(e.value, st, env)
            env[e.target.id] = v
            return v
        if norm(e) == f"self.{slot}":
            return st["slot"]
        if isinstance(e, ast.Call) and norm(e.func) == f"self.{ctor}" and not e.args and not e.keywords:
            st["calls"] += 1
            return "CTOR"
        if isinstance(e, ast.Name) and e.id in env:
            return env[e.id]
        if isinstance(e, ast.Constant) and e.value is None:
            return None
        return norm(e)[:60]

    def truth(t, st, env):
        """True / False, or None when the test does not decide on the slot"""
        if isinstance(t, ast.UnaryOp) and isinstance(t.op, ast.Not):
            v = truth(t.operand, st, env)
            return None if v is None else not v
        if isinstance(t, ast.Compare) and len(t.ops) == 1 and isinstance(t.comparators[0], ast.Constant) and t.comparators[0].value is None and isinstance(t.ops[0], (ast.Is, ast.IsNot, ast.Eq, ast.NotEq)):
            v = ev(t.left, st, env)
            if v is not None and v not in ("SLOT0", "CTOR"):
                return None
            is_none = v is None
            return is_none if isinstance(t.ops[0], (ast.Is, ast.Eq)) else not is_none
        return None

    def run(stmts, st, env, depth=0):
        """runs the statements; appends to outcomes on return; returns True if fell through"""
        if depth > 12:
            raise AnalysisError("lazy member too deeply nested")
        for k_, s_ in enumerate(stmts):
            if isinstance(s_, ast.Expr) and isinstance(s_.value, ast.Constant):
                continue
            if isinstance(s_, ast.Return):
                outcomes.append((ev(s_.value, st, env) if s_.value is not None else None, st["slot"], st["calls"]))
                return False
            if isinstance(s_, ast.If):
                tv = truth(s_.test, st, env)
                arms = [s_.body if tv else s_.orelse] if tv is not None else [s_.body, s_.orelse]
                fell = False
                for arm in arms:
                    st2, env2 = dict(st), dict(env)
                    if run(list(arm) + list(stmts[k_ + 1 :]), st2, env2, depth + 1):
                        fell = True
                        st.update(st2)
                        env.update(env2)
                return fell
            if isinstance(s_, ast.Assign):
                v = ev(s_.value, st, env)
                for t in s_.targets:
                    if norm(t) == f"self.{slot}":
                        st["slot"] = v
                    elif isinstance(t, ast.Name):
                        env[t.id] = v
                    else:
                        raise AnalysisError(f"store outside the lazy-member grammar: {norm(t)[:40]}")
                continue
            if isinstance(s_, ast.Pass):
                continue
            raise AnalysisError(f"statement outside the lazy-member grammar: {norm(s_)[:50]}")
        return True

    st0 = {"slot": "SLOT0" if filled else None, "calls": 0}
    if run(f.body_without_docstring(), st0, {}):
        outcomes.append((None, st0["slot"], st0["calls"]))
    good = ("SLOT0", "SLOT0", 0) if filled else ("CTOR", "CTOR", 1)
    bad = [o for o in outcomes if o != good]
    return bad[0] if bad else good


def rule_lazy_members(rep, program: Program, prop=PROP, rule="R9", only=None):
    """The algebraic obligations are decided for the _construct_* methods; the public lazily filled
    members must deliver exactly those values: the slot is filled only with self._construct_*() and
    the member returns the slot."""
    r = rep.rule(rule, "lazily filled members (T, array, inv, sqrt) fill their slot only with the result of the class's own _construct_* method and return the slot", floor=len([x for x in LAZY_MEMBERS if only is None or x[1] in only]))
    for cls, member, slot, ctor in LAZY_MEMBERS:
        if only is not None and member not in only:
            continue
        k = program.cls(cls)
        f = k.methods.get(member)
        if f is None:
            raise AnalysisError(f"{cls}.{member} not found")
        stores = [n for n in ast.walk(f.node) if isinstance(n, ast.Assign) and any(norm(t) == f"self.{slot}" for t in n.targets)]
        if not stores:
            raise AnalysisError(f"{cls}.{member}: no store to self.{slot}")
        # the member is interpreted for both entry states of the slot (filled / still None): values are tracked as
        # SLOT0 (what the slot held at entry), CTOR (a fresh self._construct_*()), or the text of anything else
        verdicts = {}
        for filled in (True, False):
            try:
                verdicts[filled] = _run_lazy_member(f, slot, ctor, filled)
            except AnalysisError as e:
                raise AnalysisError(f"{cls}.{member}: {e}") from e
        r.inst({"member": f"{cls}.{member}", "slot filled at entry": verdicts[True], "slot empty at entry": verdicts[False]})
        ret_f, slot_f, calls_f = verdicts[True]
        ret_e, slot_e, calls_e = verdicts[False]
        if slot_f != "SLOT0" or calls_f:
            r.violate(prop, f"{cls}.{member}:refills:{slot_f}", f"{cls}.{member} overwrites / recomputes self.{slot} although it is already filled (the slot ends as `{slot_f}`, {calls_f} constructor call(s))", node=f.node, file=f.file)
        if ret_f != "SLOT0":
            r.violate(prop, f"{cls}.{member}:returns:{ret_f}", f"{cls}.{member} returns `{ret_f}`, not the slot it fills", node=f.node, file=f.file)
        if slot_e != "CTOR":
            r.violate(prop, f"{cls}.{member}:slot-source:{slot_e}", f"{cls}.{member} fills self.{slot} with `{slot_e}` instead of self.{ctor}(): the value is not the one whose defining identity is established for the class (e.g. a factor taken from another object's cache needs the transpose / inverse conventions of that object, not of this one)", node=stores[0], file=f.file)
        if ret_e != slot_e or calls_e != 1:
            r.violate(prop, f"{cls}.{member}:returns:{ret_e}", f"{cls}.{member} returns `{ret_e}` on first use while the slot holds `{slot_e}` ({calls_e} constructor call(s)): the member does not return the slot it fills", node=f.node, file=f.file)
        # overriding classes must not replace the member (their _construct_* is what is analysed)
        for sub in program.subclasses(cls):
            if sub is not k and member in sub.methods and sub.methods[member] is not f:
                g = sub.methods[member]
                st2 = [n for n in ast.walk(g.node) if isinstance(n, ast.Assign) and any(norm(t) == f"self.{slot}" for t in n.targets)]
                for n in st2:
                    if norm(n.value) != f"self.{ctor}()":
                        r.violate(prop, f"{sub.name}.{member}:slot-source:{norm(n.value)[:50]}", f"{sub.name}.{member} overrides the lazily filled member and fills self.{slot} with `{norm(n.value)[:60]}`", node=n, file=g.file)
    return r


def rule_r12(rep, program: Program):
    """Scaling a matrix that already holds a packed LU factorisation `P L U` (L unit lower triangular, stored strictly
    below the diagonal; U on and above it) by c scales U - diagonal included - and leaves L alone: the forwarded array
    must be (strict lower, diagonal, strict upper) = (1, k, k) times the old one, where k is the factor applied to the
    dense array (c for the matrix, 1/c for its stored inverse).  Evaluated in a three-part coefficient domain."""
    from ..model import expand_locals, single_assignment_locals
    from ..poly import Rat, eval_expr

    r = rep.rule("R12", "a scalar multiple forwards the packed LU factors with the upper factor (diagonal included) scaled like the dense array and the unit lower factor unchanged", floor=2)

    def mask(e, env):
        """-> (strict lower, diagonal, strict upper) in {0, 1} for a boolean triangle mask expression"""
        if isinstance(e, ast.Name) and e.id in env:
            return mask(env[e.id], env)
        if isinstance(e, ast.UnaryOp) and isinstance(e.op, (ast.Invert, ast.Not)):
            m = mask(e.operand, env)
            return tuple(1 - x for x in m)
        if isinstance(e, ast.Attribute) and e.attr == "T":
            m = mask(e.value, env)
            return (m[2], m[1], m[0])
        if isinstance(e, ast.Call):
            cn = call_name(e)
            kw = {k.arg: k.value for k in e.keywords}
            if cn == "np.tri":
                kk = kw.get("k")
                kv = 0 if kk is None else (kk.value if isinstance(kk, ast.Constant) else (-kk.operand.value if isinstance(kk, ast.UnaryOp) and isinstance(kk.op, ast.USub) and isinstance(kk.operand, ast.Constant) else None))
                if kv == 0:
                    return (1, 1, 0)
                if kv == -1:
                    return (1, 0, 0)
                if kv == 1:
                    raise AnalysisError("np.tri(k=1) is not a triangle of the three-part domain")
            if cn in ("np.tril", "np.triu") and e.args and isinstance(e.args[0], ast.Call) and call_name(e.args[0]) in ("np.ones", "np.ones_like", "np.full"):
                kv = _tri_k(e)
                if cn == "np.tril":
                    return {0: (1, 1, 0), -1: (1, 0, 0)}[kv]
                return {0: (0, 1, 1), 1: (0, 0, 1)}[kv]
        raise AnalysisError(f"triangle mask `{norm(e)[:50]}` outside the grammar")

    def _tri_k(e):
        kk = e.args[1] if len(e.args) > 1 else next((k.value for k in e.keywords if k.arg == "k"), None)
        if kk is None:
            return 0
        if isinstance(kk, ast.Constant):
            return kk.value
        if isinstance(kk, ast.UnaryOp) and isinstance(kk.op, ast.USub) and isinstance(kk.operand, ast.Constant):
            return -kk.operand.value
        raise AnalysisError(f"triangle offset `{norm(kk)}` not a constant")

    def parts(e, base, env):
        """coefficients (Rat, Rat, Rat) of (strict lower, diagonal, strict upper) of `base` in the array expression e"""
        if isinstance(e, ast.Name):
            if e.id == base:
                one = Rat.const(1)
                return (one, one, one)
            if e.id in env:
                return parts(env[e.id], base, env)
        if isinstance(e, ast.BinOp):
            if isinstance(e.op, (ast.Add, ast.Sub)):
                a, b = parts(e.left, base, env), parts(e.right, base, env)
                return tuple(x + y if isinstance(e.op, ast.Add) else x - y for x, y in zip(a, b))
            if isinstance(e.op, (ast.Mult, ast.Div)):
                for arr, sc, right in ((e.right, e.left, False), (e.left, e.right, True)):
                    try:
                        c = eval_expr(sc, {})
                    except AnalysisError:
                        continue
                    if isinstance(e.op, ast.Div) and not right:
                        continue
                    a = parts(arr, base, env)
                    return tuple(x / c if isinstance(e.op, ast.Div) else x * c for x in a)
        if isinstance(e, ast.UnaryOp) and isinstance(e.op, ast.USub):
            return tuple(-x for x in parts(e.operand, base, env))
        if isinstance(e, ast.Call):
            cn = call_name(e)
            if cn in ("np.triu", "np.tril") and e.args:
                a = parts(e.args[0], base, env)
                kv = _tri_k(e)
                z = Rat.const(0)
                if cn == "np.triu":
                    m = {0: (0, 1, 1), 1: (0, 0, 1), -1: None}.get(kv)
                else:
                    m = {0: (1, 1, 0), -1: (1, 0, 0), 1: None}.get(kv)
                if m is None:
                    raise AnalysisError(f"`{norm(e)[:40]}`: offset outside the three-part domain")
                return tuple(x if mm else z for x, mm in zip(a, m))
            if cn == "np.where" and len(e.args) == 3:
                m = mask(e.args[0], env)
                a, b = parts(e.args[1], base, env), parts(e.args[2], base, env)
                return tuple(x if mm else y for x, y, mm in zip(a, b, m))
            if cn in ("np.copy", "np.array", "np.asarray") and e.args:
                return parts(e.args[0], base, env)
            if isinstance(e.func, ast.Attribute) and e.func.attr == "copy" and not e.args:
                return parts(e.func.value, base, env)
        raise AnalysisError(f"LU expression `{norm(e)[:60]}` outside the three-part grammar")

    for cname, lu_attr, arr_attr in (("DenseSquareMatrix", "_lu_and_piv", "_array"), ("InverseLUFactoredSquareMatrix", "_inv_lu_and_piv", "_inv_array")):
        k = program.cls(cname)
        f = k.methods.get("_scalar_multiply")
        if f is None:
            raise AnalysisError(f"{cname}._scalar_multiply not found")
        # locals bound exactly once anywhere in the function (branches included): the LU expression is read through them
        counts = {}
        for n in ast.walk(f.node):
            if isinstance(n, ast.Name) and isinstance(n.ctx, ast.Store):
                counts[n.id] = counts.get(n.id, 0) + 1
        env = {n.targets[0].id: n.value for n in ast.walk(f.node) if isinstance(n, ast.Assign) and len(n.targets) == 1 and isinstance(n.targets[0], ast.Name) and counts.get(n.targets[0].id) == 1}
        base = piv = None
        for n in ast.walk(f.node):
            if isinstance(n, ast.Assign) and isinstance(n.targets[0], ast.Tuple) and norm(n.value) in (f"self.{lu_attr}", f"self.{lu_attr[1:]}") and isinstance(n.targets[0].elts[0], ast.Name):
                base = n.targets[0].elts[0].id
                piv = norm(n.targets[0].elts[1])
        # the forwarded pair (new LU array, pivots), wherever it is built
        pairs = [t for t in ast.walk(f.node) if isinstance(t, ast.Tuple) and isinstance(t.ctx, ast.Load) and len(t.elts) == 2 and norm(t.elts[1]) == piv]
        ctor = [c for c in ast.walk(f.node) if isinstance(c, ast.Call) and call_name(c) in ("DenseSquareMatrix", "InverseLUFactoredSquareMatrix", "type(self)") and (c.args or c.keywords) and f"self.{arr_attr}" in norm(c)]
        if base is None or not pairs or not ctor:
            raise AnalysisError(f"{cname}._scalar_multiply: forwarded LU factors not found")
        for lu_t in pairs:
            c = ctor[-1]
            arr = c.args[0] if c.args else next(kw.value for kw in c.keywords if kw.arg in ("array", "inv_array"))
            # factor applied to the dense array
            kf = None
            arr_x = expand_locals(arr, env)
            if isinstance(arr_x, ast.BinOp) and isinstance(arr_x.op, (ast.Mult, ast.Div)):
                if norm(arr_x.right) == f"self.{arr_attr}" and isinstance(arr_x.op, ast.Mult):
                    kf = eval_expr(arr_x.left, {})
                elif norm(arr_x.left) == f"self.{arr_attr}":
                    sc = eval_expr(arr_x.right, {})
                    kf = sc if isinstance(arr_x.op, ast.Mult) else Rat.const(1) / sc
            if kf is None:
                raise AnalysisError(f"{cname}._scalar_multiply: factor of the dense array `{norm(arr)[:40]}` not recognised")
            got = parts(lu_t.elts[0], base, env)
            want = (Rat.const(1), kf, kf)
            ok = all(g.equals(w) for g, w in zip(got, want))
            r.inst({"class": cname, "dense array scaled by": repr(kf), "packed LU (strict lower, diagonal, strict upper) scaled by": [repr(g) for g in got]})
            if not ok:
                which = [nm for nm, g, w in zip(("the unit lower factor", "the diagonal of U", "the strict upper part of U"), got, want) if not g.equals(w)]
                r.violate(PROP, f"{cname}._scalar_multiply:lu-scaling:{[repr(g) for g in got]}"[:150], f"{cname}._scalar_multiply scales the dense array by {kf!r} but forwards LU factors whose (strict lower, diagonal, strict upper) parts are scaled by {[repr(g) for g in got]} (wrong: {', '.join(which)}): log_abs_det and every solve of the scaled matrix then disagree with its array - but only for operands that already held an LU factorisation", node=c, file=f.file)
    return r


def run(rep, program: Program, tier: str) -> None:
    rep.explanation = (
        "Symbolic evaluation of the members of 17 matrix classes in an exact non-commutative "
        "operator algebra (rational scalars, transposes, inverses, orthogonal / symmetric atoms, "
        "square-root atoms, oriented lemmas for the capacitance and Cholesky-factor contracts) "
        "against the class denotations; Z2 parity typing of the sign-carrying families; cache "
        "consistency of forwarded capacitance matrices; triangular provenance."
    )
    rep.assumptions = [
        "class denotations (trusted table in props/c10.py) follow the class docstrings",
        "members based on comprehensions over blocks, LU factorisations, eigendecompositions of dense arrays and the hierarchical square root are outside the algebra (listed in coverage.members_outside_algebra); agreement with LAPACK numerics and conditioning are not decided",
    ]
    rep.isolate(rule_algebra, rep, program)
    rep.isolate(rule_r12, rep, program)
    rep.isolate(rule_blocks, rep, program, tier)
    rep.isolate(rule_lu_typestate, rep, program)
    rep.isolate(rule_parity, rep, program)
    rep.isolate(c08.rule_r4, rep, program, prop=PROP, rule="R6")
    rep.isolate(rule_lazy_members, rep, program)
    # an operation that changes one of its operands (or an array shared with a cached transpose / inverse) makes every later
    # expression over that operand disagree with dense linear algebra (shared with C19-R1)
    from . import c19

    rep.isolate(c19.rule_r1, rep, program, prop=PROP, rule="R10", only_inplace=True)
    # integer-valued parameters are legal: members must use dtype-promoting arithmetic (shared with C11-R5)
    from . import c11

    rep.isolate(c11.rule_r5, rep, program, prop=PROP, rule="R11")
