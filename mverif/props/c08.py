"""C08 - momentum updates leave the Gaussian momentum law exactly invariant.

 R1 per concrete system: sample_momentum is `M.sqrt @ z` (or `z @ M.sqrt.T`) with z a standard
    normal draw of the position's shape and M the very metric whose inverse defines the kinetic
    energy (same word as in the resolved dh2_dmom)
 R2 correlated refresh: new mom = a*mom + b*n with a^2 + b^2 == 1 (exact polynomial identity
    through the square root), n drawn by system.sample_momentum; coefficient 1 -> full refresh,
    0 -> no write; the constructor rejects coefficients outside [0, 1]
 R3 constrained systems project the sampled momentum (C04-R6)
 R4 triangular provenance: an array handed to TriangularMatrix / InverseTriangularMatrix with
    make_triangular=False is triangular by construction (products use the full array while
    inverses read one triangle, so sqrt @ sqrt.T and inv would otherwise describe two matrices)
"""

from __future__ import annotations

import ast

from ..model import Program, call_name, execution_condition, is_self_attr, norm, expand_locals, single_assignment_locals
from ..poly import Rat
from ..report import AnalysisError
from ..symexec import SymEnv
from . import c04, c09

PROP = "C08"

NORMAL_OK = ("standard_normal", "normal")


def _is_std_normal(c: ast.expr, state_param: str):
    """None if c is a standard-normal draw of <state>.pos.shape, else a reason."""
    if not (isinstance(c, ast.Call) and isinstance(c.func, ast.Attribute) and c.func.attr in NORMAL_OK and isinstance(c.func.value, ast.Name)):
        return f"`{norm(c)[:40]}` is not a normal draw from the supplied generator"
    kws = {k.arg: k.value for k in c.keywords}
    args = list(c.args)
    if c.func.attr == "standard_normal":
        shape = args[0] if args else kws.get("size")
    else:
        loc = args[0] if len(args) > 0 else kws.get("loc")
        scale = args[1] if len(args) > 1 else kws.get("scale")
        shape = args[2] if len(args) > 2 else kws.get("size")
        for nm, v, want in (("loc", loc, 0), ("scale", scale, 1)):
            if v is not None and not (isinstance(v, ast.Constant) and v.value == want):
                return f"{nm}={norm(v)} (not a standard normal)"
    if shape is None or norm(shape) != f"{state_param}.pos.shape":
        return f"draw has shape `{norm(shape) if shape is not None else None}` instead of {state_param}.pos.shape"
    return None


def rule_r1(rep, program: Program):
    r = rep.rule("R1", "sample_momentum == metric.sqrt @ standard-normal(pos.shape) with the metric of the kinetic energy", floor=10)
    seen = set()
    for k in c09.system_classes(program):
        f = k.resolve("sample_momentum")
        g = f
        if any(isinstance(c, ast.Call) and call_name(c) == "super().sample_momentum" for c in ast.walk(f.node)):
            g = k.resolve_super(f.cls, "sample_momentum")
            if g is None:
                raise AnalysisError(f"{k.name}: super().sample_momentum not resolved")
        sp = g.params[1]
        rets = [n for n in ast.walk(g.node) if isinstance(n, ast.Return)]
        if not rets:
            raise AnalysisError(f"{g.qualname}: no return")
        # a fast path may return the bare draw only where the metric is known to be the identity itself
        main = []
        for rt in rets:
            conds = execution_condition(g.node, rt, stop_at=(ast.FunctionDef,))
            vv = expand_locals(rt.value, single_assignment_locals(g.node))
            if not conds:
                main.append(rt)
                continue
            ident = any(tr and isinstance(t, ast.Call) and norm(t.func) == "isinstance" and len(t.args) == 2 and norm(t.args[0]).endswith("metric") and norm(t.args[1]).split(".")[-1] == "IdentityMatrix" for t, tr in conds)
            bare = _is_std_normal(vv, sp) is None
            r.inst({"class": k.name, "conditional return": norm(vv)[:50], "under": [("" if tr else "not ") + norm(t) for t, tr in conds], "metric known to be the identity": ident})
            if bare and not ident:
                kk = f"{g.qualname}:untransformed-draw-under:{norm(conds[0][0])[:40]}"
                if kk not in seen:
                    seen.add(kk)
                    r.violate(PROP, kk, f"under `{' and '.join(('' if tr else 'not ') + norm(t) for t, tr in conds)}` the standard normal draw is returned untransformed, but that condition does not make the metric the identity (an implicitly sized scaled identity s*I satisfies it too): the momentum covariance is then I instead of the metric the kinetic energy uses", node=rt, file=g.file)
            elif not bare:
                main.append(rt)
        if len(main) != 1:
            raise AnalysisError(f"{g.qualname}: expected a single general return")
        rets = main
        v = expand_locals(rets[0].value, single_assignment_locals(g.node))
        dh = k.resolve("dh2_dmom")
        dret = [n for n in ast.walk(dh.node) if isinstance(n, ast.Return)][0].value
        if not (isinstance(dret, ast.BinOp) and isinstance(dret.op, ast.MatMult) and isinstance(dret.left, ast.Attribute) and dret.left.attr == "inv"):
            raise AnalysisError(f"{dh.qualname}: not of the form M.inv @ mom")
        metric_txt = norm(dret.left.value).replace(dh.params[1], sp)
        r.inst({"class": k.name, "sample_momentum": g.qualname, "expr": norm(v), "kinetic metric": metric_txt})
        key = f"{g.qualname}:{norm(v)[:60]}"
        if key in seen:
            continue
        why = None
        if isinstance(v, ast.BinOp) and isinstance(v.op, ast.MatMult):
            l, rr = v.left, v.right
            if isinstance(l, ast.Attribute) and l.attr == "sqrt":
                if norm(l.value) != metric_txt:
                    why = f"the factor is the square root of `{norm(l.value)}` but the kinetic energy uses `{metric_txt}`"
                else:
                    why = _is_std_normal(rr, sp)
            elif isinstance(rr, ast.Attribute) and rr.attr in ("T", "transpose") and isinstance(rr.value, ast.Attribute) and rr.value.attr == "sqrt":
                if norm(rr.value.value) != metric_txt:
                    why = f"the factor is the square root of `{norm(rr.value.value)}` but the kinetic energy uses `{metric_txt}`"
                else:
                    why = _is_std_normal(l, sp)
            else:
                why = f"`{norm(v)[:60]}` is not `M.sqrt @ z`: the covariance of the draw is not L L^T = M"
        else:
            why = f"`{norm(v)[:60]}` is not a linear image of a standard normal draw"
        if why:
            seen.add(key)
            r.violate(PROP, key, f"{why} (momenta must be L z with L L^T equal to the metric of the Hamiltonian)", node=rets[0], file=g.file)
    return r


def rule_r2(rep, program: Program):
    r = rep.rule("R2", "correlated momentum refresh: a^2 + b^2 == 1, fresh draw from the system, branch semantics for coefficients 1 and 0, constructor range guard", floor=5)
    k = program.cls("CorrelatedMomentumTransition")
    f = k.methods["sample"]
    sp = f.params[1]
    body = f.body_without_docstring()
    ifs = [st for st in body if isinstance(st, ast.If)]
    if len(ifs) != 1:
        raise AnalysisError(f"{f.qualname}: branch structure not recognised")
    top = ifs[0]
    coeff = "self.mom_resample_coeff"
    # full refresh branch
    t = norm(top.test)
    full_ok = f"{coeff} == 1" in t and any(isinstance(s, ast.Assign) and norm(s.targets[0]) == f"{sp}.mom" and norm(s.value).startswith("self.system.sample_momentum(") for s in top.body)
    r.inst({"branch": "coefficient == 1", "test": t, "ok": full_ok})
    if not full_ok:
        r.violate(PROP, f"{f.qualname}:full-refresh", "coefficient 1 does not reduce to an independent draw from system.sample_momentum", node=top, file=f.file)
    # partial branch
    if not (len(top.orelse) == 1 and isinstance(top.orelse[0], ast.If)):
        raise AnalysisError(f"{f.qualname}: partial-refresh branch not found")
    part = top.orelse[0]
    pt = norm(part.test)
    r.inst({"branch": "partial", "test": pt})
    if pt not in (f"{coeff} != 0", f"{coeff} > 0", f"0 < {coeff}", f"{coeff} != 0.0"):
        r.violate(PROP, f"{f.qualname}:partial-test:{pt}", "the partial-refresh branch is not selected by coefficient != 0 (coefficient 0 must leave the momentum unchanged)", node=part, file=f.file)
    if part.orelse:
        writes = [n for s in part.orelse for n in ast.walk(s) if isinstance(n, ast.Attribute) and isinstance(n.ctx, ast.Store) and n.attr == "mom"]
        if writes:
            r.violate(PROP, f"{f.qualname}:zero-writes", "coefficient 0 still writes the momentum", node=part, file=f.file)
    # the fresh draw evaluates user / system code that may raise or be interrupted (Riemannian metric, constraint
    # Jacobian): nothing of the old momentum may have been overwritten by then, or the state that the sampler hands
    # back after the fault carries a shrunk momentum (covariance (1 - c^2) M instead of M)
    order = {}

    def visit(n):
        order[id(n)] = len(order)
        for ch in ast.iter_child_nodes(n):
            visit(ch)

    for s_ in part.body:
        visit(s_)
    draws = [n for s_ in part.body for n in ast.walk(s_) if isinstance(n, ast.Call) and norm(n.func).endswith("sample_momentum")]
    stores = [s_ for s_ in part.body if isinstance(s_, (ast.Assign, ast.AugAssign)) and any(norm(t) == f"{sp}.mom" for t in (s_.targets if isinstance(s_, ast.Assign) else [s_.target]))]
    # a store statement that contains the draw evaluates the draw first (right-hand side before the store)
    early = [s_ for s_ in stores if draws and order[id(s_)] < order[id(draws[0])] and not any(d is x for d in draws for x in ast.walk(s_))]
    r.inst({"branch": "partial", "momentum stores before the fresh draw": [norm(x)[:50] for x in early]})
    if early:
        r.violate(PROP, f"{f.qualname}:store-before-draw", f"`{norm(early[0])[:60]}` overwrites the momentum before system.sample_momentum is evaluated: if the draw raises or is interrupted the state is left with a momentum scaled by sqrt(1 - c^2) and no fresh component - its law is no longer the Gaussian momentum law when the chain is resumed", node=early[0], file=f.file)
    env = SymEnv({})
    env.run(part.body)
    got = env.env.get(f"{sp}.mom")
    if got is None:
        # in-place update through an alias of the momentum array (`mom = state.mom; mom *= a; mom += b*n`):
        # the array the state holds is updated all the same (the missing re-assignment is C09's concern)
        aliases = [norm(st.targets[0]) for st in part.body if isinstance(st, ast.Assign) and len(st.targets) == 1 and isinstance(st.targets[0], ast.Name) and norm(st.value) == f"{sp}.mom"]
        augs = {norm(st.target) for st in part.body if isinstance(st, ast.AugAssign)}
        for al in aliases:
            if al in augs and al in env.env:
                got = env.env[al]
    p0 = Rat.sym(f"{sp}.mom")
    draws = [c for c in env.calls if "sample_momentum" in c]
    r.inst({"partial update": repr(got), "draw": draws})
    if got is None or not draws:
        r.violate(PROP, f"{f.qualname}:partial-form", "the partial refresh does not combine the old momentum with a fresh draw from system.sample_momentum", node=part, file=f.file)
    else:
        nsym = f"call[{draws[0]}]"
        try:
            a, b = got.coeff_of(f"{sp}.mom"), got.coeff_of(nsym)
            rest = got - a * p0 - b * Rat.sym(nsym)
        except AnalysisError:
            a = b = rest = None
        if a is None or not rest.is_zero():
            r.violate(PROP, f"{f.qualname}:partial-nonlinear:{got!r}"[:150], "the partial refresh is not a linear combination a*mom + b*n", node=part, file=f.file)
        else:
            ident = a * a + b * b
            r.inst({"a": repr(a), "b": repr(b), "a^2+b^2": repr(ident)})
            # coefficients cached in other attributes at construction time
            cached = [sy for sy in (a.symbols() | b.symbols()) if sy.startswith("self.") and sy != coeff]
            if cached and not ident.equals(Rat.const(1)):
                init = k.methods["__init__"]
                ienv = SymEnv({})
                for st in init.body_without_docstring():
                    if isinstance(st, ast.Assign) and len(st.targets) == 1 and isinstance(st.targets[0], ast.Attribute):
                        try:
                            ienv.exec(st)
                        except AnalysisError:
                            pass
                sub = {sy: ienv.env[sy] for sy in cached if sy in ienv.env}
                if coeff in ienv.env:
                    sub[coeff] = ienv.env[coeff]
                if set(cached) <= set(sub):
                    ident2 = ident.subs_many(sub)
                    if ident2.equals(Rat.const(1)):
                        # correct at construction; stale if the public coefficient can be reassigned alone
                        attr = coeff.split(".", 1)[1]
                        prop = k.resolve(attr)
                        setter = any(attr in c2.setters for c2 in k.mro)
                        if prop is None and not setter:
                            r.violate(PROP, f"{f.qualname}:stale-cached-coefficient:{sorted(cached)}", f"the weight of the old momentum is read from {sorted(cached)}, computed once in the constructor, while the weight of the fresh draw reads the public attribute `{attr}` live: after `transition.{attr} = c` the update uses a(c0)*mom + c*n with a(c0)^2 + c^2 != 1 and no longer preserves N(0, M)", node=part, file=f.file)
                            ident, b = Rat.const(1), Rat.sym(coeff)
                        else:
                            raise AnalysisError(f"{f.qualname}: coefficients cached in {sorted(cached)} behind a property/setter - consistency cannot be decided")
            if not ident.equals(Rat.const(1)):
                r.violate(PROP, f"{f.qualname}:a2+b2={ident!r}"[:150], f"the refresh mom' = ({a!r})*mom + ({b!r})*n has a^2 + b^2 = {ident!r} != 1: the N(0, M) momentum law is not preserved", node=part, file=f.file)
            if not b.equals(Rat.sym(coeff)):
                r.violate(PROP, f"{f.qualname}:b={b!r}"[:150], f"the weight of the fresh draw is {b!r}, not the resampling coefficient", node=part, file=f.file)
    # constructor guard
    init = k.methods["__init__"]
    guards = [st for st in init.body_without_docstring() if isinstance(st, ast.If) and any(isinstance(s, ast.Raise) for s in st.body)]
    gtxt = [norm(g.test) for g in guards]
    ok = any(t in ("not (mom_resample_coeff >= 0 and mom_resample_coeff <= 1)", "not 0 <= mom_resample_coeff <= 1", "mom_resample_coeff < 0 or mom_resample_coeff > 1", "not (0 <= mom_resample_coeff <= 1)") for t in gtxt)
    r.inst({"constructor guard": gtxt})
    if not ok:
        r.violate(PROP, f"{init.qualname}:range-guard:{gtxt}", "coefficients outside [0, 1] are not rejected ((1 - c^2)^0.5 is complex/NaN for |c| > 1)", node=init.node, file=init.file)
    return r


TRI_SOURCES = ("nla.cholesky", "np.linalg.cholesky", "sla.cholesky", "_make_array_triangular", "np.tril", "np.triu", "numpy.tril", "numpy.triu")
TRI_CLASSES = ("TriangularMatrix", "InverseTriangularMatrix")


_INVARIANT_CACHE: dict = {}


def _stores_triangular(cls) -> bool:
    """The array attribute of a triangular class holds a triangular array: the constructor routes into it
    either a value that is triangular by construction, or `_make_array_triangular(x, ...) if make_triangular else x`
    (the caller's promise for make_triangular=False is what rule R4 checks at every call site)."""
    key = cls.name
    if key in _INVARIANT_CACHE:
        return _INVARIANT_CACHE[key]
    _INVARIANT_CACHE[key] = True  # recursion guard
    init = cls.methods.get("__init__")
    ok = True
    if init is not None:
        flag = next((p for p in init.params if p == "make_triangular"), None)
        # last definition of every local, in order
        env: dict[str, ast.expr] = {}
        stored = []
        for st in init.body_without_docstring():
            if isinstance(st, ast.Assign) and len(st.targets) == 1 and isinstance(st.targets[0], ast.Name):
                env[st.targets[0].id] = _subst_env(st.value, env)
            if isinstance(st, ast.If):
                # `if flag: x = f(x)` (optionally with an else arm) is the conditional expression in statement form
                arms = []
                for arm in (st.body, st.orelse):
                    d = {}
                    simple = True
                    for a in arm:
                        if isinstance(a, ast.Assign) and len(a.targets) == 1 and isinstance(a.targets[0], ast.Name):
                            d[a.targets[0].id] = _subst_env(a.value, {**env, **d})
                        elif not isinstance(a, ast.Pass):
                            simple = False
                    arms.append((d, simple))
                if all(simple for _, simple in arms):
                    for name in set(arms[0][0]) | set(arms[1][0]):
                        prev = env.get(name, ast.Name(id=name, ctx=ast.Load()))
                        env[name] = ast.IfExp(test=st.test, body=arms[0][0].get(name, prev), orelse=arms[1][0].get(name, prev))
            for c in ast.walk(st):
                if isinstance(c, ast.Call) and norm(c.func).endswith("__init__"):
                    for k in c.keywords:
                        if k.arg in ("_array", "_inverse_array"):
                            stored.append(_subst_env(k.value, env))
            if isinstance(st, ast.Assign) and any(is_self_attr(t) and t.attr in ("_array", "_inverse_array") for t in st.targets):
                stored.append(_subst_env(st.value, env))
        if not stored:
            ok = False
        for v in stored:
            good = False
            for n in ast.walk(v):
                if isinstance(n, ast.IfExp) and flag and norm(n.test) == flag and isinstance(n.body, ast.Call) and call_name(n.body) in TRI_SOURCES:
                    good = True
                if isinstance(n, ast.IfExp) and flag and norm(n.test) == f"not {flag}" and isinstance(n.orelse, ast.Call) and call_name(n.orelse) in TRI_SOURCES:
                    good = True
            if isinstance(v, ast.Call) and call_name(v) in TRI_SOURCES:
                good = True
            ok = ok and good
    _INVARIANT_CACHE[key] = ok
    return ok


def _subst_env(e, env):
    import copy as _copy

    class Sub(ast.NodeTransformer):
        def visit_Name(self, n):  # noqa: N802
            if isinstance(n.ctx, ast.Load) and n.id in env:
                return _copy.deepcopy(env[n.id])
            return n

    return Sub().visit(_copy.deepcopy(e))


def _tri_typed(e: ast.expr, f, local_defs, depth=0) -> bool:
    if depth > 4:
        return False
    if isinstance(e, ast.Call) and call_name(e) in TRI_SOURCES:
        return True
    in_tri_cls = f.cls is not None and any(c.name in TRI_CLASSES for c in f.cls.mro)
    if isinstance(e, ast.Attribute):
        if e.attr == "T":
            return _tri_typed(e.value, f, local_defs, depth + 1)
        if is_self_attr(e) and e.attr in ("array", "_array", "_inverse_array") and in_tri_cls:
            # the class's own array attribute: triangular iff its constructor establishes that
            tri_cls = next(c for c in f.cls.mro if c.name in TRI_CLASSES)
            return _stores_triangular(tri_cls)
        # <triangular object>.array where the object is self.factor / a *Triangular* attribute
        if e.attr in ("array", "_array", "_inverse_array") and isinstance(e.value, ast.Attribute) and e.value.attr in ("factor", "_factor"):
            return True
    if isinstance(e, ast.BinOp) and isinstance(e.op, (ast.Mult, ast.Div)):
        # scalar multiple of a triangular array
        return _tri_typed(e.left, f, local_defs, depth + 1) or (isinstance(e.op, ast.Mult) and _tri_typed(e.right, f, local_defs, depth + 1))
    if isinstance(e, ast.Name) and e.id in local_defs:
        return all(_tri_typed(v, f, local_defs, depth + 1) for v in local_defs[e.id])
    if isinstance(e, ast.IfExp):
        return _tri_typed(e.body, f, local_defs, depth + 1) and _tri_typed(e.orelse, f, local_defs, depth + 1)
    return False


def rule_r4(rep, program: Program, prop=PROP, rule="R4"):
    r = rep.rule(rule, "arrays passed to TriangularMatrix / InverseTriangularMatrix with make_triangular=False are triangular by construction", floor=8)
    for f in program.all_functions():
        local_defs = {}
        for n in ast.walk(f.node):
            if isinstance(n, ast.Assign) and len(n.targets) == 1 and isinstance(n.targets[0], ast.Name):
                local_defs.setdefault(n.targets[0].id, []).append(n.value)
        params = set(f.params)
        for n in ast.walk(f.node):
            if not (isinstance(n, ast.Call) and norm(n.func) in TRI_CLASSES):
                continue
            mt = next((k.value for k in n.keywords if k.arg == "make_triangular"), None)
            if not (isinstance(mt, ast.Constant) and mt.value is False):
                continue
            arg = n.args[0] if n.args else next((k.value for k in n.keywords if k.arg in ("array", "inverse_array")), None)
            if arg is None:
                raise AnalysisError(f"{f.qualname}: triangular constructor without array argument")
            # a parameter that was never re-bound is of unknown triangularity
            defs = {k: v for k, v in local_defs.items() if k not in params or True}
            ok = _tri_typed(arg, f, defs)
            if isinstance(arg, ast.Name) and arg.id in params and arg.id not in local_defs:
                ok = False
            r.inst({"site": f.qualname, "array": norm(arg)[:50], "triangular by construction": ok})
            if not ok:
                r.violate(prop, f"{f.qualname}:{norm(n.func)}({norm(arg)[:40]},make_triangular=False)", f"`{norm(arg)[:50]}` is not known to be triangular but is wrapped with make_triangular=False: matrix products use the full array while inverses and solves read only one triangle, so sqrt @ sqrt.T and inv describe different matrices when the other triangle is non-zero", node=n, file=f.file)
    return r


def run(rep, program: Program, tier: str) -> None:
    rep.explanation = (
        "Normal form of the resolved sample_momentum of every concrete system against the metric of "
        "its kinetic energy; exact polynomial identity a^2 + b^2 = 1 for the Crank-Nicolson refresh "
        "(through the square-root atom); cotangent projection of constrained draws; triangular "
        "provenance of arrays wrapped without masking."
    )
    rep.assumptions = ["sqrt @ sqrt.T == metric for each matrix class is C10", "rng.standard_normal / rng.normal are NumPy's standard normal draws"]
    rep.isolate(rule_r1, rep, program)
    rep.isolate(rule_r2, rep, program)
    r5, r6 = c04.rule_r5_r6(rep, program)
    rep.rules = [x for x in rep.rules if x is not r5]
    r6.rule = "R3"
    for fd in r6.findings:
        fd.rule, fd.prop = "R3", PROP
    rep.isolate(rule_r4, rep, program)
    # the factor L = metric.sqrt of every matrix class: L L^T = M (C10-R4 / C10-R2 restricted to the
    # square-root members; imported lazily, c10 imports this module)
    from . import c10

    n0 = len(rep.rules)
    # only the square-root members and the classes that carry a triangular factor matter here: a member of another
    # class that the algebra cannot evaluate is C10's concern
    _r1, r4, r5c = c10.rule_algebra(rep, program, relevant=lambda cname, member: member == "_construct_sqrt" or "Definite" in cname or "Triangular" in cname)
    rp = c10.rule_parity(rep, program)
    rep.rules = rep.rules[:n0]
    r = rep.rule("R5", "square-root factors: S S^T = M in the operator algebra for every class whose sqrt the momentum draw can use; sign-carrying low-rank sqrt has pure parity", floor=6)
    r.units = {u for u in (r4.units or set()) if u[1] == "_construct_sqrt"}
    r.instances = r.exercised = len(r.units) + sum(1 for x in rp.samples if "_construct_sqrt" in str(x))
    for src in (r4, rp, r5c):
        for fd in src.findings:
            # sqrt members, and triangular factors handed on to a new matrix (its sqrt *is* that factor)
            if "_construct_sqrt" in fd.key or "factor-cache" in fd.key:
                fd.rule, fd.prop = "R5", PROP
                r.findings.append(fd)
    rep.extra.pop("members_outside_algebra", None)
    # metric.sqrt (the public member the momentum draw reads) must be the analysed _construct_sqrt value (shared with C10-R9)
    rep.isolate(c10.rule_lazy_members, rep, program, prop=PROP, rule="R6", only=("sqrt",))
    # momenta re-drawn after a metric update must come from the system's own sample_momentum (constrained systems
    # project onto the cotangent space) (shared with C17-R2)
    from . import c17

    rep.isolate(c17.rule_r2, rep, program, prop=PROP, rule="R7")
    # sample_momentum reads state-cached quantities (the Riemannian metric, the constraint Jacobian / Gram matrix): they
    # must be this system's own, so the cache key has to identify the system object (shared with C09-R6)
    from . import c09

    rep.isolate(c09.rule_r6, rep, program, prop=PROP, rule="R8")
