"""C18 - memoisation delivers its efficiency contract.

 R1 no over-broad declaration on a method whose own evaluation calls a user model function
 R2 every method that calls a user model function directly is memoised
 R3 auxiliary-output tables: each aux name is a memoised method of the class and the order
    matches the return convention of the differential operator bound to the method
 R4 copy() forwards the cache and shares the dependency/call-count tables; assignment clears
    only the dependants of the assigned variable; the decorators call the wrapped method only
    on a cache miss and store auxiliary outputs
 R5 the position-only flow (h1_flow) writes only the momentum
"""

from __future__ import annotations

import ast

from ..effects import StateEffects, user_function_attrs
from ..model import Program, call_name, is_self_attr, norm
from ..report import AnalysisError
from . import c09

PROP = "C18"

DIFF_PREFIX = {
    "grad": "grad_",
    "jacobian": "jacob_",
    "hessian": "hess_",
    "mhp": "mhp_",
    "mtp": "mtp_",
    "vjp": "vjp_",
}


def split_diff_op(name: str) -> list[str]:
    # "mhp_jacobian_and_value" -> ["mhp", "jacobian", "value"]
    parts = name.replace("_and_", "_").split("_")
    return parts


def rule_r1(rep, program, se):
    r = rep.rule("R1", "declared dependencies are not broader than the variables read, for memoised methods that evaluate a user model function", floor=9)
    seen = set()
    for k, n, f in c09.cached_pairs(program):
        sp = se.state_params(f)
        eff = se.effects(k, f, sp[0])
        if not eff.user_calls_uncached:
            continue
        declared, reads = set(f.cache_deps), set(eff.reads)
        extra = declared - reads
        if (f.qualname, k.name) in seen:
            continue
        seen.add((f.qualname, k.name))
        r.inst({"class": k.name, "method": f.qualname, "declared": sorted(declared), "reads": sorted(reads), "user_calls": eff.user_calls_uncached[:2]})
        if extra:
            key = f"{f.qualname}:declared={sorted(declared)}:reads={sorted(reads)}"
            if key not in {x.key for x in r.findings}:
                r.violate(PROP, key, f"declares a dependency on {sorted(extra)} that it never reads: assigning state.{sorted(extra)[0]} forces a needless re-evaluation of the user function ({eff.user_calls_uncached[0]})", node=f.node, file=f.file)
    return r


def rule_r2(rep, program):
    r = rep.rule("R2", "every method that calls a user model function (bound via wrap_function/autodiff_fallback) is memoised in the state", floor=9)
    for k in c09.system_classes(program):
        uf = user_function_attrs(k)
        for c in k.mro:
            for name, f in c.methods.items():
                if name == "__init__":
                    continue
                calls = [n for n in ast.walk(f.node) if isinstance(n, ast.Call) and is_self_attr(n.func) and n.func.attr in uf]
                if not calls:
                    continue
                key = f"{f.qualname}:self.{calls[0].func.attr}"
                if key in {s.get("key") for s in r.samples} or key in {x.key for x in r.findings}:
                    continue
                if not any(key == getattr(x, "key", None) for x in r.findings):
                    pass
                if key in rule_r2.seen:
                    continue
                rule_r2.seen.add(key)
                r.inst({"key": key, "memoised": f.cache_deps is not None})
                if f.cache_deps is None:
                    r.violate(PROP, key, f"calls the user model function self.{calls[0].func.attr} but is not memoised: every call re-evaluates the model", node=f.node, file=f.file)
                # a user function has one memoised wrapper, the method of the same name: values that a
                # derivative function handed back as auxiliary output are stored under that wrapper's key,
                # so any other method must go through the wrapper to find them
                for cl in calls:
                    wrapper = cl.func.attr.lstrip("_")
                    if name != wrapper and k.resolve(wrapper) is not None and k.resolve(wrapper).cache_deps is not None:
                        key2 = f"{f.qualname}:bypasses:{wrapper}"
                        if key2 not in {x.key for x in r.findings}:
                            r.violate(PROP, key2, f"{f.qualname} evaluates the user function self.{cl.func.attr} directly instead of through its memoised wrapper self.{wrapper}(state): a value of {wrapper} already in the state's cache (stored as auxiliary output of a derivative, or by an earlier request) is ignored and the model is evaluated again", node=cl, file=f.file)
    return r


rule_r2.seen = set()


def bound_diff_op(k, f):
    """Differential-operator name bound (via autodiff_fallback in __init__) to the user
    function attribute that the memoised method f returns."""
    uf = user_function_attrs(k)
    attrs = [n.func.attr for n in ast.walk(f.node) if isinstance(n, ast.Call) and is_self_attr(n.func) and n.func.attr in uf]
    if len(attrs) != 1:
        return None, None
    call = uf[attrs[0]]
    if norm(call.func) != "autodiff_fallback":
        return attrs[0], None
    args = call.args
    if len(args) >= 3 and isinstance(args[2], ast.Constant):
        return attrs[0], args[2].value
    return attrs[0], None


def rule_r3(rep, program, prop=PROP, rule="R3"):
    r = rep.rule(rule, "auxiliary outputs name memoised methods of the class, in the order of the bound differential operator's return convention", floor=10)
    seen = set()
    for k, n, f in c09.cached_pairs(program):
        if not f.cache_aux:
            continue
        attr, op = bound_diff_op(k, f)
        for i, aux in enumerate(f.cache_aux):
            g = k.resolve(aux)
            key = f"{f.qualname}:aux[{i}]={aux}"
            if (key, k.name) in seen:
                continue
            seen.add((key, k.name))
            r.inst({"class": k.name, "primary": f.qualname, "aux": aux, "op": op})
            if g is None or g.cache_deps is None:
                if key not in {x.key for x in r.findings}:
                    r.violate(prop, key, f"auxiliary output '{aux}' of {f.qualname} is not a memoised method of {k.name}: the value returned alongside the derivative is never reused", node=f.node, file=f.file)
        if op is None:
            continue
        comps = split_diff_op(op)
        names = [f.name, *f.cache_aux]
        if len(comps) != len(names):
            key = f"{f.qualname}:op={op}:aux={list(f.cache_aux)}"
            if key not in {x.key for x in r.findings}:
                r.violate(prop, key, f"{op} returns {len(comps)} values ({comps}) but the method declares {len(names)} outputs ({names})", node=f.node, file=f.file)
            continue
        # the undifferentiated function name: primary name minus its prefix
        pref = DIFF_PREFIX.get(comps[0])
        if pref is None or not f.name.startswith(pref):
            continue  # naming outside the table: order cannot be decided from names
        base = f.name[len(pref):]
        for comp, nm in zip(comps[1:], names[1:]):
            want = base if comp == "value" else DIFF_PREFIX.get(comp, "?") + base
            # SoftAbs-style wrappers rename metric_func->hess_neg_log_dens; accept base match on either
            if nm != want:
                key = f"{f.qualname}:op={op}:slot={comp}:got={nm}"
                if key not in {x.key for x in r.findings}:
                    r.violate(prop, key, f"return convention of {op} puts the {comp} in this slot (expected method '{want}') but the declaration caches it as '{nm}': the wrong quantity is cached under that name", node=f.node, file=f.file)
    return r


def _simulate_wrapper(w: ast.FunctionDef, scenario):
    """Abstract runs of a cache wrapper for one state of its primary cache entry.  Values: 'VAL0' (valid cached
    value), None (invalidation marker), 'ABSENT', 'RES' (result of the wrapped method, possibly wrapped), or an
    opaque text.  Tests that do not concern the entry are explored both ways.  -> {(returned, entry, n_calls)}"""
    prim = None
    for n in ast.walk(w):
        if isinstance(n, ast.Assign) and len(n.targets) == 1 and isinstance(n.targets[0], ast.Name) and n.targets[0].id in ("key", "prim_key"):
            prim = n.targets[0].id if prim is None or n.targets[0].id == "prim_key" else prim
    if prim is None:
        raise AnalysisError("cache wrapper: primary key local not found")
    outcomes = set()
    budget = [400]

    def is_entry(e):
        return isinstance(e, ast.Subscript) and norm(e.value).endswith("._cache") and (norm(e.slice) == prim or norm(e.slice) in ("keys[0]",))

    def ev(e, st, env):
        if isinstance(e, ast.NamedExpr):
            v = ev(e.value, st, env)
            env[e.target.id] = v
            return v
        if is_entry(e):
            if st["entry"] == "ABSENT":
                raise AnalysisError("cache wrapper reads the entry of an absent key")
            return st["entry"]
        if isinstance(e, ast.Call) and isinstance(e.func, ast.Name) and e.func.id == "method":
            st["calls"] += 1
            return "RES"
        if isinstance(e, ast.Call) and isinstance(e.func, ast.Attribute) and e.func.attr == "get" and norm(e.func.value).endswith("._cache") and e.args and norm(e.args[0]) in (prim, "keys[0]"):
            # dict.get: the entry, or the default (None) for an absent key
            if st["entry"] == "ABSENT":
                return ev(e.args[1], st, env) if len(e.args) > 1 else None
            return st["entry"]
        if isinstance(e, ast.Name):
            return env.get(e.id, f"<{e.id}>")
        if isinstance(e, ast.Constant) and e.value is None:
            return None
        if isinstance(e, ast.Call) and isinstance(e.func, ast.Attribute) and e.func.attr in ("copy", "view") and not e.args and ev(e.func.value, st, env) == "RES":
            return "RES"  # a copy of the result is the result (value semantics)
        if isinstance(e, ast.Call) and not (isinstance(e.func, ast.Name) and e.func.id == "method") and e.args and any(ev(a, st, env) == "RES" for a in e.args) and call_name(e).split(".")[-1] in ("_without_variable_aliasing", "asarray", "array", "ascontiguousarray", "copy"):
            return "RES"  # value-preserving guards around the result
        if isinstance(e, (ast.Tuple, ast.List)) and any(ev(x, st, env) == "RES" for x in e.elts):
            return "RES"
        if isinstance(e, ast.Subscript) and ev(e.value, st, env) == "RES":
            return "RES"
        if isinstance(e, ast.IfExp):
            t = truth(e.test, st, env)
            if t is None:
                a, b = ev(e.body, st, env), ev(e.orelse, st, env)
                return a if a == b else f"<{norm(e)[:30]}>"
            return ev(e.body if t else e.orelse, st, env)
        return f"<{norm(e)[:40]}>"

    def truth(t, st, env):
        if isinstance(t, ast.UnaryOp) and isinstance(t.op, ast.Not):
            v = truth(t.operand, st, env)
            return None if v is None else not v
        if isinstance(t, ast.BoolOp):
            vals = []
            for x in t.values:
                v = truth(x, st, env)
                if isinstance(t.op, ast.Or) and v is True:
                    return True
                if isinstance(t.op, ast.And) and v is False:
                    return False
                vals.append(v)
            return None if any(v is None for v in vals) else (any(vals) if isinstance(t.op, ast.Or) else all(vals))
        if isinstance(t, ast.Compare) and len(t.ops) == 1:
            op, left, right = t.ops[0], t.left, t.comparators[0]
            if isinstance(op, (ast.In, ast.NotIn)) and norm(right).endswith("._cache") and norm(left) in (prim, "keys[0]"):
                present = st["entry"] != "ABSENT"
                return present if isinstance(op, ast.In) else not present
            if isinstance(op, (ast.Is, ast.IsNot, ast.Eq, ast.NotEq)) and isinstance(right, ast.Constant) and right.value is None:
                v = ev(left, st, env)
                if v is None or v in ("VAL0", "RES"):
                    return (v is None) if isinstance(op, (ast.Is, ast.Eq)) else (v is not None)
        return None

    def run(stmts, st, env):
        budget[0] -= 1
        if budget[0] < 0:
            raise AnalysisError("cache wrapper: too many paths")
        for k_, s_ in enumerate(stmts):
            rest = stmts[k_ + 1 :]
            if isinstance(s_, ast.Return):
                outcomes.add((ev(s_.value, st, env) if s_.value is not None else None, st["entry"], st["calls"]))
                return
            if isinstance(s_, ast.If):
                tv = truth(s_.test, st, env)
                for arm in ([s_.body if tv else s_.orelse] if tv is not None else [s_.body, s_.orelse]):
                    run(list(arm) + list(rest), dict(st), dict(env))
                return
            if isinstance(s_, (ast.For, ast.While)):
                # the body may run zero times or once for a generic element
                body_once = [x for x in s_.body]
                tgt = s_.target if isinstance(s_, ast.For) else None
                res_iter = isinstance(s_, ast.For) and any(isinstance(n, ast.Name) and env.get(n.id) == "RES" for n in ast.walk(s_.iter))
                # a store `cache[k] = v` with (k, v) running over zip(keys, <result>) stores the result under the primary key
                stores_prim = res_iter and any(isinstance(x, ast.Assign) and any(isinstance(t, ast.Subscript) and norm(t.value).endswith("._cache") for t in x.targets) for x in ast.walk(s_) if isinstance(x, ast.Assign))
                st2, env2 = dict(st), dict(env)
                if stores_prim:
                    st2["entry"] = "RES"
                run(list(rest), st2, env2)
                return
            if isinstance(s_, ast.Assign):
                v = ev(s_.value, st, env)
                for t in s_.targets:
                    if is_entry(t):
                        st["entry"] = v
                    elif isinstance(t, ast.Name):
                        env[t.id] = v
                continue
            if isinstance(s_, ast.AugAssign):
                continue
            if isinstance(s_, ast.Expr) and isinstance(s_.value, ast.Call) and isinstance(s_.value.func, ast.Attribute) and s_.value.func.attr == "update" and norm(s_.value.func.value).endswith("._cache"):
                # cache.update(<pairs built from the key list and the result>) stores the result under the primary key
                if any(isinstance(n, ast.Name) and env.get(n.id) == "RES" for a in s_.value.args for n in ast.walk(a)) or any(isinstance(n, ast.Call) and isinstance(n.func, ast.Name) and n.func.id == "method" for a in s_.value.args for n in ast.walk(a)):
                    st["entry"] = "RES"
                continue
            if isinstance(s_, ast.Expr):
                ev(s_.value, st, env) if isinstance(s_.value, ast.Call) and isinstance(s_.value.func, ast.Name) and s_.value.func.id == "method" else None
                continue
            if isinstance(s_, (ast.Pass,)):
                continue
            raise AnalysisError(f"cache wrapper: statement outside the grammar: {norm(s_)[:50]}")
        outcomes.add((None, st["entry"], st["calls"]))

    body = [x for x in w.body if not (isinstance(x, ast.Expr) and isinstance(x.value, ast.Constant))]
    run(body, {"entry": scenario, "calls": 0}, {})
    return outcomes


def rule_r4(rep, program):
    from . import stateproto

    alt = stateproto.category_rule(rep, program, PROP, "R4", "copy() carries the cache and shares the counter; assignment clears only dependants; decorators evaluate only on a miss and store auxiliary outputs", "memo", {"copy", "assign", "pickle", "two-systems"})
    if alt is not None:
        _r4_decorators(alt, program)
        return alt
    r = rep.rule("R4", "copy() forwards cache / shares tables; assignment clears only dependants; decorators call the method only on a miss and store aux outputs", floor=6)
    f = program.method("ChainState", "copy")
    calls = [n for n in ast.walk(f.node) if isinstance(n, ast.Call) and norm(n.func) in ("type(self)", "ChainState", "self.__class__")]
    if len(calls) != 1:
        raise AnalysisError("ChainState.copy: constructor call not found")
    kws = {k.arg: k.value for k in calls[0].keywords}
    cache = c09.inline_self_call(program, "ChainState", kws.get("_cache"))
    r.inst({"site": "copy:_cache", "expr": norm(cache)})
    flt = c09.filtered_copy_of(cache, "self._cache") if cache is not None else None
    if flt:
        r.violate(PROP, f"ChainState.copy:_cache=filtered[{flt}]", f"copy() carries only the cache entries with `{flt}`: entries dropped by the filter (e.g. cached derivative functions such as VJP/MHP/MTP closures) are re-evaluated on every copy, i.e. on every integrator step", node=calls[0], file=f.file)
    elif cache is None or (isinstance(cache, ast.Dict) and not cache.keys) or norm(cache) in ("None", "dict()"):
        r.violate(PROP, "ChainState.copy:_cache=dropped", "copy() does not carry the cache: every integrator step (which starts from a copy) re-evaluates all model functions", node=calls[0], file=f.file)
    for fld in ("_dependencies", "_call_counts"):
        v = kws.get(fld)
        r.inst({"site": f"copy:{fld}", "expr": norm(v)})
        if v is None or norm(v) != f"self.{fld}":
            if fld == "_call_counts":
                r.violate(PROP, f"ChainState.copy:{fld}", "copy() does not share the call counter with the original: evaluations on copies are not counted", node=calls[0], file=f.file)
            elif v is None:
                r.violate(PROP, f"ChainState.copy:{fld}", "copy() does not forward the dependency table although it forwards cache entries: forwarded entries can no longer be invalidated", node=calls[0], file=f.file)
    # __setattr__ clears only dependants
    sf, name_param, body, i = c09.setattr_store_site(program)
    rest = [st for st in body[i + 1:]]
    inv = c09.find_invalidation(rest, sf.cls) or c09.find_invalidation(body[:i], sf.cls)
    r.inst({"site": "__setattr__", "invalidation": inv})
    if inv is not None and inv[0] == "all":
        r.violate(PROP, "ChainState.__setattr__:clears-all", "assigning any variable clears the whole cache: a momentum refresh discards position-dependent values (gradients) and forces re-evaluation", node=body[i], file=sf.file)
    _r4_decorators(r, program)
    return r


def _r4_decorators(r, program):
    # decorators: abstract runs over every combination of entry states / result conventions (see cachewrap); the
    # coarser per-entry simulation and flow-graph clauses below are the fallback when the decorator leaves the
    # executor's subset
    from ..absexec import Unsupported
    from . import cachewrap

    for dname in ("cache_in_state", "cache_in_state_with_aux"):
        d = c09.decorator_func(program, dname)
        try:
            records = cachewrap.run_scenarios(program, dname)
        except Unsupported as exc:
            r.inst({"site": f"{dname}.wrapper", "abstract runs": f"outside the executor's subset ({exc}); falling back to the per-entry simulation"})
            records = None
        if records is not None:
            verdicts = cachewrap.judge(records, dname)
            for form in sorted({rec["form"] for rec in records}):
                r.inst({"site": f"{dname}.wrapper", "argument spelling": form, "abstract runs": sum(1 for rec in records if rec["form"] == form), "scenarios": "entry states {absent, invalidated, valid} of every key x result conventions x call counter; second system object; second method", "reports": [f"{side}:{key}" for side, key, _ in verdicts]})
            for side, key, msg in verdicts:
                if side == "memo":
                    r.violate(PROP, f"{dname}.wrapper:{key}", msg, node=d.node, file=d.file)
            continue
        wrappers = [n for n in ast.walk(d.node) if isinstance(n, ast.FunctionDef) and n.name == "wrapper"]
        if len(wrappers) != 1:
            raise AnalysisError(f"{dname}: wrapper function not found")
        w = wrappers[0]
        pm = {}
        for n in ast.walk(w):
            for c in ast.iter_child_nodes(n):
                pm[c] = n
        mcalls = [n for n in ast.walk(w) if isinstance(n, ast.Call) and isinstance(n.func, ast.Name) and n.func.id == "method"]
        if not mcalls:
            raise AnalysisError(f"{dname}: call of wrapped method not found")
        # the wrapper is interpreted for the three states of its primary cache entry (valid value / absent /
        # invalidated to None): a hit must not evaluate the wrapped method and must return the cached value, a miss
        # must evaluate it exactly once, store the result and return it
        for scenario in ("VAL0", "ABSENT", None):
            outs = _simulate_wrapper(w, scenario)
            label = {"VAL0": "hit", "ABSENT": "miss (key absent)", None: "miss (entry invalidated)"}[scenario]
            r.inst({"site": f"{dname}.wrapper", "entry state": label, "outcomes (returned, entry, calls)": sorted({str(o) for o in outs})})
            for ret, entry, calls in outs:
                if scenario == "VAL0":
                    if calls:
                        r.violate(PROP, f"{dname}.wrapper:unguarded-call", f"the wrapped method is evaluated although a valid value is cached ({calls} evaluation(s) on a hit): every call re-evaluates the model", node=mcalls[0], file=d.file)
                    elif ret != "VAL0":
                        r.violate(PROP, f"{dname}.wrapper:hit-returns:{ret}", f"on a cache hit the wrapper returns `{ret}` instead of the cached value", node=w, file=d.file)
                else:
                    if calls != 1:
                        r.violate(PROP, f"{dname}.wrapper:miss-calls:{calls}", f"on a cache miss ({label}) the wrapped method is evaluated {calls} times", node=mcalls[0], file=d.file)
                    elif entry != "RES":
                        r.violate(PROP, f"{dname}.wrapper:miss-not-stored", f"on a cache miss ({label}) the wrapper returns with the cache entry `{entry}`: the evaluated value is not stored, so every later call evaluates the wrapped method again", node=w, file=d.file)
        # must-pass-through: every path from the evaluation of the wrapped method to a return stores the
        # result in the state's cache (for every state, read-only ones included: a value that is
        # returned without being stored is evaluated again on the next call)
        from ..cfg import CFG

        cfg = CFG(w)

        def is_store(node):
            a = node.ast
            if isinstance(a, ast.Assign) and any(isinstance(t, ast.Subscript) and norm(t.value).endswith("._cache") for t in a.targets):
                return True
            if isinstance(a, ast.Expr) and isinstance(a.value, ast.Call) and isinstance(a.value.func, ast.Attribute) and a.value.func.attr in ("update", "setdefault", "__setitem__") and norm(a.value.func.value).endswith("._cache"):
                return True
            if node.kind == "for":
                # a loop over the (non-empty: it contains the primary key) key list whose body stores unconditionally
                a = next((x for x in ast.walk(w) if isinstance(x, ast.For) and x.iter is node.ast), None)
                return a is not None and any(isinstance(st, ast.Assign) and any(isinstance(t, ast.Subscript) and norm(t.value).endswith("._cache") for t in st.targets) for st in a.body)
            return False

        starts = [n for n in cfg.nodes if n.ast is not None and n.kind in ("stmt", "test") and any(x is mc for mc in mcalls for x in ast.walk(n.ast if not isinstance(n.ast, (ast.For, ast.While, ast.If, ast.Try)) else ast.Pass()))]
        if not starts:
            raise AnalysisError(f"{dname}: statement evaluating the wrapped method not found in the flow graph")
        for st0 in starts:
            seen, stack, leak = set(), [st0] if not is_store(st0) else [], None
            while stack:
                n = stack.pop()
                if n in seen:
                    continue
                seen.add(n)
                for m, lab in n.succ:
                    if m is cfg.exit_return:
                        leak = n
                    elif m is cfg.exit_raise or is_store(m):
                        continue
                    else:
                        stack.append(m)
            r.inst({"site": f"{dname}.wrapper", "every return after a miss passes a cache store": leak is None})
            if leak is not None:
                r.violate(PROP, f"{dname}.wrapper:miss-not-stored", f"on a cache miss the wrapper can return (at `{norm(leak.ast)[:50] if leak.ast is not None else 'end'}`) without writing the evaluated value to the state's cache: on such states every later call evaluates the wrapped method (and the user's model function) again, and auxiliary outputs are lost", node=leak.ast or w, file=d.file)
        if dname == "cache_in_state_with_aux":
            # auxiliary entries are written only with values the method actually returned: pairing the key list with a
            # padded value list (zip_longest, fromkeys, a store for every key) overwrites valid entries of values that
            # were not returned with None - the invalidation marker
            for n in ast.walk(w):
                if isinstance(n, ast.Call) and norm(n.func).split(".")[-1] in ("zip_longest",) or (isinstance(n, ast.Call) and norm(n.func) in ("dict.fromkeys",) and n.args and norm(n.args[0]) == "keys"):
                    used_for_store = any(isinstance(x, ast.Call) and isinstance(x.func, ast.Attribute) and x.func.attr == "update" and norm(x.func.value).endswith("._cache") and any(y is n for y in ast.walk(x)) for x in ast.walk(w)) or any(isinstance(x, ast.For) and any(y is n for y in ast.walk(x.iter)) and any(isinstance(t, ast.Subscript) and norm(t.value).endswith("._cache") for st_ in ast.walk(x) if isinstance(st_, ast.Assign) for t in st_.targets) for x in ast.walk(w))
                    if used_for_store:
                        r.violate(PROP, f"{dname}.wrapper:aux-padded:{norm(n.func)}", f"the wrapper stores the auxiliary keys paired with a padded value list (`{norm(n)[:60]}`): when the wrapped function returns only its primary value, every auxiliary entry - including ones that hold a valid value - is overwritten with None and has to be evaluated again", node=n, file=d.file)
            stores = False
            for n in ast.walk(w):
                if isinstance(n, ast.For) and isinstance(n.iter, ast.Call) and norm(n.iter.func) == "zip" and isinstance(n.target, ast.Tuple):
                    kname = norm(n.target.elts[0])
                    for st in n.body:
                        if isinstance(st, ast.Assign) and any(isinstance(t, ast.Subscript) and norm(t.value).endswith("._cache") and norm(t.slice) == kname for t in st.targets):
                            stores = True
            r.inst({"site": f"{dname}.wrapper", "stores_aux_outputs": stores})
            if not stores:
                r.violate(PROP, f"{dname}.wrapper:aux-not-stored", "auxiliary outputs returned with the primary value are not written to the cache", node=w, file=d.file)
    cross = c09.wrapper_cross_call_state(program)
    r.inst({"site": "wrappers", "cross_call_state": [c[2] for c in cross]})
    for dname, node, what in cross:
        r.violate(PROP, f"{dname}.wrapper:cross-call-state:{norm(node)[:40]}", f"the {dname} wrapper {what}: cache keys contain id(system), so keys remembered across calls belong to the first system object that called; for any other object of the class the auxiliary outputs are stored under the wrong keys and its own lower-order values are evaluated again", node=node, file=program.func("states", dname).file)


def rule_r5(rep, program, se):
    r = rep.rule("R5", "every resolved h1_flow writes only the momentum (so the position-dependent gradient stays cached across the kick)", floor=5)
    seen = set()
    for k in c09.system_classes(program):
        f = k.resolve("h1_flow")
        if f is None:
            continue
        sp = se.state_params(f)
        eff = se.effects(k, f, sp[0])
        r.inst({"class": k.name, "resolved": f.qualname, "writes": sorted(eff.writes)})
        bad = set(eff.writes) - {"mom"}
        if bad and f.qualname not in seen:
            seen.add(f.qualname)
            r.violate(PROP, f"{f.qualname}:writes={sorted(eff.writes)}", f"the position-only flow assigns state.{sorted(bad)[0]}, invalidating the cached gradient: each leapfrog step then needs two gradient evaluations", node=f.node, file=f.file)
    return r


def rule_r6(rep, program):
    r = rep.rule("R6", "chain states are only created from user input (sampler entry points) or by copy(): no transition / integrator / adapter builds a fresh ChainState and thereby drops the cache", floor=2)
    allowed = {"_check_and_process_init_state", "HamiltonianMonteCarlo._preprocess_init_state", "ChainState.copy"}
    for fn in program.all_functions():
        for n in ast.walk(fn.node):
            if isinstance(n, ast.Call) and norm(n.func) in ("ChainState", "mici.states.ChainState", "states.ChainState"):
                ok = fn.qualname in allowed
                r.inst({"site": fn.qualname, "allowed": ok})
                if not ok:
                    r.violate(PROP, f"{fn.qualname}:constructs-ChainState", f"{fn.qualname} builds a new ChainState instead of copying the current one: every cached value (gradients at the current position) is lost and re-evaluated", node=n, file=fn.file)
    return r


def rule_r7(rep, program):
    from . import stateproto

    if stateproto.closure(program) is not None:
        # a dependency table whose variables share one set over-invalidates: the closure reports it (R4 / R8) as a value
        # re-evaluated although nothing it depends on was assigned
        r = rep.rule("R7", "every variable has its own dependency set [decided by the closure of the ChainState protocol: see R4 / R8]", floor=1)
        r.inst({"decided by": "protocol closure"})
        return r
    r = rep.rule("R7", "every site that builds a ChainState dependency table gives each variable its own set (a shared set makes every assignment invalidate every cached value)", floor=2)
    k = program.cls("ChainState")
    sites = []
    for f in k.methods.values():
        for n in ast.walk(f.node):
            if isinstance(n, ast.Assign) and len(n.targets) == 1:
                t = n.targets[0]
                tn = None
                if isinstance(t, ast.Subscript) and norm(t.value) == "self.__dict__" and isinstance(t.slice, ast.Constant) and t.slice.value == "_dependencies":
                    tn = "self._dependencies"
                elif isinstance(t, ast.Name) and t.id == "_dependencies":
                    tn = "_dependencies"
                if tn:
                    sites.append((f, n, n.value))
    if not sites:
        raise AnalysisError("ChainState: no construction site of the dependency table found")
    for f, n, v in sites:
        kind = None
        if isinstance(v, ast.Name) or isinstance(v, ast.Subscript) or isinstance(v, ast.Attribute):
            kind = "forwarded"  # an existing table (parameter, pickled table)
        elif isinstance(v, ast.DictComp):
            val = v.value
            fresh = isinstance(val, ast.Call) and norm(val.func) == "set" or isinstance(val, ast.Set) or isinstance(val, ast.SetComp)
            kind = "fresh-per-key" if fresh else "comprehension-sharing"
        elif isinstance(v, ast.Call) and norm(v.func) in ("defaultdict", "collections.defaultdict") and v.args and norm(v.args[0]) == "set":
            kind = "fresh-per-key"
        elif isinstance(v, ast.Call) and norm(v.func) == "dict.fromkeys":
            kind = "fromkeys-shared" if len(v.args) > 1 else "fromkeys-none"
        elif isinstance(v, ast.IfExp):
            kind = "forwarded"
        else:
            raise AnalysisError(f"{f.qualname}: dependency table built by an unrecognised expression {norm(v)[:50]}")
        r.inst({"site": f.qualname, "expr": norm(v)[:60], "kind": kind})
        if kind in ("fromkeys-shared", "comprehension-sharing", "fromkeys-none"):
            r.violate(PROP, f"{f.qualname}:dependencies-shared-set:{norm(v)[:40]}", f"{f.qualname} builds the dependency table as `{norm(v)[:60]}`: all variables share one set object, so every cached key is registered under every variable and assigning the momentum (or dir) invalidates the position-dependent values (gradients are re-evaluated on every kick: 2n instead of n + 1 per trajectory)", node=n, file=f.file)
    return r


def run(rep, program: Program, tier: str) -> None:
    rep.explanation = (
        "Structural necessary conditions of the memoisation contract: declared-vs-read "
        "dependency comparison for methods that evaluate user functions, who-is-memoised, "
        "auxiliary-output tables against the differential-operator return conventions, "
        "copy/assignment/decorator protocol shape, write set of the position-only flow."
    )
    rep.assumptions = ["evaluation counts of user functions that call each other are out of view", "naming convention grad_/jacob_/hess_/mhp_/mtp_/vjp_ + base function links aux names to DIFF_OPS components"]
    se = StateEffects(program)
    rule_r2.seen = set()
    rep.isolate(rule_r1, rep, program, se)
    rep.isolate(rule_r2, rep, program)
    rep.isolate(rule_r3, rep, program)
    rep.isolate(rule_r4, rep, program)
    rep.isolate(rule_r5, rep, program, se)
    rep.isolate(rule_r6, rep, program)
    rep.isolate(rule_r7, rep, program)
    from . import stateproto

    rep.isolate(stateproto.rule, rep, program, tier, PROP, "R8", "memo")
