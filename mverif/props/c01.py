"""C01 - integration transitions leave the canonical distribution exactly invariant.

Structural necessary conditions of detailed balance in transitions.py (invariance itself - a sum
over all random outcomes - is not decided):
 R1  direction-flip typestate of the Metropolis step (abstract objects S = entry state,
     P = proposal): accepted => P flipped exactly twice, rejected/error => S flipped exactly once
 R1b the zero-step path is excluded: constructors and sampler setters reject n_step <= 0
 R2  acceptance ratios: numerator = weight of the newly built (outer/new) sub-tree, denominator =
     weight of the merged tree of the same activation (inside sub-trees) / of the current tree
     (top level); R8 the draw `U < ratio` selects the proposal of the numerator's tree
 R3  merge is structure preserving; its arguments are ordered by the direction test; R10 the next
     sub-tree starts from the edge of the tree in the integration direction
 R4  termination checks are invariant under the time-reflection of the tree
 R5  the expansion direction is a fair coin
 R6  step / acceptance accumulators are co-updated after the step and before anything that can
     raise; the reported mean divides exactly these; Metropolis n_step on error = steps completed
 R7  Metropolis ratio orientation exp(min(0, h(start) - h(proposal))), accept iff U < p
 R9  weight functions: multinomial exp(-h) in log space, slice indicator [log u <= -h] with
     log u = log U - h_init, ratios min(n/d, 1); the slice divergence test depends on the start
     state only through the shared slice variable log_u
"""

from __future__ import annotations

import ast
import re

from ..cfg import CFG
from ..exctypes import ExcTypes
from ..facts import TOP, const_of
from ..model import Program, call_name, execution_condition, norm, expand_locals, single_assignment_locals
from ..poly import Rat, eval_expr
from ..report import AnalysisError
from ..symexec import SymEnv

PROP = "C01"


def _is_flip(st: ast.stmt):
    """Return the name X if st negates X.dir."""
    if isinstance(st, ast.AugAssign) and isinstance(st.target, ast.Attribute) and st.target.attr == "dir" and isinstance(st.op, ast.Mult) and norm(st.value) in ("-1", "-1.0"):
        return norm(st.target.value)
    if isinstance(st, ast.Assign) and len(st.targets) == 1 and isinstance(st.targets[0], ast.Attribute) and st.targets[0].attr == "dir":
        x = norm(st.targets[0].value)
        try:
            v = eval_expr(st.value, {})
        except AnalysisError:
            return None
        if v.equals(-Rat.sym(f"{x}.dir")):
            return x
    return None


def rule_r1(rep, program: Program, et: ExcTypes):
    r = rep.rule("R1", "Metropolis step: accepted proposal flipped exactly twice, retained state flipped exactly once (abstract objects S/P over all CFG paths)", floor=3)
    f = program.method("MetropolisIntegrationTransition", "_sample_n_step")
    cfg = CFG(f.node, catches=lambda h, rc: et.catches(h, rc, f.module), raised_class=lambda st: et.raised_class(st, f.module))
    sname = f.params[1]
    # abstract state: (alias of each tracked name) + flips per object + flag constants
    start = (("alias", ((sname, "S"),)), ("flips", (("P", 0), ("S", 0))), ("flags", ()))
    seen = set()
    todo = [(cfg.entry, start, False)]
    returns = []
    steps = 0
    while todo:
        steps += 1
        if steps > 50000:
            raise AnalysisError("_sample_n_step: typestate exploration did not terminate")
        n, st, looped = todo.pop()
        key = (n, st)
        if key in seen:
            continue
        seen.add(key)
        alias = dict(dict(st)["alias"])
        flips = dict(dict(st)["flips"])
        flags = dict(dict(st)["flags"])
        a = n.ast

        def pack(al, fl, fg):
            return (("alias", tuple(sorted(al.items()))), ("flips", tuple(sorted(fl.items()))), ("flags", tuple(sorted(fg.items(), key=lambda kv: kv[0]))))

        for s, lab in n.succ:
            al, fl, fg = dict(alias), dict(flips), dict(flags)
            if n.kind == "stmt" and lab != "exc":
                pairs = []
                if isinstance(a, ast.Assign) and len(a.targets) == 1 and isinstance(a.targets[0], ast.Name):
                    pairs = [(a.targets[0].id, a.value)]
                elif isinstance(a, ast.Assign) and len(a.targets) == 1 and isinstance(a.targets[0], ast.Tuple) and isinstance(a.value, ast.Tuple) and len(a.targets[0].elts) == len(a.value.elts) and all(isinstance(x, ast.Name) for x in a.targets[0].elts):
                    pairs = [(x.id, v2) for x, v2 in zip(a.targets[0].elts, a.value.elts)]
                old_al = dict(al)
                for t, v in pairs:
                    if isinstance(v, ast.Name) and v.id in old_al:
                        al[t] = old_al[v.id]
                        c = const_of(v, fg)
                        if c is not TOP:
                            fg[t] = c
                        else:
                            fg.pop(t, None)
                        continue
                    if isinstance(v, ast.Call) and call_name(v).endswith("integrator.step"):
                        al[t] = "P"
                        fl["P"] = 0
                    elif t in al:
                        al.pop(t)
                    c = const_of(v, fg)
                    if c is not TOP:
                        fg[t] = c
                    else:
                        fg.pop(t, None)
                x = _is_flip(a) if isinstance(a, ast.stmt) else None
                if x is not None and x in al:
                    fl[al[x]] = min(fl[al[x]] + 1, 3)
                if isinstance(a, ast.Return):
                    rv = a.value.elts[0] if isinstance(a.value, ast.Tuple) else a.value
                    returns.append((al.get(norm(rv)), fl, fg, a))
            if n.kind == "test" and lab in ("true", "false"):
                t = n.ast
                v = const_of(t, fg)
                # object identity tests
                if isinstance(t, ast.Compare) and len(t.ops) == 1 and isinstance(t.ops[0], (ast.Is, ast.IsNot)) and norm(t.left) in al and norm(t.comparators[0]) in al:
                    same = al[norm(t.left)] == al[norm(t.comparators[0])]
                    v = same if isinstance(t.ops[0], ast.Is) else not same
                if v is not TOP and bool(v) != (lab == "true"):
                    continue
            if n.kind == "for" and lab == "exhaust" and not looped and getattr(n, "has_back", False):
                continue  # the step loop runs at least once (R1b)
            todo.append((s, pack(al, fl, fg), looped or (n.kind == "for" and lab == "iter")))
    if not returns:
        raise AnalysisError("_sample_n_step: no return reached")
    kinds = set()
    for which, fl, fg, node in returns:
        kinds.add((which, fl.get("S"), fl.get("P"), fg.get("integration_error")))
    for which, fs, fp, err in sorted(kinds, key=str):
        r.inst({"returned object": which, "flips(S)": fs, "flips(P)": fp, "integration_error": err})
        if which == "P":
            if fp != 2:
                r.violate(PROP, f"_sample_n_step:accepted:flips(P)={fp}", f"on a path returning the proposal its direction is negated {fp} time(s): it must be negated once to make the proposal map an involution and once more after the accept decision (so an accepted move keeps its direction)", node=f.node, file=f.file)
            if err is True:
                r.violate(PROP, "_sample_n_step:accepted-on-error", "the proposal is returned on an integrator-error path", node=f.node, file=f.file)
        elif which == "S":
            if fs != 1:
                r.violate(PROP, f"_sample_n_step:retained:flips(S)={fs}", f"on a path returning the original state its direction is negated {fs} time(s) instead of exactly once (rejection must reverse the direction)", node=f.node, file=f.file)
        else:
            r.violate(PROP, f"_sample_n_step:returns-unknown:{which}", "the returned object is neither the entry state nor the proposal", node=f.node, file=f.file)
    if not any(k[0] == "P" for k in kinds):
        r.violate(PROP, "_sample_n_step:never-accepts", "no path returns the proposal", node=f.node, file=f.file)
    return r


class _Unknown(Exception):
    pass


def _fold(e, env):
    """Constant folding of a guard expression over integers / tuples of integers."""
    if isinstance(e, ast.Constant) and isinstance(e.value, (int, float, bool)):
        return e.value
    if isinstance(e, ast.Name):
        if e.id in env:
            return env[e.id]
        raise _Unknown(e.id)
    if isinstance(e, ast.Tuple):
        return tuple(_fold(x, env) for x in e.elts)
    if isinstance(e, ast.Subscript) and isinstance(e.slice, ast.Constant):
        return _fold(e.value, env)[e.slice.value]
    if isinstance(e, ast.UnaryOp) and isinstance(e.op, ast.Not):
        return not _fold(e.operand, env)
    if isinstance(e, ast.UnaryOp) and isinstance(e.op, ast.USub):
        return -_fold(e.operand, env)
    if isinstance(e, ast.BoolOp):
        vals = [_fold(v, env) for v in e.values]
        return all(vals) if isinstance(e.op, ast.And) else any(vals)
    if isinstance(e, ast.Compare):
        left = _fold(e.left, env)
        for op, c in zip(e.ops, e.comparators):
            right = _fold(c, env)
            ok = {ast.Lt: left < right, ast.LtE: left <= right, ast.Gt: left > right, ast.GtE: left >= right, ast.Eq: left == right, ast.NotEq: left != right}.get(type(op))
            if ok is None:
                raise _Unknown(norm(e))
            if not ok:
                return False
            left = right
        return True
    if isinstance(e, ast.BinOp) and isinstance(e.op, (ast.Add, ast.Sub, ast.Mult)):
        a, b = _fold(e.left, env), _fold(e.right, env)
        return a + b if isinstance(e.op, ast.Add) else a - b if isinstance(e.op, ast.Sub) else a * b
    if isinstance(e, ast.Call) and norm(e.func) in ("int", "min", "max", "len") and not e.keywords:
        args = [_fold(a, env) for a in e.args]
        return {"int": lambda: int(args[0]), "min": lambda: min(*args) if len(args) > 1 else min(args[0]), "max": lambda: max(*args) if len(args) > 1 else max(args[0]), "len": lambda: len(args[0])}[norm(e.func)]()
    raise _Unknown(norm(e)[:40])


def _rejects(f, value) -> bool | None:
    """Does the function raise before storing anything when its step-count argument is ``value``?
    Straight-line folding of the guard statements; None when a guard cannot be folded."""
    params = [p for p in f.params if p not in ("self", "system", "integrator")]
    env = dict.fromkeys(params, value)
    for st in f.body_without_docstring():
        if isinstance(st, ast.Expr):
            continue  # docstring / super().__init__(...)
        if isinstance(st, ast.Assign) and len(st.targets) == 1 and isinstance(st.targets[0], (ast.Name, ast.Tuple)):
            try:
                v = _fold(st.value, env)
            except _Unknown:
                continue
            t = st.targets[0]
            if isinstance(t, ast.Name):
                env[t.id] = v
            elif isinstance(v, tuple) and len(v) == len(t.elts) and all(isinstance(x, ast.Name) for x in t.elts):
                env.update({x.id: y for x, y in zip(t.elts, v)})
            continue
        if isinstance(st, ast.If) and any(isinstance(s2, ast.Raise) for s2 in st.body):
            try:
                if _fold(st.test, env):
                    return True
            except (_Unknown, TypeError):
                return None
            continue
        if isinstance(st, ast.Assign):
            return False  # a store (self.n_step = ...) is reached without a raise
    return False


def rule_r1b(rep, program: Program):
    r = rep.rule("R1b", "zero-step trajectories are rejected by constructors and setters (every non-positive step count / lower bound raises before anything is stored)", floor=7)
    sites = [("MetropolisStaticIntegrationTransition", "__init__", False), ("MetropolisRandomIntegrationTransition", "__init__", True), ("StaticMetropolisHMC", "n_step", False), ("RandomMetropolisHMC", "n_step_range", True)]
    for cls, name, is_range in sites:
        k = program.cls(cls)
        f = k.methods.get(name) if name == "__init__" else k.setters.get(name)
        if f is None:
            raise AnalysisError(f"{cls}.{name} not found")
        verdicts = {}
        for v in (0, -3):
            verdicts[v] = _rejects(f, (v, 5) if is_range else v)
        r.inst({"site": f"{cls}.{name}", "rejects": {str(a): b for a, b in verdicts.items()}})
        if any(b is None for b in verdicts.values()):
            raise AnalysisError(f"{cls}.{name}: guard outside the foldable grammar")
        if not all(verdicts.values()):
            bad = [a for a, b in verdicts.items() if not b]
            r.violate(PROP, f"{cls}.{name}:no-positive-guard", f"a non-positive number of integrator steps ({bad[0]}) is not rejected: with zero steps the 'proposal' is the start state itself and the direction is flipped twice on it", node=f.node, file=f.file)
    # the trajectory length handed to the shared Metropolis step does not depend on the state:
    # reversibility of the proposal needs the same length from the proposed state back
    for cls in ("MetropolisStaticIntegrationTransition", "MetropolisRandomIntegrationTransition"):
        k = program.cls(cls)
        f = k.methods.get("sample")
        if f is None:
            raise AnalysisError(f"{cls}.sample not found")
        sp = f.params[1]
        calls = [c for c in ast.walk(f.node) if isinstance(c, ast.Call) and norm(c.func) == "self._sample_n_step"]
        if len(calls) != 1 or len(calls[0].args) < 2:
            raise AnalysisError(f"{cls}.sample: expected one self._sample_n_step(state, n_step, rng) call")
        arg = calls[0].args[1]
        defs = {}
        for n in ast.walk(f.node):
            if isinstance(n, ast.Assign) and len(n.targets) == 1 and isinstance(n.targets[0], ast.Name):
                defs.setdefault(n.targets[0].id, []).append(n.value)
        seen_names, todo, reads_state, exprs = set(), [arg], False, []
        while todo:
            e = todo.pop()
            exprs.append(norm(e))
            for x in ast.walk(e):
                if isinstance(x, ast.Name):
                    if x.id == sp:
                        reads_state = True
                    elif x.id in defs and x.id not in seen_names:
                        seen_names.add(x.id)
                        todo.extend(defs[x.id])
        conditional = any(isinstance(n, (ast.If, ast.IfExp, ast.While)) and sp in {y.id for y in ast.walk(n.test) if isinstance(y, ast.Name)} for n in ast.walk(f.node))
        r.inst({"site": f"{cls}.sample", "length": exprs[-1] if exprs else None, "reads state": reads_state or conditional})
        if reads_state or conditional:
            r.violate(PROP, f"{cls}.sample:length-depends-on-state", f"the number of integrator steps ({exprs[-1]}) depends on the current state: the reverse move from the proposal would use a different length, so the Metropolis ratio exp(-dH) no longer makes the transition reversible", node=calls[0], file=f.file)
        if cls == "MetropolisRandomIntegrationTransition":
            draws = [c for c in ast.walk(f.node) if isinstance(c, ast.Call) and isinstance(c.func, ast.Attribute) and norm(c.func.value) == f.params[2]]
            r.inst({"site": f"{cls}.sample", "draw": [norm(d) for d in draws]})
            if not draws or not any(d.func.attr in ("integers", "randint", "choice") for d in draws):
                r.violate(PROP, f"{cls}.sample:length-not-drawn", "the trajectory length is not drawn from the transition's generator", node=f.node, file=f.file)
    return r


def _assigned_from(f, name: str):
    """Return the (unique) value expression assigned to ``name`` (tuple element aware)."""
    out = []
    for n in ast.walk(f.node):
        if isinstance(n, ast.Assign) and len(n.targets) == 1:
            t = n.targets[0]
            if isinstance(t, ast.Name) and t.id == name:
                out.append((n, n.value, None))
            if isinstance(t, ast.Tuple):
                for i, e in enumerate(t.elts):
                    if isinstance(e, ast.Name) and e.id == name:
                        out.append((n, n.value, i))
    return out


def rule_r2_r8(rep, program: Program):
    r = rep.rule("R2", "acceptance ratios use (new sub-tree weight) / (merged tree weight) inside sub-trees and (new sub-tree) / (current tree) at top level; the draw selects the numerator tree's proposal", floor=4)
    k = program.cls("DynamicIntegrationTransition")
    bt, sm = k.methods["_build_tree"], k.methods["sample"]
    for f, top in ((bt, False), (sm, True)):
        ratios = [n for n in ast.walk(f.node) if isinstance(n, ast.Assign) and isinstance(n.value, ast.Call) and norm(n.value.func) == "self._weight_ratio"]
        if len(ratios) != 1:
            raise AnalysisError(f"{f.qualname}: expected one _weight_ratio call")
        ra = ratios[0]
        num, den = ra.value.args
        pname = norm(ra.targets[0])
        if not (isinstance(num, ast.Attribute) and num.attr == "weight" and isinstance(den, ast.Attribute) and den.attr == "weight"):
            r.violate(PROP, f"{f.qualname}:ratio-args:{norm(num)},{norm(den)}", "acceptance ratio is not a ratio of tree weights", node=ra, file=f.file)
            continue
        num_tree, den_tree = norm(num.value), norm(den.value)
        # numerator tree: bound from a recursive _build_tree call; find its proposal sibling
        src = [x for x in _assigned_from(f, num_tree) if isinstance(x[1], ast.Call) and norm(x[1].func) == "self._build_tree" and x[2] == 1]
        r.inst({"function": f.qualname, "ratio": f"{norm(num)} / {norm(den)}"})
        if not src:
            r.violate(PROP, f"{f.qualname}:numerator:{num_tree}", f"the numerator `{norm(num)}` is not the weight of a sub-tree returned by _build_tree", node=ra, file=f.file)
            continue
        call_stmt = src[-1][0]
        prop_name = norm(call_stmt.targets[0].elts[2])
        if not top:
            # the numerator must be the *second* (outer) sub-tree of this activation
            calls = sorted([n for n in ast.walk(f.node) if isinstance(n, ast.Assign) and isinstance(n.value, ast.Call) and norm(n.value.func) == "self._build_tree"], key=lambda n: n.lineno)
            if call_stmt is not calls[-1]:
                r.violate(PROP, f"{f.qualname}:numerator-not-outer:{num_tree}", "inside a sub-tree the acceptance ratio's numerator must be the weight of the outer (second built) sub-tree", node=ra, file=f.file)
            dsrc = [x for x in _assigned_from(f, den_tree) if isinstance(x[1], ast.Call) and norm(x[1].func) == "self._merge_subtrees"]
            if not dsrc or dsrc[-1][0].lineno > ra.lineno:
                r.violate(PROP, f"{f.qualname}:denominator:{den_tree}", f"inside a sub-tree the denominator must be the weight of the merged tree of the same activation (uniform progressive sampling); `{norm(den)}` is not", node=ra, file=f.file)
        else:
            # denominator: the running tree, before or after the merge of this iteration
            if den_tree != "tree":
                r.violate(PROP, f"{f.qualname}:denominator:{den_tree}", f"at top level the denominator must be the weight of the current trajectory tree; `{norm(den)}` is not", node=ra, file=f.file)
        # selection
        sel = None
        for n in ast.walk(f.node):
            if isinstance(n, ast.IfExp) and pname in norm(n.test):
                sel = (n.test, norm(n.body), norm(n.orelse), n)
            if isinstance(n, ast.If) and pname in norm(n.test) and any(isinstance(s, ast.Assign) for s in n.body):
                asg = [s for s in n.body if isinstance(s, ast.Assign)][0]
                sel = (n.test, norm(asg.value), None, n)
        if sel is None:
            r.violate(PROP, f"{f.qualname}:no-selection", "the acceptance probability is not used to select a proposal", node=ra, file=f.file)
            continue
        test, chosen, other, node = sel
        ok_test = isinstance(test, ast.Compare) and len(test.ops) == 1 and ((isinstance(test.ops[0], ast.Lt) and call_name(test.left).endswith("uniform") and norm(test.comparators[0]) == pname) or (isinstance(test.ops[0], ast.Gt) and norm(test.left) == pname and call_name(test.comparators[0]).endswith("uniform")))
        r.inst({"function": f.qualname, "selection": f"{norm(test)} -> {chosen}", "numerator tree's proposal": prop_name})
        if not ok_test:
            r.violate(PROP, f"{f.qualname}:selection-test:{norm(test)}", f"the selection test `{norm(test)}` is not `U < probability` with U a fresh uniform draw", node=node, file=f.file)
        if chosen != prop_name:
            r.violate(PROP, f"{f.qualname}:selects:{chosen}", f"when the draw falls below the acceptance probability `{chosen}` is selected, but the probability is the relative weight of the sub-tree whose proposal is `{prop_name}`", node=node, file=f.file)
    return r


def rule_r12(rep, program: Program):
    """A sub-tree for which _build_tree reports termination (divergence, error, or a U-turn inside the
    completed sub-tree) must be discarded: states of the old tree would otherwise move into a
    sub-tree from which the doubling, started inside it, could never reach them (no reverse move)."""
    r = rep.rule("R12", "every use of the sub-tree / proposal returned by _build_tree is dominated by a test of the termination flag returned with it (terminated sub-trees are discarded, not merged or sampled from)", floor=3)
    k = program.cls("DynamicIntegrationTransition")
    from ..model import _blocks

    for fname in ("sample", "_build_tree"):
        f = k.methods[fname]
        for block in _blocks(f.node):
            for i, st in enumerate(block):
                if not (isinstance(st, ast.Assign) and len(st.targets) == 1 and isinstance(st.targets[0], ast.Tuple) and isinstance(st.value, ast.Call) and norm(st.value.func) == "self._build_tree"):
                    continue
                tg = st.targets[0].elts
                if len(tg) != 3 or not all(isinstance(x, ast.Name) for x in tg):
                    raise AnalysisError(f"{f.qualname}: result of _build_tree not unpacked into three names")
                flag, vals = tg[0].id, {tg[1].id, tg[2].id}
                rest = block[i + 1 :]
                guard_at = None
                for j, x in enumerate(rest):
                    # the flag must still hold the value returned by this call
                    if any(isinstance(n, ast.Name) and n.id == flag and isinstance(n.ctx, ast.Store) for n in ast.walk(x)):
                        break
                    if isinstance(x, ast.If) and not x.orelse and x.body and isinstance(x.body[-1], (ast.Break, ast.Return, ast.Raise, ast.Continue)) and norm(x.test) in (flag, f"{flag} == True", f"bool({flag})"):
                        guard_at = j
                        break
                    if isinstance(x, ast.If) and x.orelse and norm(x.test) == flag and x.body and isinstance(x.body[-1], (ast.Break, ast.Return, ast.Raise, ast.Continue)):
                        guard_at = j
                        break
                    if isinstance(x, ast.If) and norm(x.test) == f"not {flag}" and x.orelse and isinstance(x.orelse[-1], (ast.Break, ast.Return, ast.Raise, ast.Continue)):
                        guard_at = j
                        break
                limit = len(rest) if guard_at is None else guard_at
                early = []
                for x in rest[:limit]:
                    # a re-binding of the value names ends their life
                    for n in ast.walk(x):
                        if isinstance(n, ast.Name) and n.id in vals and isinstance(n.ctx, ast.Load):
                            early.append((x, n.id))
                r.inst({"function": f.qualname, "call": norm(st)[:60], "flag": flag, "guard": norm(rest[guard_at].test) if guard_at is not None else None, "uses before guard": [e[1] for e in early]})
                if guard_at is None and any(isinstance(n, ast.Name) and n.id in vals and isinstance(n.ctx, ast.Load) for x in rest for n in ast.walk(x)):
                    tests = [norm(x.test) for x in rest if isinstance(x, ast.If)][:2]
                    r.violate(PROP, f"{f.qualname}:subtree-used-without-flag-test:{flag}", f"the sub-tree / proposal returned by _build_tree is used although no test of the returned termination flag `{flag}` leaves first (tests that follow: {tests}): _build_tree also reports termination together with a complete sub-tree (U-turn inside it), which is then merged and sampled from - moves into such a sub-tree have no reverse move, the transition is not invariant", node=st, file=f.file)
                elif early:
                    r.violate(PROP, f"{f.qualname}:subtree-used-before-flag-test:{early[0][1]}", f"`{early[0][1]}` of the new sub-tree is used before the termination flag `{flag}` is tested", node=early[0][0], file=f.file)
    return r


def rule_r13(rep, program: Program):
    """The merged tree is tested against the termination criterion after every doubling, whatever its depth: the same
    pair of states is tested (and discarded) when it is built as a sub-tree from a start state outside it, so a
    level-dependent exemption makes reachability depend on the start state - no reverse move."""
    r = rep.rule("R13", "after every merge in the doubling loop the termination criterion decides alone whether the loop stops (no depth-dependent exemption)", floor=1)
    f = program.cls("DynamicIntegrationTransition").methods["sample"]
    loops = [n for n in ast.walk(f.node) if isinstance(n, ast.For) and any(isinstance(c, ast.Call) and norm(c.func) == "self._build_tree" for c in ast.walk(n))]
    if len(loops) != 1:
        raise AnalysisError("DynamicIntegrationTransition.sample: doubling loop not found")
    lp = loops[0]
    crit = [c for c in ast.walk(lp) if isinstance(c, ast.Call) and norm(c.func) == "self._termination_criterion"]
    if not crit:
        raise AnalysisError("DynamicIntegrationTransition.sample: termination criterion is not evaluated in the doubling loop")
    pm = {ch: par for par in ast.walk(lp) for ch in ast.iter_child_nodes(par)}
    for c in crit:
        st = c
        while st in pm and not isinstance(st, ast.stmt):
            st = pm[st]
        test = st.test if isinstance(st, ast.If) else (st.value if isinstance(st, ast.Assign) else None)
        # the statement evaluating the criterion runs on every iteration that reaches the merge
        # tests of the flag returned by _build_tree (rule R12 decides whether they are tests of its truth) and
        # `x is None` tests are not exemptions
        flags = {n.targets[0].elts[0].id for n in ast.walk(lp) if isinstance(n, ast.Assign) and isinstance(n.targets[0], ast.Tuple) and isinstance(n.value, ast.Call) and norm(n.value.func) == "self._build_tree" and isinstance(n.targets[0].elts[0], ast.Name)}
        conds = [(t, tr) for t, tr in execution_condition(f.node, st, stop_at=(ast.For,)) if not (isinstance(t, ast.Name) or {x.id for x in ast.walk(t) if isinstance(x, ast.Name)} <= flags | {"bool"} or (isinstance(t, ast.Compare) and isinstance(t.left, ast.Name) and norm(t.comparators[0]) == "None"))]
        exempt = None
        if isinstance(test, ast.BoolOp) and isinstance(test.op, ast.And):
            others = [v for v in test.values if not any(x is c for x in ast.walk(v))]
            if others:
                exempt = " and ".join(norm(v) for v in others)
        if isinstance(test, ast.IfExp):
            exempt = norm(test.test)
        if conds:
            exempt = (exempt + " / " if exempt else "") + " and ".join(("" if tr else "not ") + norm(t) for t, tr in conds)
        r.inst({"criterion evaluated in": norm(st)[:60], "additional condition": exempt})
        if exempt:
            r.violate(PROP, f"{f.qualname}:termination-exempt:{exempt[:40]}", f"the doubling loop stops on the termination criterion only when `{exempt}` also holds: trees for which it does not are never tested at the top level, although the same states are tested when they are built as a sub-tree from elsewhere - the set of reachable trees depends on the start state and the transition is not invariant", node=st, file=f.file)
    return r


def rule_r3_r10(rep, program: Program):
    r = rep.rule("R3", "merge preserves structure; merge arguments and the continuation edge follow the integration direction", floor=9)
    k = program.cls("DynamicIntegrationTransition")
    mg = k.methods["_merge_subtrees"]
    a, b = mg.params[-2], mg.params[-1]  # (self,) negative sub-tree, positive sub-tree
    rets = [n for n in ast.walk(mg.node) if isinstance(n, ast.Return)]
    call = rets[-1].value
    if not (isinstance(call, ast.Call) and norm(call.func) == "_SubTree"):
        raise AnalysisError("_merge_subtrees: does not return a _SubTree(...)")
    kw = {x.arg: x.value for x in call.keywords}
    fields = list(program.cls("_SubTree").class_attrs)
    for nm, v in zip(fields, call.args):
        kw[nm] = v
    want = {
        "negative": Rat.sym(f"{a}.negative"),
        "positive": Rat.sym(f"{b}.positive"),
        "weight": Rat.sym(f"{a}.weight") + Rat.sym(f"{b}.weight"),
        "sum_mom": Rat.sym(f"{a}.sum_mom") + Rat.sym(f"{b}.sum_mom"),
    }
    for fld, w in want.items():
        got = eval_expr(kw[fld], {}) if fld in kw else None
        r.inst({"merge field": fld, "value": repr(got)})
        if got is None or not got.equals(w):
            r.violate(PROP, f"_merge_subtrees:{fld}={got!r}", f"merged tree's `{fld}` is {got!r} instead of {w!r}", node=call, file=mg.file)
    d = eval_expr(kw["depth"], {}) if "depth" in kw else None
    r.inst({"merge field": "depth", "value": repr(d)})
    if d is None or not (d.equals(Rat.sym(f"{a}.depth") + 1) or d.equals(Rat.sym(f"{b}.depth") + 1)):
        r.violate(PROP, f"_merge_subtrees:depth={d!r}", "merged tree's depth is not sub-tree depth + 1", node=call, file=mg.file)
    # call sites
    for f, newer, older, dirtest in ((k.methods["_build_tree"], "outer_tree", "inner_tree", "state.dir == 1"), (k.methods["sample"], "new_tree", "tree", "direction == 1")):
        defs = {}
        for n in ast.walk(f.node):
            if isinstance(n, ast.Assign) and isinstance(n.targets[0], ast.Name) and isinstance(n.value, ast.IfExp):
                defs[n.targets[0].id] = n.value
            # the same choice written as a statement: if <dir test>: a, b = x, y / else: a, b = y, x
            if isinstance(n, ast.If) and n.orelse:
                def arm_assigns(stmts):
                    out = {}
                    for st in stmts:
                        if isinstance(st, ast.Assign) and len(st.targets) == 1:
                            t = st.targets[0]
                            if isinstance(t, ast.Name):
                                out[t.id] = st.value
                            elif isinstance(t, ast.Tuple) and isinstance(st.value, ast.Tuple) and len(t.elts) == len(st.value.elts):
                                for x, v in zip(t.elts, st.value.elts):
                                    if isinstance(x, ast.Name):
                                        out[x.id] = v
                    return out

                a1, a2 = arm_assigns(n.body), arm_assigns(n.orelse)
                for nm in set(a1) & set(a2):
                    defs[nm] = ast.IfExp(test=n.test, body=a1[nm], orelse=a2[nm])
        calls = [n for n in ast.walk(f.node) if isinstance(n, ast.Call) and norm(n.func) == "self._merge_subtrees"]
        if len(calls) != 1:
            raise AnalysisError(f"{f.qualname}: expected one _merge_subtrees call")
        c = calls[0]
        tuple_defs = {n.targets[0].id: n.value for n in ast.walk(f.node) if isinstance(n, ast.Assign) and len(n.targets) == 1 and isinstance(n.targets[0], ast.Name) and isinstance(n.value, (ast.Tuple, ast.List))}
        dirvar = dirtest.split(" ")[0]

        def arg_list(call, positive_dir):
            """Argument texts of a call for one direction; `*t[::direction]` on a tuple local is expanded."""
            out = []
            for a in call.args:
                if isinstance(a, ast.Starred):
                    v = a.value
                    rev = False
                    if isinstance(v, ast.Subscript) and isinstance(v.slice, ast.Slice) and v.slice.lower is None and v.slice.upper is None and v.slice.step is not None:
                        st_txt = norm(v.slice.step)
                        if st_txt == dirvar:
                            rev = not positive_dir
                        elif st_txt == f"-{dirvar}":
                            rev = positive_dir
                        elif st_txt == "-1":
                            rev = True
                        elif st_txt != "1":
                            raise AnalysisError(f"{f.qualname}: starred argument with an unrecognised slice {norm(a)[:40]}")
                        v = v.value
                    if isinstance(v, ast.Name) and v.id in tuple_defs:
                        items = [norm(x) for x in tuple_defs[v.id].elts]
                    elif isinstance(v, (ast.Tuple, ast.List)):
                        items = [norm(x) for x in v.elts]
                    else:
                        raise AnalysisError(f"{f.qualname}: starred argument outside the grammar: {norm(a)[:40]}")
                    out.extend(reversed(items) if rev else items)
                else:
                    out.append(norm(a))
            return out

        args = None

        def resolve(nm, positive_dir):
            e = defs.get(nm)
            if e is None:
                return nm
            t = norm(e.test)
            if t == dirtest:
                return norm(e.body) if positive_dir else norm(e.orelse)
            if t in (dirtest.replace("== 1", "== -1"), dirtest.replace("== 1", "!= 1")):
                return norm(e.orelse) if positive_dir else norm(e.body)
            return None

        term_calls = [n for n in ast.walk(f.node) if isinstance(n, ast.Call) and norm(n.func) == "self._termination_criterion"]
        if len(term_calls) != 1:
            raise AnalysisError(f"{f.qualname}: expected one _termination_criterion call")
        merged_name = next((norm(n.targets[0]) for n in ast.walk(f.node) if isinstance(n, ast.Assign) and n.value is c), None)
        for positive_dir in (True, False):
            args = arg_list(c, positive_dir)
            if len(args) != 2:
                raise AnalysisError(f"{f.qualname}: _merge_subtrees called with {len(args)} arguments")
            neg, pos = resolve(args[0], positive_dir), resolve(args[1], positive_dir)
            # the termination check must look at the merged tree and the same (negative, positive) pair
            targs = arg_list(term_calls[0], positive_dir)
            tres = [targs[0]] + [resolve(x, positive_dir) for x in targs[1:]] if targs else []
            r.inst({"function": f.qualname, "direction": "+1" if positive_dir else "-1", "termination check on": tres})
            if tres != [merged_name, neg, pos]:
                r.violate(PROP, f"{f.qualname}:termination-args:dir={'+' if positive_dir else '-'}:{tres}", f"for direction {'+1' if positive_dir else '-1'} the termination criterion is evaluated on {tres} but the merged tree is {merged_name} = merge(negative={neg}, positive={pos}): the sub-tree checks then use momentum sums over the wrong (non-contiguous) states, so whether a trajectory terminates depends on where it was started", node=term_calls[0], file=f.file)
            want_neg, want_pos = (older, newer) if positive_dir else (newer, older)
            r.inst({"function": f.qualname, "direction": "+1" if positive_dir else "-1", "merge(neg,pos)": [neg, pos]})
            if (neg, pos) != (want_neg, want_pos):
                r.violate(PROP, f"{f.qualname}:merge-order:dir={'+' if positive_dir else '-'}:{neg},{pos}", f"for direction {'+1' if positive_dir else '-1'} the sub-trees are merged as (negative={neg}, positive={pos}); the newly built tree must be on the {'positive' if positive_dir else 'negative'} side", node=c, file=f.file)
        # continuation edge
        # the state the next sub-tree is grown from: a local (whatever its name) chosen between the two edge states
        cont = [n for n in ast.walk(f.node) if isinstance(n, ast.Assign) and isinstance(n.targets[0], ast.Name) and isinstance(n.value, ast.IfExp) and {norm(n.value.body).rsplit(".", 1)[-1], norm(n.value.orelse).rsplit(".", 1)[-1]} == {"positive", "negative"}]
        if len(cont) != 1:
            raise AnalysisError(f"{f.qualname}: continuation state selection not found")
        e = cont[0].value
        t = norm(e.test)
        base = "inner_tree" if f.name == "_build_tree" else "tree"
        if t == dirtest:
            pos_edge, neg_edge = norm(e.body), norm(e.orelse)
        elif t == dirtest.replace("== 1", "== -1"):
            pos_edge, neg_edge = norm(e.orelse), norm(e.body)
        else:
            pos_edge = neg_edge = None
        r.inst({"function": f.qualname, "continue from": norm(e)})
        if (pos_edge, neg_edge) != (f"{base}.positive", f"{base}.negative"):
            r.violate(PROP, f"{f.qualname}:continuation:{norm(e)[:50]}", f"the next sub-tree is not grown from the {base}'s edge in the integration direction (positive edge for +1, negative edge for -1): the trajectory is not contiguous", node=cont[0], file=f.file)
    # sample sets the direction of the edge state before expanding
    sm = k.methods["sample"]
    edge_names = {n.targets[0].id for n in ast.walk(sm.node) if isinstance(n, ast.Assign) and isinstance(n.targets[0], ast.Name) and isinstance(n.value, ast.IfExp) and {norm(n.value.body).rsplit(".", 1)[-1], norm(n.value.orelse).rsplit(".", 1)[-1]} == {"positive", "negative"}} | {"state"}
    if not any(isinstance(n, ast.Assign) and isinstance(n.targets[0], ast.Attribute) and n.targets[0].attr == "dir" and norm(n.targets[0].value) in edge_names and norm(n.value) == "direction" for n in ast.walk(sm.node)):
        r.violate(PROP, "DynamicIntegrationTransition.sample:state.dir", "the edge state's direction flag is not set to the sampled direction before expanding the tree", node=sm.node, file=sm.file)
    return r


def rule_r4(rep, program: Program):
    r = rep.rule("R4", "termination checks are closed under the time reflection (neg<->pos sub-tree, negative<->positive edge, swapped end points)", floor=3)
    k = program.cls("DynamicIntegrationTransition")
    f = k.methods["_termination_criterion"]
    tname, nname, pname = f.params[1], f.params[2], f.params[3]
    calls = [n for n in ast.walk(f.node) if isinstance(n, ast.Call) and norm(n.func) == "self.termination_criterion"]
    if len(calls) < 1:
        raise AnalysisError("_termination_criterion: no criterion call")

    def sigma(txt: str) -> str:
        txt = txt.replace(nname, "\0N").replace(pname, "\0P")
        txt = txt.replace(".negative", "\0n").replace(".positive", "\0p")
        txt = txt.replace("\0N", pname).replace("\0P", nname).replace("\0n", ".positive").replace("\0p", ".negative")
        return txt

    def canon(c):
        a = [x for x in c.args]
        s1, s2 = norm(a[1]), norm(a[2])
        try:
            sm = repr(eval_expr(a[3], {}))
        except AnalysisError:
            sm = norm(a[3])
        return (s1, s2, sm)

    def canon_sigma(c):
        a = [x for x in c.args]
        s1, s2 = sigma(norm(a[2])), sigma(norm(a[1]))  # reflected and swapped
        e = ast.parse(sigma(norm(a[3])), mode="eval").body
        try:
            sm = repr(eval_expr(e, {}))
        except AnalysisError:
            sm = norm(e)
        return (s1, s2, sm)

    have = {canon(c) for c in calls}
    for c in calls:
        img = canon_sigma(c)
        r.inst({"check": canon(c), "reflection": img, "present": img in have})
        if img not in have:
            r.violate(PROP, f"_termination_criterion:asymmetric:{canon(c)}"[:160], f"the termination check on {canon(c)} has no mirror image {img}: the set of admissible trajectories depends on the direction in which the tree was built", node=c, file=f.file)
    return r


def rule_r5(rep, program: Program):
    r = rep.rule("R5", "tree expansion direction is +-1 with probability 1/2 each", floor=1)
    f = program.method("DynamicIntegrationTransition", "sample")
    asg = [n for n in ast.walk(f.node) if isinstance(n, ast.Assign) and norm(n.targets[0]) == "direction"]
    if len(asg) != 1:
        raise AnalysisError("sample: direction assignment not found")
    v = asg[0].value
    cmp_ = [n for n in ast.walk(v) if isinstance(n, ast.Compare)]
    ok = False
    why = norm(v)
    if len(cmp_) == 1:
        c = cmp_[0]
        if len(c.ops) == 1 and isinstance(c.ops[0], (ast.Lt, ast.LtE, ast.Gt, ast.GtE)):
            sides = [c.left, c.comparators[0]]
            u = [s for s in sides if isinstance(s, ast.Call) and call_name(s).endswith("uniform") and not s.args and not s.keywords]
            k = [s for s in sides if isinstance(s, ast.Constant)]
            if len(u) == 1 and len(k) == 1 and k[0].value == 0.5:
                B = "@B"
                env = {}
                expr = ast.parse(norm(v).replace(norm(c), "B__"), mode="eval").body
                val = eval_expr(expr, {"B__": Rat.sym(B)})
                ok = val.equals(2 * Rat.sym(B) - 1) or val.equals(1 - 2 * Rat.sym(B))
    if isinstance(v, ast.Call) and call_name(v).endswith("choice") and v.args and norm(v.args[0]).replace(" ", "") in ("[-1,1]", "[1,-1]", "(-1,1)", "(1,-1)") and len(v.args) == 1 and not v.keywords:
        ok = True
    r.inst({"direction": norm(v), "fair": ok})
    if not ok:
        r.violate(PROP, f"sample:direction:{why[:50]}", f"`{why}` is not a fair +-1 coin: biased direction choice breaks the symmetry between building a trajectory forwards and backwards", node=asg[0], file=f.file)
    return r


def rule_r6(rep, program: Program):
    r = rep.rule("R6", "step and acceptance accumulators co-updated after the step, before any later raise; mean = sum / n_step; Metropolis n_step = completed steps", floor=4)
    k = program.cls("DynamicIntegrationTransition")
    bt = k.methods["_build_tree"]
    tries = [t for t in ast.walk(bt.node) if isinstance(t, ast.Try)]
    if not tries:
        raise AnalysisError("_build_tree: try block not found")
    body = tries[0].body
    idx = {}
    for i, st in enumerate(body):
        t = norm(st)
        if isinstance(st, ast.Assign) and isinstance(st.value, ast.Call) and call_name(st.value).endswith("integrator.step"):
            idx["step"] = i
        if isinstance(st, ast.AugAssign) and norm(st.target) == "stats['sum_metrop_accept_prob']":
            idx["sum"] = i
            idx["sum_val"] = norm(st.value)
        if isinstance(st, ast.AugAssign) and norm(st.target) == "stats['n_step']":
            idx["n"] = i
            idx["n_val"] = norm(st.value)
        if isinstance(st, ast.Expr) and isinstance(st.value, ast.Call) and call_name(st.value) == "self._check_divergence":
            idx["div"] = i
    r.inst({"_build_tree order": {k2: v for k2, v in idx.items() if isinstance(v, int)}})
    need = ("step", "sum", "n")
    if any(x not in idx for x in need):
        r.violate(PROP, f"_build_tree:accumulators-missing:{[x for x in need if x not in idx]}", "the step counter / acceptance accumulator is not updated in the leaf case", node=bt.node, file=bt.file)
    else:
        lo, hi = sorted((idx["sum"], idx["n"]))
        between = body[lo + 1 : hi]
        raising = [s for s in between if any(isinstance(c, ast.Call) and (call_name(c).startswith("self._") or "system." in call_name(c) or "integrator." in call_name(c)) for c in ast.walk(s))]
        if idx["step"] > lo:
            r.violate(PROP, "_build_tree:accumulate-before-step", "the accumulators are updated before the integrator step they count", node=body[lo], file=bt.file)
        if raising:
            r.violate(PROP, "_build_tree:raise-between-accumulators", f"`{norm(raising[0])[:50]}` can raise between the two accumulator updates: the reported mean then divides by a count that does not match the accumulated sum", node=raising[0], file=bt.file)
        if "div" in idx and idx["div"] < hi:
            r.violate(PROP, "_build_tree:divergence-check-before-count", "the divergence check (which raises) runs before the step has been counted: a diverging step is taken but not counted", node=body[idx["div"]], file=bt.file)
        if idx.get("n_val") != "1":
            r.violate(PROP, f"_build_tree:n_step+={idx.get('n_val')}", "the step counter is not incremented by one per integrator step", node=body[idx["n"]], file=bt.file)
        if idx.get("sum_val") != "metrop_accept_prob":
            r.violate(PROP, f"_build_tree:sum+={idx.get('sum_val')}", "the accumulated quantity is not the Metropolis acceptance probability of the visited state", node=body[idx["sum"]], file=bt.file)
    sm = k.methods["sample"]
    env = SymEnv({})
    avs = [n for n in ast.walk(sm.node) if isinstance(n, ast.Assign) and norm(n.targets[0]) == "stats['av_metrop_accept_prob']" and not isinstance(n.value, ast.Constant)]
    pops = {norm(n.targets[0]): norm(n.value) for n in ast.walk(sm.node) if isinstance(n, ast.Assign) and isinstance(n.value, ast.Call) and norm(n.value.func) == "stats.pop"}
    ok = False
    # a local bound once to a statistics entry (`n_step = stats["n_step"]`) stands for that entry
    counts = {}
    for n in ast.walk(sm.node):
        if isinstance(n, ast.Name) and isinstance(n.ctx, ast.Store):
            counts[n.id] = counts.get(n.id, 0) + 1
    entry_alias = {n.targets[0].id: norm(n.value) for n in ast.walk(sm.node) if isinstance(n, ast.Assign) and len(n.targets) == 1 and isinstance(n.targets[0], ast.Name) and counts.get(n.targets[0].id) == 1 and isinstance(n.value, ast.Subscript) and norm(n.value.value) == "stats"}

    def res(e):
        txt = norm(e)
        for nm, ent in entry_alias.items():
            txt = re.sub(rf"\b{re.escape(nm)}\b", ent, txt)
        return txt

    for a in avs:
        # the mean may sit in the non-degenerate arm of a conditional expression guarding n_step > 0
        cands = [a.value]
        if isinstance(a.value, ast.IfExp):
            cands = [a.value.body, a.value.orelse]
        for v in cands:
            if not (isinstance(v, ast.BinOp) and isinstance(v.op, ast.Div) and res(v.right) == "stats['n_step']"):
                continue
            num = norm(v.left)
            if pops.get(num) == "stats.pop('sum_metrop_accept_prob')" or num == "stats['sum_metrop_accept_prob']":
                ok = True
            # zero-step guard (if present) must test the same counter
            if isinstance(a.value, ast.IfExp) and "stats['n_step']" not in res(a.value.test):
                ok = False
    r.inst({"reported mean": [norm(a.value) for a in avs]})
    if not ok:
        r.violate(PROP, "sample:av_metrop_accept_prob", "the reported mean acceptance probability is not sum_metrop_accept_prob / n_step", node=sm.node, file=sm.file)
    init = [n for n in ast.walk(sm.node) if isinstance(n, ast.Assign) and norm(n.targets[0]) == "stats" and isinstance(n.value, ast.Dict)]
    if init:
        d = {norm(k2): norm(v2) for k2, v2 in zip(init[0].value.keys, init[0].value.values)}
        r.inst({"initial": {"n_step": d.get("'n_step'"), "sum": d.get("'sum_metrop_accept_prob'")}})
        if d.get("'n_step'") != "0" or d.get("'sum_metrop_accept_prob'") not in ("0.0", "0"):
            r.violate(PROP, "sample:accumulator-init", "step counter / acceptance accumulator do not start at zero", node=init[0], file=sm.file)
    # Metropolis n_step
    f = program.method("MetropolisIntegrationTransition", "_sample_n_step")
    tr = [t for t in ast.walk(f.node) if isinstance(t, ast.Try)][0]
    loop = [n for n in tr.body if isinstance(n, ast.For)]
    lv = norm(loop[0].target) if loop else None
    h = {norm(s.targets[0]): norm(s.value) for hd in tr.handlers for s in hd.body if isinstance(s, ast.Assign)}
    e = {norm(s.targets[0]): norm(s.value) for s in tr.orelse if isinstance(s, ast.Assign)}
    r.inst({"Metropolis n_step on error": h.get("stats['n_step']"), "on success": e.get("stats['n_step']")})
    if h.get("stats['n_step']") != lv:
        r.violate(PROP, f"_sample_n_step:n_step-on-error:{h.get(chr(39) + 'x')}", f"on an integrator error the reported step count is `{h.get(chr(34)+'stats'+chr(34))}`; it must be the loop index (number of completed steps)", node=tr, file=f.file)
    if e.get("stats['n_step']") != f.params[2]:
        r.violate(PROP, "_sample_n_step:n_step-on-success", "on success the reported step count is not the number of steps requested", node=tr, file=f.file)
    return r


def _r7_build_tree(r, program: Program):
    """The per-state acceptance statistic of the dynamic transitions is based on h_init - h."""
    bt = program.method("DynamicIntegrationTransition", "_build_tree")
    cands = []
    for n in ast.walk(bt.node):
        if isinstance(n, ast.BinOp) and isinstance(n.op, ast.Sub) and "h_init" in norm(n) and "delta" not in norm(n):
            cands.append(norm(n))
    r.inst({"_build_tree energy differences": sorted(set(cands))})
    bad = [c for c in cands if c.replace('"', "'") not in ("aux_vars['h_init'] - h",)]
    for c in sorted(set(bad)):
        r.violate(PROP, f"_build_tree:h_diff:{c}", "the per-state Metropolis acceptance statistic is not based on h_init - h", node=bt.node, file=bt.file)


def rule_r7(rep, program: Program):
    from . import transim

    if transim.available(program):
        r = rep.rule("R7", "Metropolis ratio exp(min(0, h(start) - h(proposal))) and accept test U < p [the Metropolis step is decided by the abstract runs (R14); structural analysis is the fallback]", floor=1)
        r.inst({"decided by": "abstract runs (R14)"})
        _r7_build_tree(r, program)
        return r
    r = rep.rule("R7", "Metropolis ratio exp(min(0, h(start) - h(proposal))) and accept test U < p", floor=3)
    f = program.method("MetropolisIntegrationTransition", "_sample_n_step")
    sname = f.params[1]
    defs = {}
    for n in ast.walk(f.node):
        if isinstance(n, ast.Assign) and len(n.targets) == 1 and isinstance(n.targets[0], ast.Name):
            defs.setdefault(n.targets[0].id, []).append(n)
    exps = [n for n in ast.walk(f.node) if isinstance(n, ast.Call) and call_name(n) in ("np.exp", "exp") and n.args and isinstance(n.args[0], ast.Call) and norm(n.args[0].func) == "min"]
    if not exps:
        raise AnalysisError("_sample_n_step: exp(min(0, .)) not found")
    for e in exps:
        d = [a for a in e.args[0].args if not isinstance(a, ast.Constant)][0]
        z = [a for a in e.args[0].args if isinstance(a, ast.Constant)]
        env = SymEnv({})
        for nm in ("h_init", "h_final"):
            for a in defs.get(nm, []):
                env.exec(a)
        if isinstance(d, ast.Name) and d.id in defs:
            env.exec(defs[d.id][-1])
            val = env.env[d.id]
        else:
            val = env.ev(d)
        # which object is each h evaluated on
        hi = norm(defs["h_init"][0].value) if "h_init" in defs else None
        hf = norm(defs["h_final"][0].value) if "h_final" in defs else None
        want = Rat.sym(f"call[self.system.h({sname})]") - Rat.sym("call[self.system.h(state_p)]")
        r.inst({"ratio argument": repr(val), "h_init": hi, "h_final": hf})
        if not (z and z[0].value == 0):
            r.violate(PROP, "_sample_n_step:min-cap", "acceptance probability is not capped with min(0, .) inside the exponential", node=e, file=f.file)
        if not val.equals(want):
            r.violate(PROP, f"_sample_n_step:ratio:{val!r}"[:150], f"the acceptance probability uses exp(min(0, {val!r})); detailed balance needs h(start state) - h(proposal)", node=e, file=f.file)
        # h_init evaluated before the integration loop
        loop = [n for n in ast.walk(f.node) if isinstance(n, ast.For)][0]
        if "h_init" in defs and defs["h_init"][0].lineno > loop.lineno:
            r.violate(PROP, "_sample_n_step:h_init-after-loop", "the initial energy is evaluated after integrating", node=defs["h_init"][0], file=f.file)
    tests = [n for n in ast.walk(f.node) if isinstance(n, ast.If) and "accept_prob" in norm(n.test) and any(isinstance(s, ast.Assign) and norm(s.targets[0]) == sname for s in n.body)]
    if len(tests) != 1:
        raise AnalysisError("_sample_n_step: accept test not found")
    t = tests[0].test
    atoms = t.values if isinstance(t, ast.BoolOp) and isinstance(t.op, ast.And) else [t]
    cmpn = [a for a in atoms if isinstance(a, ast.Compare) and "accept_prob" in norm(a)]
    ok = False
    if cmpn:
        c = cmpn[0]
        ok = len(c.ops) == 1 and ((isinstance(c.ops[0], ast.Lt) and call_name(c.left).endswith("uniform") and norm(c.comparators[0]) == "accept_prob") or (isinstance(c.ops[0], ast.Gt) and norm(c.left) == "accept_prob" and call_name(c.comparators[0]).endswith("uniform")))
    r.inst({"accept test": norm(t), "ok": ok})
    if not ok:
        r.violate(PROP, f"_sample_n_step:accept-test:{norm(t)[:50]}", "the proposal is not accepted exactly when a fresh uniform draw is below the acceptance probability", node=tests[0], file=f.file)
    # the same form for the statistic in _build_tree
    bt = program.method("DynamicIntegrationTransition", "_build_tree")
    hd = [n for n in ast.walk(bt.node) if isinstance(n, ast.Assign) and norm(n.targets[0]) == "h_diff"]
    if hd:
        v = norm(hd[0].value)
        r.inst({"_build_tree h_diff": v})
        if v != "aux_vars['h_init'] - h":
            r.violate(PROP, f"_build_tree:h_diff:{v}", "the per-state Metropolis acceptance statistic is not based on h_init - h", node=hd[0], file=bt.file)
    return r


def rule_r9(rep, program: Program):
    r = rep.rule("R9", "weight functions / ratios of the multinomial and slice transitions; divergence tests; slice variable", floor=7)
    mk, sk = program.cls("MultinomialDynamicIntegrationTransition"), program.cls("SliceDynamicIntegrationTransition")

    def ret(f):
        return expand_locals([n for n in ast.walk(f.node) if isinstance(n, ast.Return)][-1].value, single_assignment_locals(f.node))

    # multinomial weight
    f = mk.methods["_weight_function"]
    v = ret(f)
    ok = isinstance(v, ast.Call) and norm(v.func) == "LogRepFloat" and len(v.keywords) == 1 and v.keywords[0].arg == "log_val" and norm(v.keywords[0].value) == f"-{f.params[1]}"
    r.inst({"multinomial weight": norm(v)})
    if not ok:
        r.violate(PROP, f"{f.qualname}:{norm(v)[:50]}", "the multinomial weight of a state is not exp(-h) (LogRepFloat(log_val=-h))", node=v, file=f.file)
    for k in (mk, sk):
        f = k.methods["_weight_ratio"]
        v = ret(f)
        n_, d_ = f.params[1], f.params[2]
        main = v.body if isinstance(v, ast.IfExp) else v
        ok = isinstance(main, ast.Call) and norm(main.func) == "min" and {norm(a) for a in main.args} == {f"{n_} / {d_}", "1"}
        r.inst({"class": k.name, "weight ratio": norm(v)})
        if not ok:
            r.violate(PROP, f"{f.qualname}:{norm(v)[:50]}", "the acceptance probability is not min(numerator / denominator, 1)", node=v, file=f.file)
        if isinstance(v, ast.IfExp):
            if norm(v.test) not in (f"{d_} > 0", f"{d_} != 0") or norm(v.orelse) not in (f"min({n_}, 1)", f"min(1, {n_})"):
                r.violate(PROP, f"{f.qualname}:zero-denominator:{norm(v.orelse)[:40]}", "with an empty (zero weight) current tree the ratio must be min(numerator, 1)", node=v, file=f.file)
    # slice weight and slice variable
    f = sk.methods["_weight_function"]
    v = ret(f)
    h, aux = f.params[1], f.params[2]
    cmpn = [n for n in ast.walk(v) if isinstance(n, ast.Compare)]
    ok = len(cmpn) == 1 and ((isinstance(cmpn[0].ops[0], ast.LtE) and norm(cmpn[0].left) == f"{aux}['log_u']" and norm(cmpn[0].comparators[0]) == f"-{h}") or (isinstance(cmpn[0].ops[0], ast.GtE) and norm(cmpn[0].left) == f"-{h}" and norm(cmpn[0].comparators[0]) == f"{aux}['log_u']"))
    r.inst({"slice weight": norm(v)})
    if not ok:
        r.violate(PROP, f"{f.qualname}:{norm(v)[:50]}", "the slice indicator is not [log u <= -h]", node=v, file=f.file)
    # the indicator is *added* (tree weights are sums over states): it must be a number, not a
    # truth value - log_u is a numpy float, so a bare comparison is numpy.bool_, whose + is logical or
    def additive(e):
        if isinstance(e, (ast.Compare, ast.BoolOp)) or (isinstance(e, ast.UnaryOp) and isinstance(e.op, ast.Not)):
            return False
        if isinstance(e, ast.BinOp) and isinstance(e.op, (ast.Mult, ast.Add, ast.Sub)):
            sides = [e.left, e.right]
            return any(isinstance(x, ast.Constant) and isinstance(x.value, (int, float)) and not isinstance(x.value, bool) for x in sides) or all(additive(x) for x in sides)
        if isinstance(e, ast.Call) and norm(e.func) in ("int", "float", "np.where", "np.int64", "np.float64", "LogRepFloat"):
            return True
        if isinstance(e, ast.Call) and isinstance(e.func, ast.Attribute) and e.func.attr == "astype":
            return True
        if isinstance(e, ast.IfExp):
            return additive(e.body) and additive(e.orelse)
        if isinstance(e, ast.Constant):
            return isinstance(e.value, (int, float)) and not isinstance(e.value, bool)
        raise AnalysisError(f"{f.qualname}: slice weight of an unrecognised form {norm(e)[:50]}")

    add_ok = additive(v)
    r.inst({"slice weight is a number (summable)": add_ok})
    if ok and not add_ok:
        r.violate(PROP, f"{f.qualname}:boolean-weight:{norm(v)[:40]}", "the slice weight is returned as a truth value; log_u is a numpy float so this is numpy.bool_, and _merge_subtrees adds tree weights with `+`, which for numpy booleans is logical or: a tree's weight becomes 'any state in the slice' instead of the number of them, so the new-subtree acceptance ratio and the state selection are no longer uniform over the slice", node=v, file=f.file)
    f = sk.methods["_init_aux_vars"]
    lu = [n for n in ast.walk(f.node) if isinstance(n, ast.Assign) and norm(n.targets[0]) == "aux_vars['log_u']"]
    okl = False
    if lu:
        e = SymEnv({})
        lu_value = expand_locals(lu[0].value, {k2: v2 for k2, v2 in single_assignment_locals(f.node).items() if k2 != "aux_vars"})
        val = e.ev(lu_value)
        logs = [c for c in ast.walk(lu_value) if isinstance(c, ast.Call) and call_name(c) in ("np.log", "log", "math.log")]
        if logs and call_name(logs[0].args[0]).endswith("uniform") and not logs[0].args[0].args:
            lsym = [s for s in val.symbols() if s.startswith("log[")]
            if len(lsym) == 1 and val.equals(Rat.sym(lsym[0]) - Rat.sym("aux_vars['h_init']")):
                okl = True
    r.inst({"slice variable": norm(lu[0].value) if lu else None, "ok": okl})
    if not okl:
        r.violate(PROP, f"{f.qualname}:log_u", "the slice variable is not log(U) - h_init with U uniform (u | state ~ U[0, exp(-h_init)])", node=f.node, file=f.file)
    hi = [n for n in ast.walk(program.method("DynamicIntegrationTransition", "_init_aux_vars").node) if isinstance(n, ast.Return)]
    if not hi or norm(hi[0].value) != "{'h_init': self.system.h(state)}":
        r.violate(PROP, "DynamicIntegrationTransition._init_aux_vars:h_init", "h_init is not the Hamiltonian of the start state", node=hi[0] if hi else None, file=mk.module.path)
    # divergence tests
    f = mk.methods["_check_divergence"]
    t = [n for n in ast.walk(f.node) if isinstance(n, ast.If)][0].test
    e = SymEnv({})
    okm = isinstance(t, ast.Compare) and isinstance(t.ops[0], (ast.Gt, ast.GtE)) and norm(t.comparators[0]) == "self.max_delta_h" and e.ev(t.left).equals(Rat.sym(f.params[1]) - Rat.sym("aux_vars['h_init']"))
    r.inst({"multinomial divergence": norm(t)})
    if not okm:
        r.violate(PROP, f"{f.qualname}:{norm(t)[:50]}", "divergence is not signalled when h - h_init exceeds max_delta_h", node=t, file=f.file)
    f = sk.methods["_check_divergence"]
    keys = {n.slice.value for n in ast.walk(f.node) if isinstance(n, ast.Subscript) and norm(n.value) == f.params[2] and isinstance(n.slice, ast.Constant)}
    t = [n for n in ast.walk(f.node) if isinstance(n, ast.If)][0].test
    e = SymEnv({})
    oks = isinstance(t, ast.Compare) and isinstance(t.ops[0], (ast.Gt, ast.GtE)) and norm(t.comparators[0]) == "self.max_delta_h" and e.ev(t.left).equals(Rat.sym(f.params[1]) + Rat.sym("aux_vars['log_u']"))
    r.inst({"slice divergence": norm(t), "aux keys read": sorted(keys)})
    if keys - {"log_u"}:
        r.violate(PROP, f"{f.qualname}:reads:{sorted(keys)}", f"the slice transition's divergence test reads {sorted(keys - {'log_u'})} of the start state: the set of admissible states must depend on the start state only through the shared slice variable log_u, otherwise high-energy states can reach neighbours that cannot reach them back", node=f.node, file=f.file)
    elif not oks:
        r.violate(PROP, f"{f.qualname}:{norm(t)[:50]}", "divergence is not signalled when h + log_u exceeds max_delta_h", node=t, file=f.file)
    return r


def rule_r11(rep, program: Program):
    r = rep.rule("R11", "leaves: a new leaf is (state, state, state.mom, weight(h), depth 0); the initial leaf carries the weight of the start state's own energy, a built leaf that of the new state", floor=3)
    k = program.cls("DynamicIntegrationTransition")
    f = k.methods["_new_leave"]
    rets = [n for n in ast.walk(f.node) if isinstance(n, ast.Return)]
    call = expand_locals(rets[-1].value, single_assignment_locals(f.node))
    kw = {x.arg: norm(x.value) for x in call.keywords} if isinstance(call, ast.Call) else {}
    sp, hp, ap = f.params[1], f.params[2], f.params[3]
    want = {"negative": sp, "positive": sp, "weight": f"self._weight_function({hp}, {ap})", "depth": "0"}
    r.inst({"_new_leave": kw})
    # NaN-sanitised forms of the energy denote the same weight (exp(-nan) is treated as exp(-inf) = 0 either way)
    san = (f"np.inf if np.isnan({hp}) else {hp}", f"{hp} if not np.isnan({hp}) else np.inf", f"np.nan_to_num({hp}, nan=np.inf)")
    if kw.get("weight") in {f"self._weight_function({x}, {ap})" for x in san}:
        kw["weight"] = want["weight"]
    for a, w in want.items():
        if kw.get(a) != w:
            r.violate(PROP, f"_new_leave:{a}={kw.get(a)}", f"a leaf's `{a}` is `{kw.get(a)}` instead of `{w}`", node=call, file=f.file)
    if kw.get("sum_mom") not in (f"np.asarray({sp}.mom)", f"{sp}.mom", f"np.array({sp}.mom)"):
        r.violate(PROP, f"_new_leave:sum_mom={kw.get('sum_mom')}", "a leaf's momentum sum is not the momentum of its state", node=call, file=f.file)
    sm = k.methods["sample"]
    init = [n for n in ast.walk(sm.node) if isinstance(n, ast.Assign) and isinstance(n.value, ast.Call) and norm(n.value.func) == "self._new_leave"]
    r.inst({"initial leaf": norm(init[0].value) if init else None})
    if not init or [norm(a) for a in init[0].value.args] != [sm.params[1], "aux_vars['h_init']", "aux_vars"]:
        r.violate(PROP, "sample:initial-leaf", "the initial tree is not the leaf of the start state weighted with its own energy h_init", node=sm.node, file=sm.file)
    bt = k.methods["_build_tree"]
    leaf = [n for n in ast.walk(bt.node) if isinstance(n, ast.Assign) and isinstance(n.value, ast.Call) and norm(n.value.func) == "self._new_leave"]
    r.inst({"built leaf": norm(leaf[0].value) if leaf else None})
    ok = bool(leaf)
    if ok:
        a = [norm(x) for x in leaf[0].value.args]
        hdef = [n for n in ast.walk(bt.node) if isinstance(n, ast.Assign) and norm(n.targets[0]) == a[1] and isinstance(n.value, ast.Call) and call_name(n.value).endswith("system.h")]
        ok = len(a) == 3 and hdef and norm(hdef[0].value.args[0]) == a[0] and a[2] == "aux_vars"
    if not ok:
        r.violate(PROP, "_build_tree:leaf", "a newly integrated state is not added as a leaf weighted with its own energy", node=bt.node, file=bt.file)
    return r


def run(rep, program: Program, tier: str) -> None:
    rep.explanation = (
        "Typestate exploration of the Metropolis step over its CFG with abstract state objects; "
        "def-use and normal-form rules for the recursive doubling (ratios, selections, merge order, "
        "continuation edge, mirrored termination checks, fair direction), accumulator ordering, "
        "ratio orientation and the weight / divergence functions of the two dynamic transitions."
    )
    rep.assumptions = ["invariance itself (sum over all random outcomes with exact probabilities) is not decided", "the integrator is reversible and volume preserving (C02/C03)"]
    et = ExcTypes(program)
    rep.isolate(rule_r1, rep, program, et)
    rep.isolate(rule_r1b, rep, program)
    rep.isolate(rule_r2_r8, rep, program)
    rep.isolate(rule_r3_r10, rep, program)
    rep.isolate(rule_r4, rep, program)
    rep.isolate(rule_r5, rep, program)
    rep.isolate(rule_r6, rep, program)
    rep.isolate(rule_r7, rep, program)
    rep.isolate(rule_r9, rep, program)
    rep.isolate(rule_r11, rep, program)
    rep.isolate(rule_r12, rep, program)
    rep.isolate(rule_r13, rep, program)
    from . import transim

    rep.isolate(transim.rule, rep, program, PROP, "R14")
    # energies and gradients used by a transition are read from the state cache: they must belong to the transition's own
    # system object, not to another system of the same class that touched the state before (shared with C09-R6)
    from . import c09

    rep.isolate(c09.rule_r6, rep, program, prop=PROP, rule="R15")
