"""C15 - interrupting sampling returns a consistent prefix of the run.

 R1 the iteration loop of _sample_chain lies in a try whose KeyboardInterrupt handler does
    not re-raise and whose finally flushes memory-mapped data; the function then returns
    the loop-carried state together with the interrupt
 R2 the interrupt value is propagated, and the interrupted chain's outputs are still
    collected, on every path: sequential driver, worker, parent progress loop, stage loop
    (path-sensitive: branch tests on isinstance(exception, ...) are evaluated under the
    assumption that the exception is a KeyboardInterrupt)
 R3 rows are written directly into the output arrays inside the loop (no buffering)
"""

from __future__ import annotations

import ast

from ..cfg import CFG
from ..exctypes import ExcTypes
from ..model import Program, call_name, norm
from ..report import AnalysisError

# helpers of _sample_chain that the rules look for as calls; any other private helper is inlined
SAMPLE_CHAIN_ANCHORS = frozenset({"_update_chain_stats", "_update_monitor_stats", "_flush_memmap_chain_data", "_check_and_process_init_state", "_file_paths_to_memmaps", "_memmaps_to_file_paths"})

PROP = "C15"
KI = "builtins.KeyboardInterrupt"


def isinstance_oracle(et: ExcTypes, module, var_class: dict[str, str]):
    """Evaluate tests of the form isinstance(<name>, <cls>) / `<name> is None` for names whose
    dynamic class is assumed; returns True/False/None."""

    def ev(t):
        if isinstance(t, ast.UnaryOp) and isinstance(t.op, ast.Not):
            v = ev(t.operand)
            return None if v is None else not v
        if isinstance(t, ast.BoolOp):
            vals = [ev(v) for v in t.values]
            if isinstance(t.op, ast.And):
                if any(v is False for v in vals):
                    return False
                if all(v is True for v in vals):
                    return True
            else:
                if any(v is True for v in vals):
                    return True
                if all(v is False for v in vals):
                    return False
            return None
        if isinstance(t, ast.Call) and norm(t.func) == "isinstance" and isinstance(t.args[0], ast.Name) and t.args[0].id in var_class:
            cls = t.args[1]
            names = cls.elts if isinstance(cls, ast.Tuple) else (cls.left, cls.right) if isinstance(cls, ast.BinOp) else [cls]
            res = False
            for c in names:
                cc = et.canon(norm(c), module)
                if cc is None:
                    return None
                if et.is_subclass(var_class[t.args[0].id], cc):
                    res = True
            return res
        if isinstance(t, ast.Compare) and len(t.ops) == 1 and isinstance(t.left, ast.Name) and t.left.id in var_class and isinstance(t.comparators[0], ast.Constant) and t.comparators[0].value is None:
            return isinstance(t.ops[0], (ast.IsNot, ast.NotEq))
        return None

    return ev


def prune_by_oracle(cfg: CFG, oracle):
    pruned = set()
    for n in cfg.nodes:
        if n.kind == "test" and not getattr(n, "is_loop_head", False):
            v = oracle(n.ast)
            if v is not None:
                for s, lab in n.succ:
                    if lab in ("true", "false") and (lab == "true") != v:
                        pruned.add((n, s, lab))
    return pruned


def can_avoid(cfg: CFG, start, targets: set, stops: set, pruned) -> list:
    """Stop nodes reachable from start without passing through a target node (the path
    witnessing that the target can be skipped)."""
    seen = set()
    todo = [start]
    hit = []
    while todo:
        n = todo.pop()
        if n in seen:
            continue
        seen.add(n)
        if n in targets and n is not start:
            continue
        if n in stops and n is not start:
            hit.append(n)
            continue
        for s, lab in n.succ:
            if (n, s, lab) in pruned or lab == "exc":
                continue
            todo.append(s)
    return hit


def _call_nodes(cfg: CFG, pred):
    from ..cfg import node_expr

    out = []
    for n in cfg.nodes:
        if n.kind != "stmt":
            continue
        e = node_expr(n)
        if e is not None and any(isinstance(c, ast.Call) and pred(c) for c in ast.walk(e)):
            out.append(n)
    return out


def rule_r1(rep, program: Program, et: ExcTypes):
    r = rep.rule("R1", "_sample_chain: iteration loop inside try / non-reraising KeyboardInterrupt handler / flushing finally; returns loop-carried state and the interrupt", floor=4)
    f = program.func_inlined("samplers", "_sample_chain", keep=SAMPLE_CHAIN_ANCHORS)
    loops = [n for n in ast.walk(f.node) if isinstance(n, ast.For) and norm(n.iter) == "chain_iterator"]
    if len(loops) != 1:
        raise AnalysisError("_sample_chain: iteration loop not found")
    loop = loops[0]
    tries = [t for t in ast.walk(f.node) if isinstance(t, ast.Try) and any(x is loop for s in t.body for x in ast.walk(s))]
    r.inst({"loop enclosed by try": len(tries)})
    handler = None
    tr = None
    for t in tries:
        for h in t.handlers:
            hts = et.handler_types(h, f.module)
            if hts and any(et.is_subclass(KI, x) for x in hts):
                handler, tr = h, t
    if handler is None:
        r.violate(PROP, "_sample_chain:no-interrupt-handler", "the iteration loop is not inside a try that catches KeyboardInterrupt: an interrupt propagates out of sample_chains and the partial results are lost", node=loop, file=f.file)
        return r
    reraises = [s for s in ast.walk(handler) if isinstance(s, ast.Raise)]
    r.inst({"handler": norm(handler.type), "re-raises": len(reraises)})
    if reraises:
        r.violate(PROP, "_sample_chain:handler-reraises", "the KeyboardInterrupt handler re-raises: the call does not return normally", node=reraises[0], file=f.file)
    binds = handler.name
    stored = [s for s in handler.body if isinstance(s, ast.Assign) and isinstance(s.value, ast.Name) and s.value.id == binds]
    ret = max((n for n in ast.walk(f.node) if isinstance(n, ast.Return)), key=lambda n: n.lineno)
    retnames = [norm(e) for e in ret.value.elts] if isinstance(ret.value, ast.Tuple) else [norm(ret.value)]
    carried = stored and norm(stored[0].targets[0]) in retnames
    r.inst({"returns": retnames, "interrupt value returned": bool(carried)})
    if not carried:
        r.violate(PROP, "_sample_chain:interrupt-not-returned", "the caught interrupt is not part of the return value: callers cannot tell that sampling was interrupted and start the next chain / stage", node=handler, file=f.file)
    if retnames[0] != "state":
        r.violate(PROP, f"_sample_chain:returns:{retnames[0]}", "the state returned after an interrupt is not the loop-carried chain state", node=ret, file=f.file)
    flush = [c for s in tr.finalbody for c in ast.walk(s) if isinstance(c, ast.Call) and norm(c.func) == "_flush_memmap_chain_data"]
    r.inst({"finally flush": bool(flush)})
    if not flush:
        r.violate(PROP, "_sample_chain:no-flush-in-finally", "memory-mapped outputs are not flushed in a finally clause: rows written before an interrupt may not reach the files", node=tr, file=f.file)
    elif [norm(a) for a in flush[0].args] != ["chain_traces", "chain_stats"]:
        r.violate(PROP, f"_sample_chain:flush-args:{[norm(a) for a in flush[0].args]}", "the flush does not cover both traces and statistics", node=flush[0], file=f.file)
    fl = program.func("samplers", "_flush_memmap_chain_data")
    # which of the two arguments reach a .flush() (directly or through a helper that flushes its argument)
    flushers = set()
    for g in fl.module.functions.values():
        for c in ast.walk(g.node):
            if isinstance(c, ast.Call) and isinstance(c.func, ast.Attribute) and c.func.attr == "flush" and isinstance(c.func.value, ast.Name) and c.func.value.id in g.params:
                flushers.add(g.name)
    root = {p: p for p in fl.params}
    for _ in range(4):
        for n in ast.walk(fl.node):
            if isinstance(n, (ast.For, ast.comprehension)):
                src = {x.id for x in ast.walk(n.iter) if isinstance(x, ast.Name)} & set(root)
                if len(src) == 1:
                    for x in ast.walk(n.target):
                        if isinstance(x, ast.Name):
                            root[x.id] = root[next(iter(src))]
    flushed = set()
    for c in ast.walk(fl.node):
        if isinstance(c, ast.Call) and isinstance(c.func, ast.Attribute) and c.func.attr == "flush" and isinstance(c.func.value, ast.Name) and c.func.value.id in root:
            flushed.add(root[c.func.value.id])
        if isinstance(c, ast.Call) and isinstance(c.func, ast.Name) and c.func.id in flushers and c.args and isinstance(c.args[0], ast.Name) and c.args[0].id in root:
            flushed.add(root[c.args[0].id])
    n_flush = len(flushed & set(fl.params[:2]))
    r.inst({"_flush_memmap_chain_data flushes": sorted(flushed)})
    if n_flush < 2:
        r.violate(PROP, "_flush_memmap_chain_data:incomplete", "flush helper does not flush both traces and statistics arrays", node=fl.node, file=fl.file)
    return r


def rule_r2(rep, program: Program, et: ExcTypes):
    r = rep.rule("R2", "interrupt propagation by value and collection of the interrupted chain's outputs in the sequential driver, the worker, the parent loop and the stage loop", floor=8)
    m = program.module("samplers")

    # ---- sequential driver and worker: after _sample_chain returns a KeyboardInterrupt
    for fname in ("_sample_chains_sequential", "_sample_chains_worker"):
        f = m.functions.get(fname)
        if f is None:
            raise AnalysisError(f"{fname} not found")
        cfg = CFG(f.node, catches=lambda h, rc, f=f: et.catches(h, rc, f.module), raised_class=lambda st, f=f: et.raised_class(st, f.module))
        calls = _call_nodes(cfg, lambda c: norm(c.func) == "_sample_chain")
        if len(calls) != 1:
            raise AnalysisError(f"{fname}: _sample_chain call not found")
        call = calls[0]
        tgt = call.ast.targets[0] if isinstance(call.ast, ast.Assign) else None
        excname = None
        if isinstance(tgt, ast.Tuple):
            excname = norm(tgt.elts[-1])
        if excname is None:
            raise AnalysisError(f"{fname}: result of _sample_chain is not unpacked")
        oracle = isinstance_oracle(et, f.module, {excname: KI})
        pruned = prune_by_oracle(cfg, oracle)
        appends = set(_call_nodes(cfg, lambda c: isinstance(c.func, ast.Attribute) and c.func.attr == "append" and norm(c.func.value) == "chain_outputs"))
        # the collection may also be a mapping filled by item stores
        appends |= {n for n in cfg.nodes if n.kind == "stmt" and isinstance(n.ast, ast.Assign) and any(isinstance(t, ast.Subscript) and norm(t.value) == "chain_outputs" for t in n.ast.targets)}
        exits = {cfg.exit_return, cfg.exit_raise, call}  # leaving the function or starting another chain
        start_succ = [s for s, lab in call.succ if lab != "exc"]
        skipped = []
        for s in start_succ:
            skipped += can_avoid(cfg, s, appends, exits, pruned) if s not in appends else []
        r.inst({"function": fname, "append sites": len(appends), "can skip append on interrupt": bool(skipped)})
        if not appends:
            raise AnalysisError(f"{fname}: chain_outputs.append not found")
        if skipped:
            r.violate(PROP, f"{fname}:interrupted-outputs-dropped", "when _sample_chain returns a KeyboardInterrupt the chain's outputs (final state, adapter states) are not appended to chain_outputs: the interrupted chain is missing from the returned final states and later entries shift", node=call.ast, file=f.file)
        # no further chain is started: the call node must not be reachable again
        again = []
        for s0 in start_succ:
            again += [x for x in can_avoid(cfg, s0, set(), {call}, pruned) if x is call]
        r.inst({"function": fname, "starts another chain after interrupt": bool(again)})
        if again:
            r.violate(PROP, f"{fname}:continues-after-interrupt", "after an interrupted chain the driver goes on to sample the next chain instead of stopping", node=call.ast, file=f.file)
        if fname == "_sample_chains_sequential":
            rets = [n for n in cfg.nodes if n.kind == "stmt" and isinstance(n.ast, ast.Return)]
            ok = all(excname in {x.id for x in ast.walk(n.ast) if isinstance(x, ast.Name)} for n in rets)
            r.inst({"function": fname, "returns interrupt": ok})
            if not ok:
                r.violate(PROP, f"{fname}:interrupt-not-returned", "the sequential driver does not return the interrupt to the stage loop", node=rets[0].ast, file=f.file)
        else:
            puts = set(_call_nodes(cfg, lambda c: norm(c.func) == "iter_queue.put" and c.args and norm(c.args[0]) == excname))
            skipped = []
            for s in start_succ:
                skipped += can_avoid(cfg, s, puts, exits, pruned)
            r.inst({"function": fname, "interrupt put on queue on every path": not skipped})
            if skipped or not puts:
                r.violate(PROP, f"{fname}:interrupt-not-forwarded", "a worker does not put the KeyboardInterrupt on the iteration queue: the parent keeps waiting / starts later stages", node=call.ast, file=f.file)

    # ---- parent loop
    f = m.functions["_sample_chains_parallel"]
    cfg = CFG(f.node, catches=lambda h, rc: et.catches(h, rc, f.module), raised_class=lambda st: et.raised_class(st, f.module))
    gets = _call_nodes(cfg, lambda c: norm(c.func) == "iter_queue.get")
    if len(gets) != 1:
        raise AnalysisError("_sample_chains_parallel: iter_queue.get not found")
    item = norm(gets[0].ast.targets[0])
    oracle = isinstance_oracle(et, f.module, {item: KI})
    pruned = prune_by_oracle(cfg, oracle)
    # on KeyboardInterrupt item: exception assigned and loop left without raising
    assigns = set(n for n in cfg.nodes if n.kind == "stmt" and isinstance(n.ast, ast.Assign) and norm(n.ast.targets[0]) == "exception" and norm(n.ast.value) == item)
    start_succ = [s for s, lab in gets[0].succ if lab != "exc"]
    skipped, raised = [], []
    for s in start_succ:
        skipped += can_avoid(cfg, s, assigns, {cfg.exit_return, gets[0]}, pruned)
        raised += can_avoid(cfg, s, set(), {cfg.exit_raise}, pruned)
    r.inst({"function": "_sample_chains_parallel", "interrupt item recorded": not skipped and bool(assigns), "can raise": bool(raised)})
    if skipped or not assigns:
        r.violate(PROP, "_sample_chains_parallel:interrupt-item-ignored", "a KeyboardInterrupt received from a worker is not recorded as the returned exception (or the progress loop keeps waiting)", node=gets[0].ast, file=f.file)
    # once the interrupt item is recorded the progress loop is left: the interrupted worker stops taking
    # chains from the queue, so a loop that goes on waiting for `chains_completed == n_chain` may never end
    waits = []
    for a in assigns:
        for s2, lab in a.succ:
            if lab != "exc":
                waits += can_avoid(cfg, s2, set(), {gets[0]}, pruned)
    r.inst({"function": "_sample_chains_parallel", "waits on the queue again after an interrupt item": bool(waits)})
    if waits:
        r.violate(PROP, "_sample_chains_parallel:waits-after-interrupt", "after a worker's KeyboardInterrupt arrives the parent goes back to iter_queue.get(): interrupted workers take no more chains from the chain queue, so when chains are still queued the completion count is never reached and sample_chains never returns", node=gets[0].ast, file=f.file)
    if raised:
        r.violate(PROP, "_sample_chains_parallel:interrupt-item-raises", "a KeyboardInterrupt received from a worker makes the parent raise instead of returning partial results", node=gets[0].ast, file=f.file)
    # parent's own KeyboardInterrupt handler stores it and does not re-raise; results still collected
    hs = [h for t in ast.walk(f.node) if isinstance(t, ast.Try) for h in t.handlers if (et.handler_types(h, f.module) or []) and any(et.is_subclass(KI, x) for x in et.handler_types(h, f.module))]
    r.inst({"parent KeyboardInterrupt handlers": len(hs)})
    if not hs:
        r.violate(PROP, "_sample_chains_parallel:no-parent-handler", "an interrupt delivered to the parent process while it waits on the queue is not caught", node=f.node, file=f.file)
    for h in hs:
        if any(isinstance(s, ast.Raise) for s in ast.walk(h)):
            r.violate(PROP, "_sample_chains_parallel:parent-handler-reraises", "the parent's KeyboardInterrupt handler re-raises", node=h, file=f.file)
        if not any(isinstance(s, ast.Assign) and norm(s.targets[0]) == "exception" and norm(s.value) == h.name for s in h.body):
            r.violate(PROP, "_sample_chains_parallel:parent-handler-drops", "the parent's KeyboardInterrupt handler does not record the interrupt as the returned exception", node=h, file=f.file)
    collects = [n for n in ast.walk(f.node) if isinstance(n, ast.Call) and norm(n.func) == "results.get"]
    rets = [n for n in ast.walk(f.node) if isinstance(n, ast.Return)]
    ok = collects and rets and "exception" in {x.id for x in ast.walk(max(rets, key=lambda n: n.lineno)) if isinstance(x, ast.Name)}
    r.inst({"function": "_sample_chains_parallel", "collects results and returns exception": bool(ok)})
    if not ok:
        r.violate(PROP, "_sample_chains_parallel:no-collection", "worker results are not collected / the interrupt is not returned after an interrupt", node=f.node, file=f.file)
    # the collection must not sit inside the try body that the interrupt abandons
    for c in collects:
        inside = [t for t in ast.walk(f.node) if isinstance(t, ast.Try) and any(x is c for s in t.body for x in ast.walk(s)) and any((et.handler_types(h, f.module) or []) and any(et.is_subclass(KI, x) for x in et.handler_types(h, f.module)) for h in t.handlers)]
        if inside:
            r.violate(PROP, "_sample_chains_parallel:collection-inside-try", "results.get() is inside the try that an interrupt leaves: partial results are not collected after an interrupt", node=c, file=f.file)

    # ---- stage loop
    sc = program.method("MarkovChainMonteCarloMethod", "sample_chains")
    cfg = CFG(sc.node)
    calls = _call_nodes(cfg, lambda c: norm(c.func) == "sample_chains_func")
    if len(calls) != 1:
        raise AnalysisError("sample_chains: sample_chains_func call not found")
    call = calls[0]
    excname = norm(call.ast.targets[0].elts[-1])
    oracle = isinstance_oracle(ExcTypes(program), sc.module, {excname: KI})
    pruned = prune_by_oracle(cfg, oracle)
    start_succ = [s for s, lab in call.succ if lab != "exc"]
    again = []
    for s in start_succ:
        again += can_avoid(cfg, s, set(), {call}, pruned)
    rets = [n for n in cfg.nodes if n.kind == "stmt" and isinstance(n.ast, ast.Return)]
    # an interrupted stage leaves the adapters with partial statistics (possibly of only some chains): finalising
    # them can raise (AdaptationError for fewer than two samples, zip(strict=True) for fewer states than generators),
    # so the interrupt path must reach the return without calling _finalize_adapters
    fins = _call_nodes(cfg, lambda c: norm(c.func) == "_finalize_adapters")
    fin_on_interrupt = []
    for s in start_succ:
        fin_on_interrupt += [x for x in can_avoid(cfg, s, set(), set(fins), pruned) if x in fins]
    r.inst({"function": "sample_chains", "finalises adapters after an interrupted stage": bool(fin_on_interrupt), "finalisation call sites": len(fins)})
    if not fins:
        raise AnalysisError("sample_chains: _finalize_adapters call not found")
    if fin_on_interrupt:
        r.violate(PROP, "sample_chains:finalize-after-interrupt", "after a stage that was interrupted sample_chains still calls _finalize_adapters before returning: the adapters hold partial statistics (a metric adapter with fewer than two samples raises AdaptationError; in a sequential run fewer final states than generators are passed and zip(strict=True) raises ValueError), so the interrupted call raises instead of returning the recorded prefix", node=fins[0].ast, file=sc.file)
    r.inst({"function": "sample_chains", "starts next stage after interrupt": bool(again)})
    if again:
        r.violate(PROP, "sample_chains:next-stage-after-interrupt", "after an interrupted stage the stage loop goes on to start the next stage", node=call.ast, file=sc.file)
    for n in rets:
        names = {x.id for x in ast.walk(n.ast) if isinstance(x, ast.Name)}
        if not {"chain_states", "traces", "stats"} <= names:
            r.violate(PROP, f"sample_chains:return:{norm(n.ast)[:50]}", "a return of sample_chains does not carry the final states, traces and statistics", node=n.ast, file=sc.file)
    return r


def rule_r3(rep, program: Program):
    r = rep.rule("R3", "rows are written directly into the output arrays inside the iteration loop (nothing is buffered until after the loop)", floor=2)
    f = program.func_inlined("samplers", "_sample_chain", keep=SAMPLE_CHAIN_ANCHORS)
    loops = [n for n in ast.walk(f.node) if isinstance(n, ast.For) and norm(n.iter) == "chain_iterator"]
    loop = loops[0]
    inside = [n for n in ast.walk(loop) if isinstance(n, ast.Assign) and isinstance(n.targets[0], ast.Subscript) and norm(n.targets[0].value).startswith("chain_traces[")]
    stat_calls = [n for n in ast.walk(loop) if isinstance(n, ast.Call) and norm(n.func) == "_update_chain_stats"]
    r.inst({"trace stores in loop": len(inside)})
    r.inst({"stat stores in loop": len(stat_calls)})
    if not inside:
        r.violate(PROP, "_sample_chain:trace-store-outside-loop", "traces are not stored inside the iteration loop: rows computed before an interrupt are lost", node=loop, file=f.file)
    if not stat_calls:
        r.violate(PROP, "_sample_chain:stat-store-outside-loop", "statistics are not stored inside the iteration loop", node=loop, file=f.file)
    return r


def rule_r4(rep, program: Program):
    """Rows of completed iterations are never touched again: every store into the per-chain output
    arrays (also in the interrupt handler / finally clause) addresses the row of the *current*
    iteration, sample_index + sampling_index_offset."""
    from ..poly import Rat, eval_expr
    from . import c13

    r = rep.rule("R4", "every store into the per-chain output arrays in _sample_chain addresses the current row (sample_index + sampling_index_offset): completed rows are never overwritten", floor=1)
    f = program.func_inlined("samplers", "_sample_chain", keep=SAMPLE_CHAIN_ANCHORS)
    loops = [n for n in ast.walk(f.node) if isinstance(n, ast.For) and norm(n.iter) == "chain_iterator"]
    if len(loops) != 1:
        raise AnalysisError("_sample_chain: iteration loop over chain_iterator not found")
    idx_name = norm(loops[0].target.elts[0]) if isinstance(loops[0].target, ast.Tuple) else norm(loops[0].target)
    want = Rat.sym(idx_name) + Rat.sym("sampling_index_offset")
    for st, row in c13.output_array_stores(f):
        try:
            idx = eval_expr(row, {})
        except AnalysisError:
            idx = None
        in_loop = any(st is x for x in ast.walk(loops[0]))
        r.inst({"store": norm(st)[:60], "row": norm(row), "inside iteration loop": in_loop})
        if idx is None or not idx.equals(want):
            r.violate(PROP, f"_sample_chain:output-store-index:{norm(row)[:40]}", f"`{norm(st)[:70]}` writes row `{norm(row)}`; the current row is {idx_name} + sampling_index_offset: in a later recorded stage (offset > 0) this overwrites the record of an iteration that completed before the interrupt", node=st, file=f.file)
    return r


def rule_r5(rep, program: Program):
    """Rows that are not reached keep their declared fill value: every allocator of an output array
    fills the whole array with the value it is handed, on every path, whatever the dtype."""
    r = rep.rule("R5", "memory-mapped output arrays are filled with the declared default on every path before they are returned (rows an interrupted run does not reach read as the fill value, as in-memory arrays from np.full do)", floor=2)
    f = program.func("samplers", "_open_new_memmap")
    if f is None:
        raise AnalysisError("samplers._open_new_memmap not found")
    fill = next((p for p in f.params if "default" in p or "fill" in p or p in ("val", "value")), None)
    if fill is None:
        raise AnalysisError("_open_new_memmap: fill-value parameter not found")
    cfg = CFG(f.node)

    def is_fill(n):
        a = n.ast
        if isinstance(a, ast.Assign) and len(a.targets) == 1 and isinstance(a.targets[0], ast.Subscript) and norm(a.targets[0].slice) in (":", "...", "Ellipsis") and norm(a.value) == fill:
            return True
        if isinstance(a, ast.Expr) and isinstance(a.value, ast.Call) and isinstance(a.value.func, ast.Attribute) and a.value.func.attr == "fill" and a.value.args and norm(a.value.args[0]) == fill:
            return True
        return False

    fills = [n for n in cfg.nodes if n.ast is not None and is_fill(n)]
    r.inst({"allocator": f.qualname, "fill statements": [norm(n.ast)[:50] for n in fills]})
    seen, stack, leak = set(), [cfg.entry], None
    while stack:
        n = stack.pop()
        if n in seen:
            continue
        seen.add(n)
        for m, _lab in n.succ:
            if m is cfg.exit_return:
                leak = n
            elif m is cfg.exit_raise or is_fill(m):
                continue
            else:
                stack.append(m)
    if leak is not None:
        conds = [norm(t.ast)[:60] for t in cfg.nodes if t.kind == "test" and t.ast is not None]
        r.violate(PROP, "_open_new_memmap:fill-not-on-every-path", f"_open_new_memmap can return the new array without `[:] = {fill}` having run (tests on the way: {conds}): a freshly created file is zero-filled, so statistics whose declared default is not 0 (n_step, tree_depth: -1) read 0 in the rows an interrupted run never reaches, unlike the in-memory arrays", node=leak.ast or f.node, file=f.file)
    # the in-memory siblings use np.full(shape, <same value>, dtype)
    n_full = 0
    for name in ("_init_stats", "_init_traces"):
        g = program.func("samplers", name)
        if g is None:
            raise AnalysisError(f"samplers.{name} not found")
        mm = [c for c in ast.walk(g.node) if isinstance(c, ast.Call) and norm(c.func) == "_open_new_memmap"]
        full = [c for c in ast.walk(g.node) if isinstance(c, ast.Call) and norm(c.func) in ("np.full", "numpy.full")]
        if not mm or not full:
            raise AnalysisError(f"{name}: allocation siblings (np.full / _open_new_memmap) not found")
        def arg(c, i, kw):
            return norm(c.args[i]) if len(c.args) > i else next((norm(k.value) for k in c.keywords if k.arg == kw), None)
        mv, fv = arg(mm[0], 2, "default_val"), arg(full[0], 1, "fill_value")
        n_full += 1
        r.inst({"function": name, "memmap fill": mv, "in-memory fill": fv})
        if mv != fv:
            r.violate(PROP, f"{name}:fill-siblings:{mv}!={fv}", f"{name} fills memory-mapped arrays with `{mv}` but in-memory arrays with `{fv}`", node=mm[0], file=g.file)
    return r


def run(rep, program: Program, tier: str) -> None:
    rep.explanation = (
        "Handler-chain analysis from the iteration body to the public return: try/except/finally "
        "shape of the chain loop, and path-sensitive reachability (isinstance tests evaluated "
        "under the assumption that the returned exception is a KeyboardInterrupt) in the "
        "sequential driver, the worker, the parent progress loop and the stage loop."
    )
    rep.assumptions = ["exact equality of the recorded prefix with an uninterrupted run is not decided", "signal delivery inside NumPy/OS primitives is outside the code analysed"]
    et = ExcTypes(program)
    from . import samplersim

    samplersim.superseded(rep, program, tier, [("R1", "the iteration loop runs inside a try whose KeyboardInterrupt handler does not re-raise; the interrupted state is returned and memory maps are flushed")], "R6", rule_r1, rep, program, et)
    samplersim.superseded(rep, program, tier, [("R2", "the interrupt reaches the stage loop on every path (sequential and multi-process); interrupted chains' outputs are collected; nothing runs afterwards")], "R6", rule_r2, rep, program, et)
    samplersim.superseded(rep, program, tier, [("R3", "rows are stored inside the iteration loop")], "R6", rule_r3, rep, program)
    samplersim.superseded(rep, program, tier, [("R4", "no handler or epilogue writes a row other than that of the interrupted iteration")], "R6", rule_r4, rep, program)
    samplersim.superseded(rep, program, tier, [("R5", "memory-mapped arrays are filled with the declared default before they are returned")], "R6", rule_r5, rep, program)
    from . import samplersim

    rep.isolate(samplersim.rule, rep, program, tier, PROP, "R6")
