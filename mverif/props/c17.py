"""C17 - adapters compute the estimators they document for any history.

 R1 symbolic execution (exact rational polynomials) of every online update block against the
    documented recursion: dual averaging (error average, shrinkage, smoothed iterate, exp),
    Welford mean / sum of squares (and outer products), Chan / Schubert-Gertz pairwise merge
    (count-weighted pooled mean, cross term), regularisation weights
 R2 finalize post-conditions: estimate / (n - 1), regularised, metric = inverse of the matrix
    built from the estimate, momenta re-sampled for every chain after the metric changes,
    n < 2 raises AdaptationError before dividing, single-chain exp(smoothed) / multi-chain reducer
 R3 initial step-size search: threshold log 2, halving and doubling are reciprocal, halving is
    chosen when the step is too big (and on IntegratorError)
 R4 initial values of the recursions: `initialize` returns iter 0 and zero accumulators; the
    regularisation target is the user's value for *every* non-None value (0 included) and
    log(10 * init_step_size) only for None (case analysis None / not-None of the option)
"""

from __future__ import annotations

import ast

from ..model import Program, call_name, norm, expand_locals, inline_private_helpers, execution_condition, bool_equivalent, single_assignment_locals
from ..poly import Rat, sqrt_of
from ..report import AnalysisError
from ..symexec import SymEnv, opaque_pow

PROP = "C17"


def S(x):
    return Rat.sym(x)


def _check(r, cond: bool, key, what, node, file, **sample):
    r.inst(sample or {"obligation": key})
    if not cond:
        r.violate(PROP, key, what, node=node, file=file)


def merge_block(f):
    """Statements of the `else` arm of `if i == 0` inside the multi-chain loop of finalize."""
    for n in ast.walk(f.node):
        if isinstance(n, ast.For) and isinstance(n.iter, ast.Call) and norm(n.iter.func) == "enumerate":
            idx = norm(n.target.elts[0]) if isinstance(n.target, ast.Tuple) and n.target.elts else "i"
            for st in n.body:
                if isinstance(st, ast.If) and norm(st.test) in (f"{idx} == 0", f"0 == {idx}", f"not {idx}", f"{idx} < 1") and st.orelse:
                    return n, st
    return None, None


def chain_filters(f):
    """Tests inside the loop over the per-chain adapter states that read the chain's own state and can keep a
    chain out of the merge: [(loop, test, harmless?)].  Harmless: true only for a chain without samples."""
    out = []
    for n in ast.walk(f.node):
        if not isinstance(n, ast.For):
            continue
        it = n.iter.args[0] if isinstance(n.iter, ast.Call) and norm(n.iter.func) == "enumerate" and n.iter.args else n.iter
        if "adapt_states" not in norm(it):
            continue
        tv = n.target.elts[-1] if isinstance(n.target, ast.Tuple) else n.target
        if not isinstance(tv, ast.Name):
            continue
        for t in ast.walk(n):
            test = t.test if isinstance(t, (ast.If, ast.IfExp)) else None
            if test is None or not any(isinstance(x, ast.Name) and x.id == tv.id for x in ast.walk(test)):
                continue

            def ev(e, v):
                if isinstance(e, ast.Subscript) and norm(e.value) == tv.id and isinstance(e.slice, ast.Constant) and e.slice.value == "iter":
                    return v
                if isinstance(e, ast.Constant) and isinstance(e.value, (int, float)):
                    return e.value
                if isinstance(e, ast.UnaryOp) and isinstance(e.op, ast.Not):
                    return not ev(e.operand, v)
                if isinstance(e, ast.Compare) and len(e.ops) == 1:
                    a, b = ev(e.left, v), ev(e.comparators[0], v)
                    tb = {ast.Lt: a < b, ast.LtE: a <= b, ast.Gt: a > b, ast.GtE: a >= b, ast.Eq: a == b, ast.NotEq: a != b}
                    if type(e.ops[0]) in tb:
                        return tb[type(e.ops[0])]
                raise ValueError

            try:
                harmless = bool(ev(test, 0)) and not any(bool(ev(test, v)) for v in (1, 2, 3, 50))
            except (ValueError, TypeError):
                harmless = False
            out.append((n, test, harmless))
    return out


def rule_r1(rep, program: Program):
    r = rep.rule("R1", "online update blocks equal the documented recursions as exact polynomial identities (symbolic execution)", floor=14)
    # ------------------------------------------------------------ dual averaging
    f = program.method("DualAveragingStepSizeAdapter", "update")
    it, err, sm, mu = "adapt_state['iter']", "adapt_state['adapt_stat_error']", "adapt_state['smoothed_log_step_size']", "adapt_state['log_step_size_reg_target']"
    env = SymEnv({it: S("m0"), err: S("e0"), sm: S("s0")})
    env.run(f.body_without_docstring())
    m = S("m0") + 1
    stat_calls = [c for c in env.calls if "adapt_stat_func" in c]
    a = S(f"call[{stat_calls[0]}]") if stat_calls else None
    t0, delta, gamma, kappa = S("self.iter_offset"), S("self.adapt_stat_target"), S("self.log_step_size_reg_coefficient"), S("self.iter_decay_coeff")
    _check(r, env.env.get(it) is not None and env.env[it].equals(m), f"{f.qualname}:iter", "the iteration counter is not incremented by one per update", f.node, f.file, quantity="iter", value=repr(env.env.get(it)))
    if a is None:
        raise AnalysisError("DualAveragingStepSizeAdapter.update: adaptation statistic call not found")
    w = Rat.const(1) / (t0 + m)
    want_err = (Rat.const(1) - w) * S("e0") + w * (delta - a)
    got = env.env.get(err)
    _check(r, got is not None and got.equals(want_err), f"{f.qualname}:adapt_stat_error", f"the running error average is {got!r}; documented: (1 - 1/(t0+m)) * H + (target - stat)/(t0+m)", f.node, f.file, quantity="adapt_stat_error", value=repr(got))
    want_log = S(mu) - want_err * sqrt_of(m) / gamma
    sw = opaque_pow(Rat.const(1) / m, kappa)
    want_sm = (Rat.const(1) - sw) * S("s0") + sw * want_log
    got = env.env.get(sm)
    _check(r, got is not None and got.equals(want_sm), f"{f.qualname}:smoothed_log_step_size", f"the smoothed iterate is {got!r}; documented: (1 - m^-kappa) * s + m^-kappa * (mu - sqrt(m)/gamma * H)", f.node, f.file, quantity="smoothed_log_step_size", value=repr(got))
    ss = env.env.get("transition.integrator.step_size")
    want_ss = S(f"exp[{want_log!r}]")
    _check(r, ss is not None and ss.equals(want_ss), f"{f.qualname}:step_size", f"the step size used during adaptation is {ss!r}, not exp(mu - sqrt(m)/gamma * H) (positive by construction)", f.node, f.file, quantity="step_size", value=repr(ss))
    # ------------------------------------------------------------ Welford updates
    for cls, m2 in (("OnlineVarianceMetricAdapter", "sum_diff_sq"), ("OnlineCovarianceMetricAdapter", "sum_diff_outer")):
        f = program.method(cls, "update")
        # every position seen enters the accumulators: no test (on the transition statistics or anything else) may
        # keep an update from being applied
        skips = [n for n in ast.walk(f.node) if isinstance(n, ast.If) or (isinstance(n, ast.Return) and n is not f.node.body[-1])]
        r.inst({"class": cls, "update is unconditional": not skips})
        if skips:
            t0 = skips[0]
            txt = norm(t0.test)[:80] if isinstance(t0, ast.If) else "an early return"
            r.violate(PROP, f"{cls}.update:conditional:{txt[:40]}", f"{cls}.update applies the Welford update only under a condition (`{txt}`): positions of the other iterations are left out of the mean, the sum of squares and the count, so the metric is not the pooled (co)variance of all positions seen", node=t0, file=f.file)
            continue
        it, mean, ssq, pos = "adapt_state['iter']", "adapt_state['mean']", f"adapt_state['{m2}']", "chain_state.pos"
        env = SymEnv({it: S("m0"), mean: S("mu0"), ssq: S("S0")})
        env.run(f.body_without_docstring())
        m = S("m0") + 1
        x = S(pos)
        want_mean = S("mu0") + (x - S("mu0")) / m
        _check(r, env.env.get(it) is not None and env.env[it].equals(m), f"{f.qualname}:iter", "the sample counter is not incremented by one per update", f.node, f.file, quantity=f"{cls}.iter")
        got = env.env.get(mean)
        _check(r, got is not None and got.equals(want_mean), f"{f.qualname}:mean", f"the running mean is {got!r}; Welford: mean + (x - mean)/n", f.node, f.file, quantity=f"{cls}.mean", value=repr(got))
        got = env.env.get(ssq)
        want = S("S0") + (x - S("mu0")) * (x - want_mean)
        _check(r, got is not None and got.equals(want), f"{f.qualname}:{m2}", f"the running sum of squared deviations is {got!r}; Welford: S + (x - mean_old) * (x - mean_new)", f.node, f.file, quantity=f"{cls}.{m2}", value=repr(got))
        # ---------------------------------------------------- pairwise merge
        g = program.method(cls, "finalize")
        for lp, test, harmless in chain_filters(g):
            r.inst({"class": cls, "test on a chain's own state inside the merge loop": norm(test), "true only for an empty chain": harmless})
            if not harmless:
                r.violate(PROP, f"{cls}.finalize:chain-filter:{norm(test)[:40]}", f"the multi-chain merge decides on `{norm(test)}` whether a chain's statistics take part: chains with samples are left out of the pooled mean / sum of squares and of n, so the estimate depends on how the positions were split among chains", node=test, file=g.file)
        if any(not h for _l, _t, h in chain_filters(g)):
            continue
        loop, ifn = merge_block(g)
        if ifn is None:
            raise AnalysisError(f"{cls}.finalize: multi-chain merge block not found")
        est = "var_est" if m2 == "sum_diff_sq" else "covar_est"
        init = {"n_iter": S("N0"), "mean_est": S("M0"), est: S("V0")}
        env = SymEnv(init)
        env.run(ifn.orelse)
        I, Mk, Sk = S("adapt_state['iter']"), S("adapt_state['mean']"), S(f"adapt_state['{m2}']")
        N = S("N0") + I
        got = env.env.get("n_iter")
        _check(r, got is not None and got.equals(N), f"{g.qualname}:merge:n_iter", f"the pooled count after merging a chain is {got!r}, not n + n_k", ifn, g.file, quantity=f"{cls}.merge.n_iter")
        got = env.env.get("mean_est")
        want = (S("N0") * S("M0") + I * Mk) / N
        _check(r, got is not None and got.equals(want), f"{g.qualname}:merge:mean_est", f"the pooled mean after merging a chain is {got!r}; it must be the count-weighted mean (n*mean + n_k*mean_k)/(n + n_k), otherwise the result depends on how positions are split among chains", ifn, g.file, quantity=f"{cls}.merge.mean", value=repr(got))
        got = env.env.get(est)
        want = S("V0") + Sk + (S("M0") - Mk) ** 2 * I * S("N0") / N
        _check(r, got is not None and got.equals(want), f"{g.qualname}:merge:{est}", f"the pooled sum of squares after merging is {got!r}; Chan et al.: S + S_k + (mean - mean_k)^2 * n*n_k/(n + n_k)", ifn, g.file, quantity=f"{cls}.merge.{est}", value=repr(got))
        # first chain initialises the accumulators from that chain's statistics
        env0 = SymEnv({})
        env0.run(ifn.body)
        ok = env0.env.get("n_iter", S("?")).equals(I) and env0.env.get("mean_est", S("?")).equals(Mk) and env0.env.get(est, S("?")).equals(Sk)
        _check(r, ok, f"{g.qualname}:merge:init", "the pooled statistics are not initialised from the first chain's (iter, mean, sum of squares)", ifn, g.file, quantity=f"{cls}.merge.init")
        # ---------------------------------------------------- regulariser
        reg = program.method(cls, "_regularize_var_est" if m2 == "sum_diff_sq" else "_regularize_covar_est")
        pname = reg.params[1]
        body = reg.body_without_docstring()
        stmts = []
        for st in body:
            if isinstance(st, ast.If) and st.body and isinstance(st.body[-1], ast.Return) and not st.orelse:
                continue  # guard clause: the update is the fall-through path
            if isinstance(st, ast.If):
                # the arm that performs the update (the other arm does nothing)
                arms = [a for a in (st.body, st.orelse) if any(isinstance(n, ast.AugAssign) for x in a for n in ast.walk(x))]
                stmts += arms[0] if arms else st.body
            elif isinstance(st, ast.Return) and st.value is None:
                continue
            else:
                stmts.append(st)
        # the update runs exactly when a regularisation offset is configured
        upd = [st for st in ast.walk(reg.node) if isinstance(st, ast.AugAssign)]
        if upd:
            conds = execution_condition(reg.node, upd[0])
            expected = ast.parse("self.reg_iter_offset is not None and self.reg_iter_offset != 0", mode="eval").body
            # unconditional application is fine too (with offset 0 the formula is the identity)
            eq = bool_equivalent(conds, expected) if conds else True
            _check(r, bool(eq), f"{reg.qualname}:guard", f"the regularisation is applied under {[('' if t else 'not ') + norm(e) for e, t in conds]}, not exactly when reg_iter_offset is set and non-zero", reg.node, reg.file, quantity=f"{cls}.regulariser.guard")
        env = SymEnv({pname: S("v0")})
        alias = {}
        for st in stmts:
            # np.einsum('ii->i', x) is a view of the diagonal of x
            if isinstance(st, ast.Assign) and isinstance(st.value, ast.Call) and call_name(st.value) in ("np.einsum", "numpy.einsum") and len(st.value.args) == 2 and isinstance(st.value.args[0], ast.Constant) and st.value.args[0].value.replace(" ", "") == "ii->i":
                alias[norm(st.targets[0])] = norm(st.value.args[1])
                continue
            if isinstance(st, ast.AugAssign) and norm(st.target) in alias:
                st = ast.AugAssign(target=ast.Name(id=alias[norm(st.target)], ctx=ast.Store()), op=st.op, value=st.value)
            env.exec(st)
        n, rr, sc = S("n_iter"), S("self.reg_iter_offset"), S("self.reg_scale")
        want = S("v0") * n / (rr + n) + sc * rr / (rr + n)
        got = env.env.get(pname)
        _check(r, got is not None and got.equals(want), f"{reg.qualname}:weights", f"the regularised estimate is {got!r}; documented: n/(n+r) * estimate + r/(n+r) * reg_scale", reg.node, reg.file, quantity=f"{cls}.regulariser", value=repr(got))
    return r


def _canon_comprehensions(txt: str) -> str:
    """Identity comprehensions `(x for x in xs)` / `[x for x in xs]` denote `xs` for sum/min/len."""
    import copy as _copy

    class T(ast.NodeTransformer):
        def visit_GeneratorExp(self, n):  # noqa: N802
            self.generic_visit(n)
            g = n.generators[0]
            if len(n.generators) == 1 and not g.ifs and isinstance(g.target, ast.Name) and isinstance(n.elt, ast.Name) and n.elt.id == g.target.id:
                return g.iter
            return n

        visit_ListComp = visit_GeneratorExp  # noqa: N815

    return norm(T().visit(_copy.deepcopy(ast.parse(txt, mode="eval").body)))


def rule_r2(rep, program: Program, prop=PROP, rule="R2"):
    PROP = prop  # noqa: N806
    r = rep.rule(rule, "finalize: n<2 guard before dividing by n-1, regularise, metric = inverse of the matrix built from the estimate, momentum re-sampled for every chain afterwards; step-size finalisation", floor=12)
    for cls, est, mat in (("OnlineVarianceMetricAdapter", "var_est", "PositiveDiagonalMatrix"), ("OnlineCovarianceMetricAdapter", "covar_est", "DensePositiveDefiniteMatrix")):
        f = program.method(cls, "finalize")
        import dataclasses

        f = dataclasses.replace(f, node=inline_private_helpers(f))  # e.g. an extracted momentum re-sampling loop
        body = f.body_without_docstring()
        top = {i: st for i, st in enumerate(body)}
        idx = {}
        for i, st in top.items():
            t = norm(st)
            if isinstance(st, ast.If) and any(isinstance(s, ast.Raise) for s in st.body):
                idx["guard"] = (i, st)
            if isinstance(st, ast.AugAssign) and norm(st.target) == est and isinstance(st.op, ast.Div):
                idx["div"] = (i, st)
            if isinstance(st, ast.Expr) and isinstance(st.value, ast.Call) and "regularize" in norm(st.value.func):
                idx["reg"] = (i, st)
            if isinstance(st, ast.Assign) and norm(st.targets[0]).endswith(".metric"):
                idx["metric"] = (i, st)
            if isinstance(st, ast.For) and any(isinstance(s, ast.Assign) and norm(s.targets[0]).endswith(".mom") for s in st.body):
                idx["refresh"] = (i, st)
        for need in ("guard", "div", "reg", "metric", "refresh"):
            r.inst({"class": cls, "step": need, "found": need in idx})
            if need not in idx:
                what = {
                    "guard": "no guard raising AdaptationError for fewer than two samples",
                    "div": f"the sum of squares is not divided by n - 1",
                    "reg": "the estimate is not regularised",
                    "metric": "the metric is not assigned",
                    "refresh": "the momenta are not re-sampled after the metric changes: they keep the law of the old metric",
                }[need]
                r.violate(PROP, f"{f.qualname}:{need}:missing", what, node=f.node, file=f.file)
        if not all(k in idx for k in ("guard", "div", "reg", "metric", "refresh")):
            continue
        order = [idx[k][0] for k in ("guard", "div", "reg", "metric", "refresh")]
        if order != sorted(order):
            r.violate(PROP, f"{f.qualname}:order:{order}", "finalize steps are out of order (guard, divide, regularise, set metric, re-sample momenta)", node=f.node, file=f.file)
        g = idx["guard"][1]
        gt = norm(g.test)
        rc = [s for s in g.body if isinstance(s, ast.Raise)][0]
        if gt not in ("n_iter < 2", "n_iter <= 1", "2 > n_iter") or "AdaptationError" not in norm(rc.exc):
            r.violate(PROP, f"{f.qualname}:guard:{gt}", "the sample-count guard is not `n_iter < 2 -> AdaptationError` (n - 1 = 0 divides by zero / negative)", node=g, file=f.file)
        d = idx["div"][1]
        if norm(d.value) not in ("n_iter - 1", "(n_iter - 1)"):
            r.violate(PROP, f"{f.qualname}:divisor:{norm(d.value)}", f"the estimate is divided by `{norm(d.value)}` instead of n - 1", node=d, file=f.file)
        rg = idx["reg"][1].value
        if [norm(a) for a in rg.args] != [est, "n_iter"]:
            r.violate(PROP, f"{f.qualname}:regularise-args:{[norm(a) for a in rg.args]}", "the regulariser is not applied to the estimate with the pooled count", node=rg, file=f.file)
        ms = idx["metric"][1]
        v = ms.value
        ok = isinstance(v, ast.Attribute) and v.attr == "inv" and isinstance(v.value, ast.Call) and norm(v.value.func) == mat and [norm(a) for a in v.value.args] == [est] and norm(ms.targets[0]) == "transition.system.metric"
        r.inst({"class": cls, "metric": norm(ms)})
        if not ok:
            r.violate(PROP, f"{f.qualname}:metric:{norm(v)[:50]}", f"the metric is set to `{norm(v)[:60]}` instead of the inverse of {mat}({est})", node=ms, file=f.file)
        lp = idx["refresh"][1]
        it = norm(lp.iter)
        asg = [s for s in lp.body if isinstance(s, ast.Assign) and norm(s.targets[0]).endswith(".mom")][0]
        ok = it.startswith("zip(chain_states, rngs") and norm(asg.value).startswith("transition.system.sample_momentum(")
        r.inst({"class": cls, "refresh": norm(asg)})
        if not ok:
            r.violate(PROP, f"{f.qualname}:refresh:{norm(asg)[:50]}", "momenta are not re-sampled from the system for every chain state with its own generator", node=lp, file=f.file)
        # single-chain branch wraps state and rng in lists
        first = [st for st in body if isinstance(st, ast.If) and "isinstance(adapt_states, dict)" in norm(st.test)]
        if first:
            wr = {norm(s.targets[0]): norm(s.value) for s in first[0].body if isinstance(s, ast.Assign)}
            ok = wr.get("chain_states") == "[chain_states]" and wr.get("rngs") == "[rngs]" and wr.get("n_iter") == "adapt_states['iter']"
            r.inst({"class": cls, "single-chain branch": wr})
            if not ok:
                r.violate(PROP, f"{f.qualname}:single-chain-branch", "the single-chain branch does not set n_iter / wrap the chain state and generator", node=first[0], file=f.file)
    # step size finalisation
    f = program.method("DualAveragingStepSizeAdapter", "finalize")
    ifs = [st for st in f.body_without_docstring() if isinstance(st, ast.If)]
    if not ifs:
        raise AnalysisError("DualAveragingStepSizeAdapter.finalize: branch not found")
    # value that reaches transition.integrator.step_size on each branch (through named locals)
    fbody = f.body_without_docstring()
    after = fbody[fbody.index(ifs[0]) + 1 :]

    def branch_value(arm):
        env = {}
        val = None
        for st in list(arm) + list(after):
            if isinstance(st, ast.Assign) and len(st.targets) == 1:
                t = st.targets[0]
                if isinstance(t, ast.Name):
                    env[t.id] = expand_locals(st.value, env)
                elif norm(t) == "transition.integrator.step_size":
                    val = expand_locals(st.value, env)
        return val

    va, vb = branch_value(ifs[0].body), branch_value(ifs[0].orelse)
    ok1 = va is not None and norm(va) == "exp(adapt_states['smoothed_log_step_size'])"
    r.inst({"finalize single": norm(va) if va is not None else None})
    if not ok1:
        r.violate(PROP, f"{f.qualname}:single:{norm(va) if va is not None else None}", "single-chain finalisation does not set step_size = exp(smoothed log step size)", node=ifs[0], file=f.file)
    ok2 = vb is not None and isinstance(vb, ast.Call) and norm(vb.func) == "self.log_step_size_reducer" and vb.args and "smoothed_log_step_size" in norm(vb.args[0]) and "for adapt_state in adapt_states" in norm(vb.args[0])
    r.inst({"finalize multi": norm(vb)[:80] if vb is not None else None})
    if not ok2:
        r.violate(PROP, f"{f.qualname}:multi", "multi-chain finalisation does not combine every chain's smoothed log step size with the chosen reducer", node=ifs[0], file=f.file)
    # reducers return step sizes (exp of log) - arithmetic / geometric / min
    m = program.module("adapters")
    forms = {
        "arithmetic_mean_log_step_size_reducer": "sum((exp(x) for x in log_step_sizes)) / len(log_step_sizes)",
        "geometric_mean_log_step_size_reducer": "exp(sum((x for x in log_step_sizes)) / len(log_step_sizes))",
        "min_log_step_size_reducer": "exp(min(log_step_sizes))",
    }
    for name, want in forms.items():
        g = m.functions.get(name)
        if g is None:
            raise AnalysisError(f"adapters.{name} not found")
        ret = [n for n in ast.walk(g.node) if isinstance(n, ast.Return)][0]
        ret = ast.Return(value=expand_locals(ret.value, single_assignment_locals(g.node)), lineno=ret.lineno)
        r.inst({"reducer": name, "returns": norm(ret.value)})
        if _canon_comprehensions(norm(ret.value)) != _canon_comprehensions(want):
            r.violate(PROP, f"{name}:{norm(ret.value)[:50]}", f"reducer returns `{norm(ret.value)}`; documented: `{want}`", node=ret, file=g.file)
    return r


def rule_r3(rep, program: Program):
    r = rep.rule("R3", "initial step-size search: threshold log 2; halve when too big (and on IntegratorError), double otherwise; halving and doubling reciprocal", floor=14)
    f = program.method("DualAveragingStepSizeAdapter", "_find_and_set_init_step_size")
    thr = [n for n in ast.walk(f.node) if isinstance(n, ast.Assign) and norm(n.targets[0]) == "delta_h_threshold"]
    r.inst({"threshold": norm(thr[0].value) if thr else None})
    if not thr or norm(thr[0].value) not in ("log(2)", "log(2.0)", "math.log(2)", "np.log(2)"):
        r.violate(PROP, f"{f.qualname}:threshold", "the energy-change threshold of the initial search is not log 2", node=f.node, file=f.file)
    ups = [n for n in ast.walk(f.node) if isinstance(n, ast.AugAssign) and norm(n.target) == "integrator.step_size"]
    facs = []
    for u in ups:
        v = eval_const(u.value)
        if v is None:
            raise AnalysisError(f"{f.qualname}: non-constant step-size factor")
        facs.append((u, Rat.const(1) / v if isinstance(u.op, ast.Div) else v))
    branch = [n for n in ast.walk(f.node) if isinstance(n, ast.If) and norm(n.test) == "step_size_too_big"]
    r.inst({"factors": [repr(x[1]) for x in facs]})
    if not branch:
        r.violate(PROP, f"{f.qualname}:no-direction-branch", "no branch on step_size_too_big", node=f.node, file=f.file)
    else:
        b = branch[0]
        down = [x for x in facs if any(x[0] is s for s in b.body)]
        up = [x for x in facs if any(x[0] is s for s in b.orelse)]
        ok = down and up and (down[0][1] * up[0][1]).equals(Rat.const(1)) and down[0][1].const_value() < 1
        r.inst({"too big ->": repr(down[0][1]) if down else None, "otherwise ->": repr(up[0][1]) if up else None})
        if not ok:
            r.violate(PROP, f"{f.qualname}:factors", "the step size is not shrunk when too big and grown by the reciprocal factor otherwise: the search cannot bracket the crossing", node=b, file=f.file)
    hs = [h for t in ast.walk(f.node) if isinstance(t, ast.Try) for h in t.handlers]
    for h in hs:
        hf = [x for x in facs if any(x[0] is s for s in h.body)]
        sets = [s for s in h.body if isinstance(s, ast.Assign) and norm(s.targets[0]) == "step_size_too_big" and norm(s.value) == "True"]
        r.inst({"on IntegratorError": repr(hf[0][1]) if hf else None})
        if not hf or hf[0][1].const_value() >= 1 or not sets:
            r.violate(PROP, f"{f.qualname}:error-handler", "an integrator failure during the initial search does not shrink the step size / mark it as too big", node=h, file=f.file)
        # every kind of integrator failure (convergence, non-reversible step, divergence) counts as
        # "too big": the handler must catch the base class IntegratorError
        from ..exctypes import ExcTypes

        et = ExcTypes(program)
        catches_all = et.catches(h, "mici.IntegratorError", f.module)
        r.inst({"handler types": [norm(h.type)] if h.type is not None else ["<bare>"], "catches every IntegratorError": catches_all})
        if catches_all is not True:
            r.violate(PROP, f"{f.qualname}:handler-type:{norm(h.type) if h.type is not None else None}", f"the handler of the trial step catches `{norm(h.type) if h.type is not None else None}`, which does not cover every IntegratorError (e.g. NonReversibleStepError, HamiltonianDivergenceError): such a failure at a trial step size escapes from initialize instead of being treated as 'step size too big', so the search does not return a step size at the log 2 crossing", node=h, file=f.file)
    init = [n for n in ast.walk(f.node) if isinstance(n, ast.Assign) and norm(n.targets[0]) == "integrator.step_size"]
    r.inst({"initial": norm(init[0].value) if init else None})
    _search_transition_table(r, f)
    return r


class _Ret(Exception):
    pass


def _search_transition_table(r, f):
    """Abstract execution of one iteration of the search loop for every combination of
    (first iteration?, |dH| is NaN / <= log 2 / > log 2, direction flag before) and comparison of the
    action taken (return / halve / double, new flag) with the bracketing search it documents."""
    loops = [n for n in ast.walk(f.node) if isinstance(n, ast.For)]
    trys = [t for lp in loops for t in lp.body if isinstance(t, ast.Try)]
    if len(trys) != 1:
        raise AnalysisError(f"{f.qualname}: search loop with one try block not found")
    loopvar = norm(loops[0].target)
    body = trys[0].body
    dh = None
    for st in body:
        if isinstance(st, ast.Assign) and isinstance(st.value, ast.Call) and norm(st.value.func) in ("abs", "np.abs", "fabs", "math.fabs"):
            dh = norm(st.targets[0])
    if dh is None:
        raise AnalysisError(f"{f.qualname}: absolute energy change not found")
    thr_names = {"delta_h_threshold", "log(2)", "LOG_2"}

    def ev(e, env):
        if isinstance(e, ast.Constant) and isinstance(e.value, bool):
            return e.value
        if isinstance(e, ast.Name) and e.id == "step_size_too_big":
            if env["flag"] is None:
                raise AnalysisError(f"{f.qualname}: direction flag read before it is set")
            return env["flag"]
        if isinstance(e, ast.UnaryOp) and isinstance(e.op, ast.Not):
            return not ev(e.operand, env)
        if isinstance(e, ast.BoolOp):
            vals = [ev(v, env) for v in e.values]
            return all(vals) if isinstance(e.op, ast.And) else any(vals)
        if isinstance(e, ast.Call) and norm(e.func) in ("np.isnan", "isnan", "math.isnan") and norm(e.args[0]) == dh:
            return env["kind"] == "nan"
        if isinstance(e, ast.Call) and norm(e.func) in ("np.isfinite", "isfinite", "math.isfinite") and norm(e.args[0]) == dh:
            return env["kind"] != "nan"
        if isinstance(e, ast.Compare) and len(e.ops) == 1:
            l, rr, op = norm(e.left), norm(e.comparators[0]), e.ops[0]
            if l == loopvar and rr == "0" and isinstance(op, (ast.Eq, ast.NotEq)):
                return env["first"] if isinstance(op, ast.Eq) else not env["first"]
            if l == loopvar and rr == "0" and isinstance(op, ast.Gt):
                return not env["first"]
            if l == dh and rr in thr_names or rr == dh and l in thr_names:
                if env["kind"] == "nan":
                    return False  # every ordered comparison with NaN is false
                big = env["kind"] == "big"
                if rr == dh:  # threshold on the left: flip
                    op = {ast.Gt: ast.Lt, ast.GtE: ast.LtE, ast.Lt: ast.Gt, ast.LtE: ast.GtE}[type(op)]()
                return big if isinstance(op, (ast.Gt, ast.GtE)) else not big
        raise AnalysisError(f"{f.qualname}: condition outside the search grammar: {norm(e)[:60]}")

    def run(stmts, env):
        for st in stmts:
            if isinstance(st, ast.Assign) and norm(st.targets[0]) == "step_size_too_big":
                env["flag"] = ev(st.value, env)
            elif isinstance(st, ast.Assign):
                continue
            elif isinstance(st, ast.If):
                run(st.body if ev(st.test, env) else st.orelse, env)
            elif isinstance(st, ast.Return):
                env["action"] = "return"
                raise _Ret
            elif isinstance(st, ast.AugAssign) and norm(st.target) == "integrator.step_size":
                v = eval_const(st.value)
                fac = (Rat.const(1) / v if isinstance(st.op, ast.Div) else v).const_value() if v is not None else None
                env["action"] = "halve" if fac is not None and fac < 1 else "double"
            elif isinstance(st, ast.Expr):
                continue
            else:
                raise AnalysisError(f"{f.qualname}: statement outside the search grammar: {norm(st)[:50]}")

    n_cases = 0
    for first in (True, False):
        for kind in ("nan", "small", "big"):
            for prev in ((None,) if first else (True, False)):
                env = {"first": first, "kind": kind, "flag": prev, "action": None}
                try:
                    run(body, env)
                except _Ret:
                    pass
                # required behaviour of a bracketing search with threshold log 2
                if kind == "nan":
                    want = ("halve", True)
                elif first:
                    want = ("halve", True) if kind == "big" else ("double", False)
                elif prev:
                    want = ("halve", True) if kind == "big" else ("return", True)
                else:
                    want = ("return", False) if kind == "big" else ("double", False)
                got = (env["action"], env["flag"])
                n_cases += 1
                ok = got[0] == want[0] and (got[0] == "return" or got[1] == want[1])
                r.inst({"first": first, "|dH|": {"nan": "NaN", "small": "<= log 2", "big": "> log 2"}[kind], "flag before": prev, "action": got[0], "flag after": got[1]})
                if not ok:
                    desc = {"nan": "is NaN", "small": "is at most log 2", "big": "exceeds log 2"}[kind]
                    phase = "on the first iteration" if first else ("while halving" if prev else "while doubling")
                    r.violate(PROP, f"{f.qualname}:search:{'first' if first else ('halving' if prev else 'doubling')}:{kind}:{got[0]}", f"initial step-size search: when the one-step energy change {desc} {phase}, the loop {got[0] or 'does nothing'}s (too-big flag {got[1]}) where a bracketing search for the log 2 crossing must {want[0]} (flag {want[1]}): the returned step size is not at the crossing, or the search runs away", node=trys[0], file=f.file)
    return n_cases


class _InitExec:
    """Case-split evaluation of an `initialize` body: the optional setting `opt` is either None or
    an arbitrary non-None number (possibly 0, so its truthiness is unknown)."""

    TRUTHY = "<depends on the truthiness of the option value>"

    def __init__(self, opt: str, is_none: bool, qual: str):
        self.opt, self.is_none, self.qual = opt, is_none, qual
        self.env: dict[str, object] = {}

    def none_test(self, t: ast.expr):
        """True / False when `t` decides the None-ness of the option, else None."""
        if isinstance(t, ast.Compare) and len(t.ops) == 1 and norm(t.left) == self.opt and norm(t.comparators[0]) == "None":
            if isinstance(t.ops[0], ast.Is):
                return self.is_none
            if isinstance(t.ops[0], ast.IsNot):
                return not self.is_none
        if isinstance(t, ast.UnaryOp) and isinstance(t.op, ast.Not):
            inner = self.none_test(t.operand)
            return None if inner is None else not inner
        return None

    def ev(self, e: ast.expr):
        if isinstance(e, ast.Dict):
            out = {}
            for k, v in zip(e.keys, e.values):
                if k is None:
                    inner = self.ev(v)
                    if not isinstance(inner, dict):
                        raise AnalysisError(f"{self.qual}: ** of a non-literal in the adapter state")
                    out.update(inner)
                elif isinstance(k, ast.Constant):
                    out[k.value] = self.ev(v)
                else:
                    raise AnalysisError(f"{self.qual}: non-constant adapter-state key")
            return out
        if isinstance(e, ast.Call) and norm(e.func) == "dict" and not e.args:
            return {k.arg: self.ev(k.value) for k in e.keywords}
        if isinstance(e, ast.IfExp):
            d = self.none_test(e.test)
            if d is not None:
                return self.ev(e.body if d else e.orelse)
            if self.opt in norm(e.test):
                return self.TRUTHY if not self.is_none else self.ev(e.orelse if norm(e.test) == self.opt else e.body)
        if isinstance(e, ast.BoolOp) and any(norm(v) == self.opt for v in e.values[:-1]):
            if isinstance(e.op, ast.Or) and norm(e.values[0]) == self.opt and len(e.values) == 2:
                return self.ev(e.values[1]) if self.is_none else self.TRUTHY
            return self.TRUTHY
        if isinstance(e, ast.Name) and e.id in self.env:
            return self.env[e.id]
        if isinstance(e, ast.Name) or isinstance(e, ast.Constant) or isinstance(e, ast.Attribute):
            return norm(e)
        # any other expression: canonical text with local names expanded
        class Sub(ast.NodeTransformer):
            def visit_Name(s, n):  # noqa: N805
                v = self.env.get(n.id)
                if isinstance(v, str) and v != self.TRUTHY:
                    return ast.parse(v, mode="eval").body
                return n
        import copy as _copy

        return norm(Sub().visit(_copy.deepcopy(e)))

    def run(self, stmts):
        for st in stmts:
            if isinstance(st, ast.Expr) and isinstance(st.value, ast.Constant):
                continue
            if isinstance(st, (ast.Assign, ast.AnnAssign)):
                tgt = st.targets[0] if isinstance(st, ast.Assign) else st.target
                val = self.ev(st.value)
                if isinstance(tgt, ast.Name):
                    self.env[tgt.id] = val
                elif isinstance(tgt, ast.Subscript) and isinstance(tgt.value, ast.Name) and isinstance(self.env.get(tgt.value.id), dict) and isinstance(tgt.slice, ast.Constant):
                    self.env[tgt.value.id][tgt.slice.value] = val
                else:
                    raise AnalysisError(f"{self.qual}: assignment target outside the grammar: {norm(tgt)}")
                continue
            if isinstance(st, ast.If):
                d = self.none_test(st.test)
                if d is None:
                    if self.opt in norm(st.test) and not self.is_none:
                        # truthiness test of the option: both arms possible for a non-None value
                        a = self._fork(st.body)
                        b = self._fork(st.orelse)
                        if a != b:
                            return self.TRUTHY
                        continue
                    if self.opt in norm(st.test):
                        d = norm(st.test) != self.opt  # `if opt:` is False for None, `if not opt:` True
                    else:
                        raise AnalysisError(f"{self.qual}: branch outside the grammar: {norm(st.test)[:50]}")
                res = self.run(st.body if d else st.orelse)
                if res is not None:
                    return res
                continue
            if isinstance(st, ast.Return):
                return self.ev(st.value)
            raise AnalysisError(f"{self.qual}: statement outside the grammar: {type(st).__name__}")
        return None

    def _fork(self, stmts):
        import copy as _copy

        sub = _InitExec(self.opt, self.is_none, self.qual)
        sub.env = _copy.deepcopy(self.env)
        sub.run(stmts)
        return sub.env


def _is_zero_value(v) -> bool:
    if not isinstance(v, str):
        return False
    if v in ("0", "0.0"):
        return True
    try:
        e = ast.parse(v, mode="eval").body
    except SyntaxError:
        return False
    return isinstance(e, ast.Call) and norm(e.func) in ("np.zeros", "np.zeros_like", "zeros", "zeros_like")


def rule_r4(rep, program: Program):
    r = rep.rule("R4", "initialize starts every recursion at its documented initial value; the optional regularisation target is honoured for every non-None value (0 included)", floor=10)
    f = program.method("DualAveragingStepSizeAdapter", "initialize")
    opt = "self.log_step_size_reg_target"
    for is_none in (True, False):
        ex = _InitExec(opt, is_none, f.qualname)
        res = ex.run(f.body_without_docstring())
        case = "option is None" if is_none else "option is a number (possibly 0)"
        if res == _InitExec.TRUTHY or not isinstance(res, dict):
            r.inst({"case": case, "state": str(res)[:80]})
            r.violate(PROP, f"{f.qualname}:state-depends-on-truthiness", f"with {case} the returned adapter state depends on the truthiness of {opt}: an explicit 0.0 is a valid target (regularise towards step size 1) and must not be treated as 'not given'", node=f.node, file=f.file)
            continue
        for key in ("iter", "smoothed_log_step_size", "adapt_stat_error"):
            v = res.get(key)
            r.inst({"case": case, "key": key, "value": str(v)})
            if not _is_zero_value(v):
                r.violate(PROP, f"{f.qualname}:{key}:{v}", f"the dual-averaging recursion must start from {key} = 0 (documented H_0 = 0, x-bar_0 = 0, m = 0); initialize gives {v}", node=f.node, file=f.file)
        v = res.get("log_step_size_reg_target")
        r.inst({"case": case, "key": "log_step_size_reg_target", "value": str(v)})
        if is_none:
            ok = isinstance(v, str) and v.replace(" ", "").startswith("log(10*self._find_and_set_init_step_size(") or isinstance(v, str) and v.replace(" ", "").startswith("log(self._find_and_set_init_step_size(") and v.replace(" ", "").endswith("*10)")
            if not ok:
                r.violate(PROP, f"{f.qualname}:default-target:{str(v)[:40]}", f"without a user value the regularisation target must be log(10 * init_step_size) with init_step_size the result of the initial search; initialize gives {v}", node=f.node, file=f.file)
        elif v != opt:
            what = "depends on the truthiness of the option (an explicit 0.0 is replaced by the default)" if v == _InitExec.TRUTHY else f"is {v}"
            r.violate(PROP, f"{f.qualname}:user-target:{str(v)[:40]}", f"a user-supplied regularisation target must be used as given for every value; the target {what}", node=f.node, file=f.file)
    for cls, acc in (("OnlineVarianceMetricAdapter", "sum_diff_sq"), ("OnlineCovarianceMetricAdapter", "sum_diff_outer")):
        f = program.method(cls, "initialize")
        ex = _InitExec("<none>", True, f.qualname)
        res = ex.run(f.body_without_docstring())
        if not isinstance(res, dict):
            raise AnalysisError(f"{f.qualname}: adapter state is not a dict literal")
        for key in ("iter", "mean", acc):
            v = res.get(key)
            r.inst({"class": cls, "key": key, "value": str(v)})
            if not _is_zero_value(v):
                r.violate(PROP, f"{f.qualname}:{key}:{str(v)[:40]}", f"the Welford recursion must start from {key} = 0; initialize gives {v}", node=f.node, file=f.file)
    return r


def eval_const(e):
    from ..poly import eval_expr

    try:
        v = eval_expr(e, {})
    except AnalysisError:
        return None
    return v if v.is_const() else None


def run(rep, program: Program, tier: str) -> None:
    rep.explanation = (
        "Exact symbolic execution (rational polynomials, opaque pow/exp/sqrt atoms) of the adapters' "
        "update and merge blocks against the documented recursions, plus ordering/post-condition "
        "rules for finalize and the shape of the initial step-size search."
    )
    rep.assumptions = [
        "arrays are modelled element-wise as commutative scalars (exact for these identities)",
        "floating-point stability and the crossing property of the initial search are not decided",
    ]
    rep.isolate(rule_r1, rep, program)
    rep.isolate(rule_r2, rep, program)
    rep.isolate(rule_r3, rep, program)
    rep.isolate(rule_r4, rep, program)
    # the momenta are refreshed *under the new metric*: metric-dependent cache entries invalidated first (shared with C09-R10)
    from . import c09

    rep.isolate(c09.rule_r10, rep, program, prop=PROP, rule="R5")
