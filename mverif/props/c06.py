"""C06 - a step of size eps approximates the exact flow over time eps to second order.

 R0 the time handed to _step is state.dir * step_size (shared with C02-R2)
 R1 component time budget: in every integrator each Hamiltonian component (h1; h2 momentum
    part; h2 position part) is advanced by exactly one time step with Hamilton's signs
 R2 palindromic composition (shared with C02-R3): consistent + symmetric => even order >= 2
 R3 derivation of dependent composition coefficients: lengths, alternation, mirror symmetry
    and unit sums as polynomial identities for n = 0..6 (12) symbolic free coefficients
"""

from __future__ import annotations

from ..model import Program
from ..poly import Rat
from ..report import AnalysisError
from ..stepexec import budget, composition_lists
from . import c02

PROP = "C06"


def rule_r1(rep, runs):
    r = rep.rule("R1", "each Hamiltonian component is advanced by exactly 1*time_step (Hamilton signs: momentum -, position +) in every integrator", floor=8)
    t = Rat.sym("t")
    for k, label, events, _comp in runs:
        if any(e.kind == "error" for e in events):
            continue
        tot, bad = budget(events)
        f = k.resolve("_step")
        r.inst({"integrator": label, "H1": repr(tot["H1"]), "H2(mom)": repr(tot["H2mom"]), "H2(pos)": repr(tot["H2pos"])})
        for e, why in bad:
            r.violate(PROP, f"{e.func}:wrong-derivative:{why}", f"{why} in {e.func}: not a Hamilton equation of any component", node=e.node, file=f.file)
        for comp, v in tot.items():
            if not v.equals(t):
                r.violate(PROP, f"{label}:{comp}:advances={v!r}", f"component {comp} is advanced by {v!r} instead of t per step: the integrator {'runs backwards in' if (v + t).is_zero() else 'integrates a different time than step_size for'} this component (inconsistent with the flow of system.h)", node=f.node, file=f.file)
    return r


def rule_r3(rep, program: Program, tier: str):
    nmax = 12 if tier == "thorough" else 6
    r = rep.rule("R3", f"composition coefficient derivation for n = 0..{nmax} symbolic free coefficients, both flow orders: lengths 2n+3, alternation, mirror symmetry, unit sums", floor=2 * (nmax + 1))
    f = program.method("SymmetricCompositionIntegrator", "__init__")
    one = Rat.const(1)
    for n in range(nmax + 1):
        for ih in (True, False):
            free = [Rat.sym(f"c{i}") for i in range(n)]
            coeffs, flows = composition_lists(program, free, ih)
            label = f"n_free={n},h1_first={ih}"
            r.inst({"case": label, "n_coefficients": len(coeffs), "n_flows": len(flows)})
            key = f"SymmetricCompositionIntegrator.__init__:{label}"
            if len(coeffs) != len(flows):
                r.violate(PROP, f"{key}:length", f"{len(coeffs)} coefficients for {len(flows)} flows (zip(strict=True) raises / a flow is dropped)", node=f.node, file=f.file)
                continue
            if len(flows) != 2 * n + 3:
                r.violate(PROP, f"{key}:stages", f"{len(flows)} sub-steps for {n} free coefficients; the documented S = n + 1 stage scheme has 2n + 3", node=f.node, file=f.file)
            a, b = ("h1_flow", "h2_flow") if ih else ("h2_flow", "h1_flow")
            if flows != [a if i % 2 == 0 else b for i in range(len(flows))]:
                r.violate(PROP, f"{key}:alternation", f"flows do not alternate A,B,...,A starting with {a}: {flows}", node=f.node, file=f.file)
            cs = [c if isinstance(c, Rat) else Rat.const(c) for c in coeffs]
            if any(not cs[i].equals(cs[-1 - i]) for i in range(len(cs))):
                r.violate(PROP, f"{key}:mirror", "coefficient list is not mirror symmetric", node=f.node, file=f.file)
            sa = sum((c for c in cs[0::2]), Rat.const(0))
            sb = sum((c for c in cs[1::2]), Rat.const(0))
            if not sa.equals(one):
                r.violate(PROP, f"{key}:sumA={sa!r}", f"A-flow coefficients sum to {sa!r}, not 1", node=f.node, file=f.file)
            if not sb.equals(one):
                r.violate(PROP, f"{key}:sumB={sb!r}", f"B-flow coefficients sum to {sb!r}, not 1", node=f.node, file=f.file)
            # free coefficients occupy the documented leading positions a_0, b_1, a_1, ...
            for i in range(n):
                if not cs[i].equals(free[i]):
                    r.violate(PROP, f"{key}:free[{i}]", f"free coefficient {i} is not used for sub-step {i}", node=f.node, file=f.file)
                    break
    return r


def run(rep, program: Program, tier: str) -> None:
    rep.explanation = (
        "Abstract execution of every _step with exact rational time coefficients: per-component "
        "time budget (consistency) and palindrome (symmetry) - the premises of second order for "
        "compositions of exact sub-flows - plus symbolic evaluation of the composition-coefficient "
        "derivation for a bounded number of free coefficients."
    )
    rep.assumptions = [
        "sub-flows are exact (C07); consistent + symmetric => order >= 2 is the standard theorem, error constants are not measured",
        "R3 is bounded in the number of free coefficients (stated in coverage), exact in their values",
    ]
    runs = list(c02.integrator_runs(program, tier))
    rep.isolate(c02.rule_r1_r2, rep, program, prop=PROP, ids=("copy-discipline (C02)", "R0"))
    rep.rules = [x for x in rep.rules if x.rule == "R0"]  # keep only the time-argument rule
    rep.isolate(rule_r1, rep, runs)
    rep.isolate(c02.rule_r3, rep, program, runs, prop=PROP, rule="R2")
    rep.isolate(rule_r3, rep, program, tier)
    rep.extra["integrator_instances_executed"] = len(runs)
    rep.extra["bound_n_free_coefficients"] = 12 if tier == "thorough" else 6
    # the component flows a step is composed of must be those of the *current* Hamiltonian (shared with C07-R5)
    from . import c07

    rep.isolate(c07.rule_r5, rep, program, prop=PROP, rule="R4")
    # integrators that are not built from component flows (implicit midpoint) evaluate the total derivative methods:
    # they integrate the system's own Hamiltonian only if those equal the sums of the component derivatives (shared with C05-R1)
    from . import c05

    rep.isolate(c05.rule_r1, rep, program, prop=PROP, rule="R5")
    # the force of a kick must be the gradient of the system's own h1 at every evaluation: a derivative method that
    # accumulates into a cached array returns a different force from its second call on (shared with C09-R9)
    from . import c09

    rep.isolate(c09.rule_r9, rep, program, prop=PROP, rule="R6")
    # a state restored from a pickle must keep invalidating its cached values, or later steps use stale forces (shared with C09-R5)
    rep.isolate(c09.rule_r5, rep, program, prop=PROP, rule="R7")
    # the SoftAbs metric's gradients enter dh1_dpos / dh2_dpos: a step follows the system's own Hamiltonian to second order
    # only if they are the true derivatives (shared with C11-R1 / C11-R2)
    from . import c11

    rep.isolate(c11.rule_r1, rep, program, prop=PROP, rule="R8")
    rep.isolate(c11.rule_r2, rep, program, prop=PROP, rule="R9")
    # the Hamiltonian / its flows are evaluated through metric.inv, .sqrt, .log_abs_det of whatever matrix object the
    # metric is: a cache forwarded to a scaled / transposed / inverted matrix must satisfy its defining identity there,
    # or those members describe a different matrix from the one whose array and eigendecomposition the system uses
    # (shared with C10-R5)
    from . import c10

    _n0 = len(rep.rules)
    _r1, _r4, _r5c = c10.rule_algebra(rep, program, relevant=lambda cname, member: False)  # members the algebra cannot evaluate are C10's concern
    rep.rules = rep.rules[:_n0]
    _r = rep.rule("R10", "caches forwarded to derived matrices (capacitance, triangular factor, eigendecomposition, LU) satisfy their defining identity on the new arguments", floor=10)
    _r.instances = _r.exercised = _r5c.instances
    _r.samples = _r5c.samples
    for _fd in _r5c.findings:
        _fd.rule, _fd.prop = "R10", PROP
        _r.findings.append(_fd)
    rep.extra.pop("members_outside_algebra", None)
    # the forces of a step are read from the state cache: they must belong to the system doing the step (shared with C09-R6)
    rep.isolate(c09.rule_r6, rep, program, prop=PROP, rule="R11")
