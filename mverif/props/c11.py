"""C11 - differentiable matrices report the true parameter gradients.

Decided: necessary conditions on every gradient expression obtained by typing it in two abelian
groups (numeric factors, transposes and triangular masking are not decided):
 R1 parity under each sign-flip symmetry of the class family: a symmetry of the parametrisation
    that maps M to +-M fixes the parity of log|det M| (even), of v^T M^-1 v (parity of M) and
    of the parameter, hence the parity the gradient must have
 R2 homogeneity degree under scaling of the defining parameter (M has degree k in it):
    grad_log_abs_det has degree -1, grad_quadratic_form_inv degree -k-1; and degree 2 in the vector
"""

from __future__ import annotations

import ast

from fractions import Fraction

from ..model import Program, expand_locals, norm, single_assignment_locals
from ..report import AnalysisError
from ..typeeval import TOP, Lattice, TypeEval

PROP = "C11"

# (class defining the gradients, symmetry name, atom parities, parity of M, parity of the parameter)
PARITY = [
    ("ScaledIdentityMatrix", "scalar -> -scalar", {"self._scalar": 1}, 1, 1),
    ("DiagonalMatrix", "diagonal -> -diagonal", {"self._diagonal": 1}, 1, 1),
    ("TriangularFactoredDefiniteMatrix", "sign -> -sign", {"self._sign": 1}, 1, 0),
    ("TriangularFactoredDefiniteMatrix", "factor -> -factor", {"self._factor": 1}, 0, 1),
    ("DenseDefiniteMatrix", "array -> -array", {"self._array": 1, "self._sign": 1}, 1, 1),
    ("DensePositiveDefiniteProductMatrix", "rect_matrix -> -rect_matrix", {"self._rect_matrix": 1}, 0, 1),
    ("SoftAbsRegularizedPositiveDefiniteMatrix", "symmetric_array -> -symmetric_array (softabs is even)", {"self.unreg_eigval": 1, "self.eigval": 0, "self.eigvec": 0, "self._softabs_coeff": 0}, 0, 1),
    ("PositiveDefiniteLowRankUpdateMatrix", "(sign, inner) -> (-sign, -inner)", {"self._sign": 1, "self.inner_pos_def_matrix": 1, "self.inner_symmetric_matrix": 1, "self.inner_square_matrix": 1, "self._capacitance_matrix": 1}, 0, 0),
    ("PositiveDefiniteLowRankUpdateMatrix", "factor_matrix -> -factor_matrix", {"self.factor_matrix": 1, "self.left_factor_matrix": 1, "self.right_factor_matrix": 1}, 0, 1),
]

# (class, scaling name, atom degrees, degree k of M in the parameter)
DEGREE = [
    ("ScaledIdentityMatrix", "scalar -> a*scalar", {"self._scalar": 1}, 1),
    ("DiagonalMatrix", "diagonal -> a*diagonal", {"self._diagonal": 1}, 1),
    ("TriangularFactoredDefiniteMatrix", "factor -> a*factor", {"self._factor": 1}, 2),
    ("DenseDefiniteMatrix", "array -> a*array", {"self._array": 1}, 1),
    ("DensePositiveDefiniteProductMatrix", "rect_matrix -> a*rect_matrix", {"self._rect_matrix": 1}, 2),
    ("SoftAbsRegularizedPositiveDefiniteMatrix", "(symmetric_array, softabs_coeff) -> (a*symmetric_array, softabs_coeff/a)", {"self.unreg_eigval": 1, "self.eigval": 1, "self.eigvec": 0, "self._softabs_coeff": -1}, 1),
]

VECTOR_CLASSES = ["ScaledIdentityMatrix", "DiagonalMatrix", "TriangularFactoredDefiniteMatrix", "DenseDefiniteMatrix", "DensePositiveDefiniteProductMatrix", "PositiveDefiniteLowRankUpdateMatrix", "SoftAbsRegularizedPositiveDefiniteMatrix"]


def _name(t, mode):
    if t == TOP:
        return "mixed (neither)"
    if mode == "parity":
        return "odd" if t else "even"
    return f"degree {t}"


def rule_r1(rep, program: Program, prop=PROP, rule="R1"):
    r = rep.rule(rule, "parity of grad_log_abs_det / grad_quadratic_form_inv under each sign-flip symmetry of the parametrisation", floor=16)
    L = Lattice("parity")
    for cls, sym, atoms, m_par, p_par in PARITY:
        k = program.cls(cls)
        te = TypeEval(k, L, atoms, self_type=m_par)
        for meth, value_par in (("grad_log_abs_det", 0), ("grad_quadratic_form_inv", m_par)):
            f = k.resolve(meth)
            if f is None or f.is_abstract:
                raise AnalysisError(f"{cls}.{meth} not found")
            want = (value_par + p_par) % 2
            got = te.func(f)
            r.inst({"class": cls, "symmetry": sym, "method": f.qualname, "parity": _name(got, "parity"), "required": _name(want, "parity")})
            if got != want:
                r.violate(prop, f"{f.qualname}:parity[{sym}]:{_name(got, 'parity')}", f"under the reparametrisation {sym} (which maps the matrix to {'-M' if m_par else 'M'}) the differentiated function is {_name(value_par, 'parity')} and the parameter {_name(p_par, 'parity')}, so the gradient must be {_name(want, 'parity')}; the expression in {f.qualname} is {_name(got, 'parity')} (a sign factor / absolute value / inverse is missing or spurious)", node=f.node, file=f.file)
    return r


def rule_r2(rep, program: Program, prop=PROP, rule="R2"):
    r = rep.rule(rule, "homogeneity degree of the gradients in the defining parameter and in the vector", floor=18)
    L = Lattice("degree")
    for cls, sc, atoms, kdeg in DEGREE:
        k = program.cls(cls)
        te = TypeEval(k, L, {a: Fraction(d) for a, d in atoms.items()}, self_type=Fraction(kdeg))
        for meth, want in (("grad_log_abs_det", Fraction(-1)), ("grad_quadratic_form_inv", Fraction(-kdeg - 1))):
            f = k.resolve(meth)
            got = te.func(f)
            r.inst({"class": cls, "scaling": sc, "method": f.qualname, "degree": str(got), "required": str(want)})
            if got != want:
                r.violate(prop, f"{f.qualname}:degree[{sc}]:{got}", f"under {sc} the matrix scales with a^{kdeg}, so {meth} must be homogeneous of degree {want}; the expression in {f.qualname} has {_name(got, 'degree')} (inverse vs forward matrix, missing square, or a term of different degree)", node=f.node, file=f.file)
    for cls in VECTOR_CLASSES:
        k = program.cls(cls)
        f = k.resolve("grad_quadratic_form_inv")
        te = TypeEval(k, L, {}, self_type=Fraction(0))
        got = te.func(f, {f.params[1]: Fraction(1)})
        r.inst({"class": cls, "scaling": "vector -> b*vector", "method": f.qualname, "degree": str(got)})
        if got != Fraction(2):
            r.violate(prop, f"{f.qualname}:vector-degree:{got}", f"v^T M^-1 v is quadratic in v, so its gradient must have degree 2 in the vector; the expression in {f.qualname} has {_name(got, 'degree')}", node=f.node, file=f.file)
    return r


def rule_r3(rep, program: Program):
    """Block-diagonal matrices: log|det| and v^T M^-1 v are sums over blocks, so the gradient with
    respect to the tuple of block parameters is the tuple of the blocks' own gradients, the
    quadratic-form one evaluated on the matching part of the vector."""
    import ast

    from ..model import norm

    r = rep.rule("R3", "block-diagonal gradients: tuple over all blocks of the block's own gradient, the vector split conformally", floor=2)
    k = program.cls("PositiveDefiniteBlockDiagonalMatrix")
    for meth in ("grad_log_abs_det", "grad_quadratic_form_inv"):
        f = k.resolve(meth)
        if f is None:
            raise AnalysisError(f"{k.name}.{meth} not found")
        rets = [n for n in ast.walk(f.node) if isinstance(n, ast.Return) and n.value is not None]
        good = None
        for rt in rets:
            v = rt.value
            if not (isinstance(v, ast.Call) and norm(v.func) == "tuple" and len(v.args) == 1 and isinstance(v.args[0], (ast.GeneratorExp, ast.ListComp))):
                continue
            g = v.args[0]
            gen = g.generators[0]
            if len(g.generators) != 1 or gen.ifs:
                continue
            if meth == "grad_log_abs_det":
                ok = isinstance(gen.target, ast.Name) and norm(gen.iter) in ("self._blocks", "self.blocks") and norm(g.elt) == f"{gen.target.id}.grad_log_abs_det"
            else:
                vec = f.params[1]
                ok = (
                    isinstance(gen.target, ast.Tuple) and len(gen.target.elts) == 2
                    and isinstance(gen.iter, ast.Call) and norm(gen.iter.func) == "zip" and len(gen.iter.args) == 2
                    and norm(gen.iter.args[0]) in ("self._blocks", "self.blocks")
                    and norm(gen.iter.args[1]).replace(" ", "") in (f"self._split({vec},axis=0)", f"self._split({vec},0)", f"self._split({vec})")
                    and norm(g.elt) == f"{norm(gen.target.elts[0])}.grad_quadratic_form_inv({norm(gen.target.elts[1])})"
                )
            if ok:
                good = rt
        r.inst({"method": f.qualname, "delegates per block": good is not None, "returns": [norm(x.value)[:80] for x in rets]})
        if good is None:
            r.violate(PROP, f"{f.qualname}:not-per-block", f"{f.qualname} does not return, for every block in order, that block's own {meth} (with the conformal part of the vector): the gradient no longer has the structure of the parameter (tuple of blocks) or mixes blocks", node=f.node, file=f.file)
    return r


INT_UNSAFE_FUNCS = {"np.reciprocal", "np.floor_divide", "np.power", "np.float_power_int", "np.invert"}


def rule_r7(rep, program: Program):
    """The gradients of a block-diagonal matrix are reported "in the structure of the parameter": one entry per block the
    caller passed.  That holds only if the constructor keeps the caller's blocks as they are - merging nested block
    matrices, dropping or reordering blocks changes the length / nesting of every gradient tuple."""
    import ast

    from ..model import expand_locals, is_self_attr, norm, single_assignment_locals

    r = rep.rule("R7", "block-structured matrices store the blocks exactly as given (gradient tuples have the structure of the parameter)", floor=3)
    for k in program.subclasses("Matrix"):
        init = k.methods.get("__init__")
        if init is None or "blocks" not in init.params:
            continue
        stores = [a for a in ast.walk(init.node) if isinstance(a, ast.Assign) and any(is_self_attr(t) and t.attr in ("_blocks", "blocks") for t in a.targets)]
        rebinds = [a for a in ast.walk(init.node) if isinstance(a, (ast.Assign, ast.AugAssign)) and any(isinstance(t, ast.Name) and t.id == "blocks" for t in (a.targets if isinstance(a, ast.Assign) else [a.target]))]
        passes_up = [c for c in ast.walk(init.node) if isinstance(c, ast.Call) and norm(c.func).endswith("__init__") and any(norm(a) in ("blocks", "tuple(blocks)", "list(blocks)") for a in list(c.args) + [kw.value for kw in c.keywords])]
        r.inst({"class": k.name, "stores": [norm(a)[:60] for a in stores], "re-binds the parameter": [norm(a)[:60] for a in rebinds], "hands the blocks to the base constructor": bool(passes_up)})
        for a in rebinds:
            v = a.value if isinstance(a, ast.Assign) else None
            if v is not None and norm(v) in ("tuple(blocks)", "list(blocks)"):
                continue
            r.violate(PROP, f"{k.name}.__init__:blocks-rebuilt:{norm(a)[:40]}", f"the constructor re-builds the sequence of blocks (`{norm(a)[:70]}`) before storing it: the stored blocks are not the caller's blocks one for one, so gradient tuples no longer have the structure of the parameter", node=a, file=init.file)
        for a in stores:
            v = expand_locals(a.value, single_assignment_locals(init.node))
            if norm(v) not in ("tuple(blocks)", "blocks", "list(blocks)"):
                r.violate(PROP, f"{k.name}.__init__:blocks-stored-as:{norm(v)[:40]}", f"the blocks are stored as `{norm(v)[:70]}` rather than as the sequence given", node=a, file=init.file)
        if not stores and not passes_up:
            raise AnalysisError(f"{k.name}.__init__: neither stores the blocks nor hands them to a base constructor")
    return r


def rule_r5(rep, program: Program, prop=PROP, rule="R5"):
    """Parameters are stored as given, so an integer array is a legal parameter.  The gradient members
    must use operations whose result does not depend on the parameter's dtype: true division and float
    exponents promote, np.reciprocal / floor division / negative integer powers follow integer rules
    (np.reciprocal(np.array([2])) == [0])."""
    PROP = prop  # noqa: N806
    r = rep.rule(rule, "gradient members use dtype-promoting arithmetic on the stored parameters (no np.reciprocal, //, negative integer powers on arrays that may be integer)", floor=20)

    def float_forced(e):
        """the operand is certainly floating point: a float constant takes part, or an explicit cast"""
        for n in ast.walk(e):
            if isinstance(n, ast.Constant) and isinstance(n.value, float):
                return True
            if isinstance(n, ast.Call) and ((isinstance(n.func, ast.Attribute) and n.func.attr == "astype") or any(k.arg == "dtype" for k in n.keywords) or norm(n.func) in ("float", "np.float64", "np.sqrt", "np.exp", "np.log", "np.tanh", "np.sinh", "np.cosh", "sla.solve_triangular", "nla.eigh", "sla.cho_solve", "sla.lu_solve", "nla.solve", "nla.inv")):
                return True
            if isinstance(n, ast.BinOp) and isinstance(n.op, ast.Div):
                return True
        return False

    for f in program.module("matrices").classes.values():
        for g in f.methods.values():
            if not (g.name.startswith("grad_") or g.name in ("_construct_inv", "log_abs_det", "_left_matrix_multiply", "_right_matrix_multiply", "_construct_sqrt", "inv_diagonal")):
                continue
            sites = []
            for n in ast.walk(g.node):
                if isinstance(n, ast.Call) and norm(n.func) in ("np.reciprocal", "np.floor_divide") and n.args and not float_forced(n.args[0]):
                    sites.append((n, f"{norm(n.func)} applies integer rules to an integer array (np.reciprocal([2]) is [0])"))
                if isinstance(n, ast.BinOp) and isinstance(n.op, ast.FloorDiv):
                    sites.append((n, "floor division"))
                if isinstance(n, ast.BinOp) and isinstance(n.op, ast.Pow) and isinstance(n.right, ast.UnaryOp) and isinstance(n.right.op, ast.USub) and isinstance(n.right.operand, ast.Constant) and isinstance(n.right.operand.value, int) and not float_forced(n.left):
                    sites.append((n, "a negative integer power of an integer array raises / truncates"))
            r.inst({"member": g.qualname, "dtype-sensitive operations": [norm(x[0])[:40] for x in sites]})
            for n, why in sites:
                r.violate(PROP, f"{g.qualname}:int-unsafe:{norm(n)[:40]}", f"{g.qualname} evaluates `{norm(n)[:60]}` on a stored parameter whose dtype is the caller's: {why}, so the member is wrong (silently) for integer-valued parameter arrays while every other member promotes to float", node=n, file=g.file)
    return r


def _pairwise_difference(e):
    """`x[:, None] - x[None, :]` (or the transposed spelling): the vector's text, else None."""
    if isinstance(e, ast.BinOp) and isinstance(e.op, ast.Sub) and isinstance(e.left, ast.Subscript) and isinstance(e.right, ast.Subscript) and norm(e.left.value) == norm(e.right.value):
        a, b = norm(e.left.slice), norm(e.right.slice)
        if {a.replace(" ", "").strip("()"), b.replace(" ", "").strip("()")} == {":,None", "None,:"}:
            return norm(e.left.value)
    return None


def rule_r6(rep, program: Program):
    """Divided differences (f(l_i) - f(l_j)) / (l_i - l_j) over pairs of eigenvalues: the denominator
    vanishes off the diagonal too when the parameter has repeated eigenvalues (a case the property names).
    A protection that only covers the diagonal (np.fill_diagonal, np.eye, np.diag) leaves 0/0 = NaN there;
    the quotient must be replaced wherever the difference itself is (nearly) zero."""
    r = rep.rule("R6", "divided differences over eigenvalue pairs are protected wherever the pairwise difference vanishes (repeated eigenvalues), not only on the diagonal", floor=1)
    for k in program.module("matrices").classes.values():
        for g in k.methods.values():
            if not g.name.startswith("grad_"):
                continue
            defs = {}
            for n in ast.walk(g.node):
                if isinstance(n, ast.Assign) and len(n.targets) == 1 and isinstance(n.targets[0], ast.Name):
                    defs.setdefault(n.targets[0].id, []).append(n.value)
            diffs = {nm: _pairwise_difference(v[0]) for nm, v in defs.items() if len(v) >= 1 and _pairwise_difference(v[0])}
            for n in ast.walk(g.node):
                if not (isinstance(n, ast.BinOp) and isinstance(n.op, ast.Div)):
                    continue
                den = n.right
                nm = den.id if isinstance(den, ast.Name) else None
                vec = diffs.get(nm) if nm else _pairwise_difference(den)
                if vec is None:
                    continue
                # masks computed from the difference array itself
                masks = set()
                for a, vals in defs.items():
                    for v in vals:
                        if isinstance(v, ast.Compare) and any(isinstance(x, ast.Name) and x.id == nm for x in ast.walk(v.left)):
                            masks.add(a)
                        if isinstance(v, ast.Call) and norm(v.func) in ("np.isclose",) and any(isinstance(x, ast.Name) and x.id == nm for x in ast.walk(v)):
                            masks.add(a)
                # is the quotient used only where the mask is false, or the denominator overwritten under the mask?
                protected = False
                # the quotient may be held in a local before it is selected
                q_names = {a for a, vals in defs.items() if any(any(x is n for x in ast.walk(v)) for v in vals)}
                for c in ast.walk(g.node):
                    if isinstance(c, ast.Call) and norm(c.func) == "np.where" and len(c.args) == 3 and isinstance(c.args[0], ast.Name) and c.args[0].id in masks and isinstance(c.args[2], ast.Name) and c.args[2].id in q_names:
                        protected = True
                    if isinstance(c, ast.Call) and norm(c.func) == "np.where" and len(c.args) == 3 and isinstance(c.args[0], ast.Name) and c.args[0].id in masks and any(x is n for x in ast.walk(c.args[2])):
                        protected = True
                    if isinstance(c, ast.Call) and norm(c.func) == "np.where" and len(c.args) == 3 and isinstance(c.args[0], ast.Compare) and any(isinstance(x, ast.Name) and x.id == nm for x in ast.walk(c.args[0])) and any(x is n for x in ast.walk(c.args[2])):
                        protected = True
                    if isinstance(c, ast.Assign) and len(c.targets) == 1 and isinstance(c.targets[0], ast.Subscript) and norm(c.targets[0].value) == nm and isinstance(c.targets[0].slice, ast.Name) and c.targets[0].slice.id in masks:
                        protected = True
                diag_only = any(isinstance(c, ast.Call) and norm(c.func) == "np.fill_diagonal" and c.args and norm(c.args[0]) == nm for c in ast.walk(g.node))
                r.inst({"member": g.qualname, "divided difference over": vec, "protected where the difference vanishes": protected, "diagonal-only protection": diag_only})
                if not protected:
                    r.violate(PROP, f"{g.qualname}:divided-difference:{nm or norm(den)[:30]}", f"{g.qualname} divides by the pairwise differences of `{vec}`" + (" after setting only their diagonal to a non-zero value" if diag_only else "") + ": for a parameter with a repeated eigenvalue an off-diagonal difference is exactly 0 and the entry becomes 0/0 = NaN (the limit there is the derivative of the function being differenced)", node=n, file=g.file)
    return r


def rule_r4(rep, program: Program):
    """Exact form of the gradients in the non-commutative operator algebra (numeric factors, sides and
    transposes included) for the classes whose gradient is a closed operator expression.  Expected
    forms come from matrix calculus (trusted table, M symmetric, x = M^-1 v):
        array parametrisation        M = A          : d log|det| = M^-1            d v'M^-1v = -x x'
        factor parametrisation       M = s F F'     :                              d v'M^-1v = -2 x (F^-1 v)'
        product parametrisation      M = B P B'     : d log|det| = 2 M^-1 B P      d v'M^-1v = -2 x x' B P
        low-rank update              M = A + s U K U': d log|det| = 2 s M^-1 U K   d v'M^-1v = -2 s x x' U K
    LAPACK solves are interpreted by their contracts (cho_solve: c c' if lower else c' c)."""
    import ast

    from ..matalg import Alg, MatEval, NeedSplit, Val
    from ..poly import Rat, sign_atom
    from . import c10

    r = rep.rule("R4", "gradients equal their matrix-calculus form as operator words (factors, sides, transposes; LAPACK solves by contract)", floor=9)
    one = Rat.const(1)

    def setup(cname):
        k = program.cls(cname)
        alg = Alg()
        args, attrs = c10.symbolic_instance(program, k, alg)
        s_ = one
        if cname in ("DenseDefiniteMatrix", "DensePositiveDefiniteMatrix"):
            attrs["self._factor"] = Val("mat", alg.atom("F"))
            s_ = one if cname == "DensePositiveDefiniteMatrix" else sign_atom("s")
            attrs["self._sign"] = Val("scalar", s_)
            D = c10.den(cname, args, alg)
            attrs["<den>"] = D
            attrs["<s>"] = s_
            c10.instance_lemmas(k, alg, args, attrs)
            Minv = alg.mul(alg.inv(alg.T(alg.atom("F"))), alg.inv(alg.atom("F"))).scale(s_)
            attrs["<inv>"] = Minv
        elif cname in ("TriangularFactoredDefiniteMatrix", "TriangularFactoredPositiveDefiniteMatrix"):
            D = c10.den(cname, args, alg)
            attrs["<den>"] = D
            s_ = one if cname.endswith("PositiveDefiniteMatrix") else sign_atom("s")
            attrs["<s>"] = s_
            Fm = attrs["self._factor"].v if "self._factor" in attrs else alg.atom("F")
            Minv = alg.mul(alg.inv(alg.T(Fm)), alg.inv(Fm)).scale(s_)
            attrs["<inv>"] = Minv
        elif cname in c10.LOWRANK:
            # real algebra: M = A + s U K U', Woodbury inverse through the capacitance matrix C
            # (C10 proves that this is what `inv` constructs), lemma U' A^-1 U -> s (C - K^-1)
            s_ = sign_atom("s")
            attrs["self._sign"] = Val("scalar", s_)
            attrs["self._capacitance_matrix"] = Val("mat", alg.atom("C"))
            D = c10.den(cname, args, alg)
            attrs["<den>"] = D
            attrs["<s>"] = s_
            c10.instance_lemmas(k, alg, args, attrs)
            A_ = attrs["self.square_matrix"].v
            Lm, Rm = attrs["self.left_factor_matrix"].v, attrs["self.right_factor_matrix"].v
            Ai = alg.inv(A_)
            Minv = Ai - alg.mul(alg.mul(alg.mul(alg.mul(Ai, Lm), alg.inv(alg.atom("C"))), Rm), Ai).scale(s_)
            attrs["<inv>"] = Minv
        else:
            # the matrix and its inverse are opaque symmetric atoms; parameters keep their own atoms
            alg.sym.add("Mi")
            alg.sym.add("M")
            attrs["<den>"] = alg.atom("M")
            Minv = alg.atom("Mi")
            attrs["<inv>"] = Minv
            s_ = sign_atom("s") if cname in c10.LOWRANK else one
            attrs["<s>"] = s_
            if cname in c10.LOWRANK:
                attrs["self._sign"] = Val("scalar", s_)
        return k, alg, args, attrs, Minv, s_

    def attr_mat(attrs, alg, *names):
        for n in names:
            v = attrs.get(n)
            if v is not None and v.kind == "mat":
                return v.v
            if v is not None and v.kind == "obj":
                return c10.den(v.cls, v.args, alg)
        return None

    table = [
        ("DenseDefiniteMatrix", "array"), ("DensePositiveDefiniteMatrix", "array"),
        ("TriangularFactoredDefiniteMatrix", "factor"), ("TriangularFactoredPositiveDefiniteMatrix", "factor"),
        ("DensePositiveDefiniteProductMatrix", "product"), ("PositiveDefiniteLowRankUpdateMatrix", "lowrank"),
    ]
    for cname, kind in table:
        k, alg, args, attrs, Minv, s_ = setup(cname)
        v = alg.atom("v")
        x = alg.mul(Minv, v)
        want = {}
        if kind == "array":
            want["grad_log_abs_det"] = Minv
            want["grad_quadratic_form_inv"] = alg.mul(x, alg.T(x)).scale(Rat.const(-1))
        elif kind == "factor":
            Fm = attrs["self._factor"].v
            want["grad_quadratic_form_inv"] = alg.mul(x, alg.T(alg.mul(alg.inv(Fm), v))).scale(Rat.const(-2))
        elif kind == "product":
            B = attr_mat(attrs, alg, "self._rect_matrix")
            P = attr_mat(attrs, alg, "self._pos_def_matrix")
            if B is None:
                raise AnalysisError(f"{cname}: rect_matrix has no value in the algebra")
            P = P if P is not None else alg.ident()
            BP = alg.mul(B, P)
            want["grad_log_abs_det"] = alg.mul(Minv, BP).scale(Rat.const(2))
            want["grad_quadratic_form_inv"] = alg.mul(alg.mul(x, alg.T(x)), BP).scale(Rat.const(-2))
        elif kind == "lowrank":
            U = attr_mat(attrs, alg, "self.factor_matrix", "self.left_factor_matrix")
            K = attr_mat(attrs, alg, "self.inner_pos_def_matrix", "self.inner_symmetric_matrix", "self.inner_square_matrix")
            if U is None or K is None:
                raise AnalysisError(f"{cname}: factor / inner matrix have no value in the algebra")
            UK = alg.mul(U, K)
            want["grad_log_abs_det"] = alg.mul(Minv, UK).scale(Rat.const(2) * s_)
            want["grad_quadratic_form_inv"] = alg.mul(alg.mul(x, alg.T(x)), UK).scale(Rat.const(-2) * s_)
        for meth, w in want.items():
            f = k.resolve(meth)
            ev = MatEval(program, k, alg, attrs, c10.den, meth)
            env = {}
            if len(f.params) > 1:
                env[f.params[1]] = Val("mat", v)
            cases = []
            try:
                cases = [({}, val) for _a, val in ev.returns(f, env)]
            except NeedSplit as ns:
                for flag in (True, False):
                    ev.assume = {ns.key: flag}
                    cases += [({ns.key: flag}, val) for _a, val in ev.returns(f, env)]
                ev.assume = {}
            if not cases:
                raise AnalysisError(f"{f.qualname}: no return value")
            for asm, val in cases:
                ev.assume = asm
                got = ev._mat(f, val)
                ok = alg.equal(got, w)
                r.inst({"class": cname, "method": f.qualname, "case": asm, "value": repr(alg.simplify(got))[:100], "ok": ok})
                if not ok:
                    case_txt = f" (with the factor flagged {'lower' if asm.get('cho_lower') else 'upper'}-triangular)" if "cho_lower" in asm else ""
                    r.violate(PROP, f"{f.qualname}[{cname}]:form:{asm}", f"{cname}.{meth}{case_txt} evaluates to {alg.simplify(got)!r} but the derivative with respect to the {kind} parameter is {alg.simplify(w)!r} (matrix calculus; x = M^-1 v): a factor, side, transpose or the convention of a LAPACK solve is wrong", node=f.node, file=f.file)
    # gradients with respect to a triangular factor live in the factor's own triangle: the mask must be
    # oriented by the factor *object* (an array factor was wrapped with the constructor flag; a matrix
    # factor carries its own flag and the constructor flag is ignored for it)
    for cname in ("TriangularFactoredDefiniteMatrix",):
        k = program.cls(cname)
        for meth in ("grad_log_abs_det", "grad_quadratic_form_inv"):
            f = k.resolve(meth)
            for c in ast.walk(f.node):
                if isinstance(c, ast.Call) and norm(c.func) == "_make_array_triangular":
                    flag = next((kw.value for kw in c.keywords if kw.arg == "lower"), c.args[1] if len(c.args) > 1 else None)
                    flag = expand_locals(flag, single_assignment_locals(f.node)) if flag is not None else None
                    ok = flag is not None and norm(flag) in ("self.factor.lower", "self._factor.lower")
                    r.inst({"class": cname, "method": f.qualname, "triangle of the gradient taken from": norm(flag) if flag is not None else None})
                    if not ok:
                        r.violate(PROP, f"{f.qualname}:mask-flag:{norm(flag) if flag is not None else None}", f"{f.qualname} keeps the triangle selected by `{norm(flag) if flag is not None else None}` instead of the factor object's own `lower` flag: for a TriangularMatrix / InverseTriangularMatrix factor (also the ones `inv` and scalar multiples build) the constructor flag is ignored, so the gradient is returned in the wrong triangle", node=c, file=f.file)
    return r


def run(rep, program: Program, tier: str) -> None:
    rep.explanation = (
        "Each gradient expression of the differentiable matrix classes is evaluated in Z2 (parity "
        "under the sign-flip symmetries of its parametrisation) and in Q (homogeneity degree under "
        "scaling of the parameter and of the vector); the chain rule fixes what these must be."
    )
    rep.assumptions = [
        "symmetry / scaling tables (trusted): " + "; ".join(f"{c}: {s}" for c, s, *_ in PARITY),
        "numeric factors, transposes, triangular masking and behaviour at repeated eigenvalues (SoftAbs) are not decided",
    ]
    rep.isolate(rule_r1, rep, program)
    rep.isolate(rule_r2, rep, program)
    rep.isolate(rule_r3, rep, program)
    rep.isolate(rule_r4, rep, program)
    rep.isolate(rule_r5, rep, program)
    rep.isolate(rule_r6, rep, program)
    rep.isolate(rule_r7, rep, program)
    # the Hamiltonian / its flows are evaluated through metric.inv, .sqrt, .log_abs_det of whatever matrix object the
    # metric is: a cache forwarded to a scaled / transposed / inverted matrix must satisfy its defining identity there,
    # or those members describe a different matrix from the one whose array and eigendecomposition the system uses
    # (shared with C10-R5)
    from . import c10

    _n0 = len(rep.rules)
    _r1, _r4, _r5c = c10.rule_algebra(rep, program, relevant=lambda cname, member: False)  # members the algebra cannot evaluate are C10's concern
    rep.rules = rep.rules[:_n0]
    _r = rep.rule("R8", "caches forwarded to derived matrices (capacitance, triangular factor, eigendecomposition, LU) satisfy their defining identity on the new arguments", floor=10)
    _r.instances = _r.exercised = _r5c.instances
    _r.samples = _r5c.samples
    for _fd in _r5c.findings:
        _fd.rule, _fd.prop = "R8", PROP
        _r.findings.append(_fd)
    rep.extra.pop("members_outside_algebra", None)
