"""Abstract runs of the two state-cache decorators of mici.states over the finite token domain of
mverif.absexec: every combination of entry states (absent / invalidated / valid) of the primary and auxiliary
cache keys, result conventions of the wrapped method (bare value, tuple of 1..K components), with and without a
call counter, for both spellings of the decorator arguments, plus a second system object sharing the state.

The records produced here are judged by C18-R4 (memoisation contract) and C09-R6 (transparency protocol)."""

from __future__ import annotations

import ast
import itertools
from collections import Counter

from ..absexec import BUILTINS, Closure, Interp, Obj, PyRaise, Stub, Token, Unsupported
from ..model import Program

ABSENT = "ABSENT"
NONE = "NONE"
VALID = "VALID"


def _module_interp(program: Program) -> Interp:
    m = next(mm for nm, mm in program.modules.items() if nm.split(".")[-1] == "states")
    tree = ast.parse(m.source)
    it = Interp()
    g = it.globals
    mods = {
        "itertools": Obj("itertools", zip_longest=BUILTINS["zip_longest"], chain=BUILTINS["chain"], islice=BUILTINS["islice"]),
        "functools": Obj("functools", wraps=BUILTINS["wraps"]),
        "numpy": _np_stub(),
    }
    for st in tree.body:
        if isinstance(st, ast.FunctionDef):
            g.set(st.name, Closure(st, g, it))
        elif isinstance(st, ast.Import):
            for a in st.names:
                if a.name in mods:
                    g.set(a.asname or a.name, mods[a.name])
        elif isinstance(st, ast.ImportFrom) and st.module in mods:
            for a in st.names:
                if a.name in mods[st.module]._attrs:
                    g.set(a.asname or a.name, mods[st.module]._attrs[a.name])
        elif isinstance(st, ast.Assign) and len(st.targets) == 1 and isinstance(st.targets[0], ast.Name):
            try:
                g.set(st.targets[0].id, it.ev(st.value, g))
            except (Unsupported, PyRaise):
                pass
    return it


def _mk_system(name: str, cls: Obj) -> Obj:
    o = Obj(name, __class__=cls)
    o._id_token = Token(f"id({name})")
    return o


def run_scenarios(program: Program, dname: str):
    """-> list of records {scenario..., outcome...}; raises Unsupported when the decorator leaves the subset."""
    it = _module_interp(program)
    outer = it.globals.lookup(dname)
    cls = Obj("SystemClass", __name__="SystemClass", __qualname__="SystemClass")
    sys_a, sys_b = _mk_system("system_a", cls), _mk_system("system_b", cls)
    records = []
    if dname == "cache_in_state":
        forms = [("varargs", lambda: it.call(outer, ["pos"]), ("pos",), ()), ("varargs2", lambda: it.call(outer, ["pos", "mom"]), ("pos", "mom"), ())]
    else:
        forms = [
            ("tuples", lambda: it.call(outer, [("pos",), ("aux1", "aux2")]), ("pos",), ("aux1", "aux2")),
            ("strings", lambda: it.call(outer, ["pos", "aux1"]), ("pos",), ("aux1",)),
            ("two-deps", lambda: it.call(outer, [("pos", "mom"), ("aux1",)]), ("pos", "mom"), ("aux1",)),
        ]
    for form, mk, deps_decl, aux in forms:
        k = 1 + len(aux)
        # the keys the wrapper uses are whatever it stores a full-length result under, starting from an empty cache
        comps = [Token(f"r{i}") for i in range(k)]
        probe = _run_once(it, mk, sys_a, {}, {d: set() for d in ("pos", "mom", "dir")}, None, tuple(comps) if k > 1 else comps[0])
        if probe["raised"]:
            records.append({"form": form, "probe": True, **probe})
            continue
        inv = {id(v): kk for kk, v in probe["cache"].items()}
        keys = [inv.get(id(c)) for c in comps]
        if any(x is None for x in keys):
            records.append({"form": form, "probe": True, "keys_missing": [i for i, x in enumerate(keys) if x is None], **probe})
            # the primary key at least is needed to set scenarios up
            if keys[0] is None:
                continue
            keys = [x for x in keys if x is not None]
        results = [("bare", Token("res"))] + [(f"tuple{n}", tuple(Token(f"r{i}") for i in range(n))) for n in range(1, k + 1)] if dname != "cache_in_state" else [("bare", Token("res")), ("tuple2", (Token("r0"), Token("r1")))]
        for entry_states in itertools.product((ABSENT, NONE, VALID), repeat=len(keys)):
            for rname, res in results:
                for counted, read_only in ((False, False), (True, False), (False, True)):
                    cache, olds = {}, {}
                    for kk, stt in zip(keys, entry_states):
                        if stt == NONE:
                            cache[kk] = None
                        elif stt == VALID:
                            olds[kk] = cache[kk] = Token(f"old{keys.index(kk)}")
                    deps = {d: (set(cache) if d in deps_decl else set()) for d in ("pos", "mom", "dir")}
                    cc = Counter() if counted else None
                    out = _run_once(it, mk, sys_a, cache, deps, cc, res, read_only=read_only)
                    records.append({"form": form, "declared": deps_decl, "keys": keys, "entries": entry_states, "result": rname, "result_value": res, "counted": counted, "read_only": read_only, "olds": olds, **out})
        # a second system object of the same class on a state that holds the first one's valid entries
        cache = {kk: Token(f"old{i}") for i, kk in enumerate(keys)}
        olds = dict(cache)
        deps = {d: (set(cache) if d in deps_decl else set()) for d in ("pos", "mom", "dir")}
        res = tuple(Token(f"r{i}") for i in range(k)) if k > 1 else Token("res")
        out = _run_once(it, mk, sys_b, cache, deps, None, res)
        records.append({"form": form, "declared": deps_decl, "keys": keys, "other_system": True, "olds": olds, "result_value": res, **out})
        # another method of the same system object
        cache = {kk: Token(f"old{i}") for i, kk in enumerate(keys[:1])}
        olds = dict(cache)
        deps = {d: (set(cache) if d in deps_decl else set()) for d in ("pos", "mom", "dir")}
        out = _run_once(it, mk, sys_a, cache, deps, None, res, method_name="another_method")
        records.append({"form": form, "declared": deps_decl, "keys": keys, "other_method": True, "olds": olds, "result_value": res, **out})
    return records


def _run_once(it: Interp, mk, system, cache, deps, counts, result, method_name="method", read_only=False):
    it.budget = 20000
    method = Stub(method_name, result)
    state = Obj("state", _cache=cache, _dependencies=deps, _call_counts=counts, _read_only=read_only)
    raised, ret = None, None
    try:
        deco = mk()
        wrapper = it.call(deco, [method])
        ret = it.call(wrapper, [system, state])
    except PyRaise as e:
        raised = e.exc_name
    return {"ret": ret, "cache": state._attrs["_cache"], "deps": state._attrs["_dependencies"], "calls": method.calls, "counts": state._attrs["_call_counts"], "raised": raised, "call_args": method.args, "system": system, "state": state}


def _fmt(rec):
    if rec.get("other_system"):
        return f"{rec['form']}: call from a second system object of the same class on a state holding the first one's entries"
    if rec.get("other_method"):
        return f"{rec['form']}: another method of the same system on a state holding this method's entries"
    names = ["primary"] + [f"aux{i}" for i in range(1, len(rec["entries"]))]
    ent = ", ".join(f"{n}={s}" for n, s in zip(names, rec["entries"]))
    return f"{rec['form']}: entries [{ent}], wrapped method returns {rec['result']}" + (", call counter attached" if rec["counted"] else "") + (", read-only state" if rec.get("read_only") else "")


def judge(records, dname: str):
    """-> [(side, key, message)] with side 'memo' (C18: what is evaluated / stored) or 'transparent' (C09: what is
    returned / registered).  One report per distinct key."""
    out = {}

    def add(side, key, msg):
        out.setdefault((side, key), msg)

    with_aux = dname == "cache_in_state_with_aux"
    for rec in records:
        if rec.get("probe"):
            if rec.get("raised"):
                add("transparent", f"raises:{rec['raised']}", f"on an empty cache the wrapper raises {rec['raised']}")
            elif rec.get("keys_missing"):
                which = rec["keys_missing"]
                add("memo", "aux-not-stored" if 0 not in which else "miss-not-stored", f"starting from an empty cache with the wrapped method returning one component per key, component(s) {which} are not in the cache afterwards ({'the primary value' if 0 in which else 'auxiliary outputs returned with the primary value'} not stored)")
            continue
        where = _fmt(rec)
        keys = rec["keys"]
        k0 = keys[0]
        cache, olds = rec["cache"], rec["olds"]
        if rec["raised"]:
            add("transparent", f"raises:{rec['raised']}", f"the wrapper raises {rec['raised']} ({where})")
            continue
        res = rec["result_value"]
        comps = list(res) if (with_aux and isinstance(res, tuple)) else [res]
        if rec.get("other_system") or rec.get("other_method"):
            what = "system object" if rec.get("other_system") else "method"
            if rec["calls"] != 1 or rec["ret"] is not comps[0]:
                add("transparent", f"shared-entry:{what.split()[0]}", f"the call returns `{rec['ret']}` after {rec['calls']} evaluation(s) instead of evaluating its own method: the cache key does not tell this {what} from the one that filled the entry ({where})")
            for kk, v in olds.items():
                if cache.get(kk) is not v:
                    add("memo", f"clobbers-other:{what.split()[0]}", f"the call replaces the valid entry of the other {what} by `{cache.get(kk)}` ({where})")
            continue
        hit = rec["entries"][0] == VALID
        if hit:
            if rec["calls"]:
                add("memo", "unguarded-call", f"the wrapped method is evaluated {rec['calls']} time(s) although a valid value is cached ({where})")
            if rec["ret"] is not olds[k0]:
                add("transparent" if rec["calls"] == 0 else "memo", f"hit-returns:{rec['ret']}", f"on a hit the wrapper returns `{rec['ret']}` instead of the cached value ({where})")
            for kk, v in olds.items():
                if cache.get(kk) is not v and not rec["calls"]:
                    add("memo", "hit-clobbers", f"on a hit the valid entry of key {keys.index(kk)} is replaced by `{cache.get(kk)}` ({where})")
        else:
            if rec["calls"] == 0:
                add("transparent", "marker-not-recognised" if rec["entries"][0] == NONE else "absent-not-evaluated", f"the wrapper returns `{rec['ret']}` without evaluating the wrapped method although the primary entry is {'the invalidation marker None stored by an assignment' if rec['entries'][0] == NONE else 'absent'} ({where})")
                continue
            if rec["calls"] != 1:
                add("memo", f"miss-calls:{rec['calls']}", f"on a miss the wrapped method is evaluated {rec['calls']} times ({where})")
                continue
            if rec["call_args"] != [(rec["system"], rec["state"])]:
                add("transparent", "wrong-arguments", f"the wrapped method is not called with (system, state) ({where})")
            if cache.get(k0) is not comps[0]:
                add("memo", "miss-not-stored", f"on a miss the primary entry holds `{cache.get(k0, 'nothing')}` afterwards rather than the value just evaluated: every later call evaluates the wrapped method again ({where})")
            if rec["ret"] is not comps[0]:
                add("transparent", f"miss-returns:{rec['ret']}", f"on a miss the wrapper returns `{rec['ret']}` rather than the primary value `{comps[0]}` just evaluated ({where})")
            for i, kk in enumerate(keys[1:], 1):
                now = cache.get(kk)
                if i < len(comps):
                    if now is comps[i]:
                        continue
                    if now is None:
                        add("memo", "aux-not-stored", f"auxiliary output {i} returned with the primary value is not written to the cache ({where})")
                    elif now is olds.get(kk):
                        continue  # an equally valid older value was kept
                    else:
                        add("transparent", "aux-mispaired", f"auxiliary key {i} holds `{now}` instead of component {i} of the result ({where})")
                else:
                    if kk in olds and now is not olds[kk]:
                        if now is None:
                            add("memo", "aux-padded", f"the valid entry of auxiliary key {i}, for which the wrapped method returned nothing, is overwritten with the invalidation marker None and has to be evaluated again ({where})")
                        else:
                            add("transparent", "aux-mispaired", f"auxiliary key {i}, for which the wrapped method returned nothing, now holds `{now}` ({where})")
                    elif kk not in olds and now is not None:
                        add("transparent", "aux-mispaired", f"auxiliary key {i}, for which the wrapped method returned nothing, now holds `{now}` ({where})")
        # every entry holding a value is registered under every declared dependency
        for kk, v in cache.items():
            if v is None:
                continue
            for d in rec["declared"]:
                if kk not in rec["deps"].get(d, ()):
                    which = keys.index(kk) if kk in keys else "?"
                    add("transparent", "primary-not-registered" if which == 0 else "aux-keys-not-registered", f"the entry of key {which} holds a value but is not registered under the declared dependency `{d}`: assigning that variable never invalidates it ({where})")
        if rec["counted"] and rec["calls"] and rec["counts"] is not None and sum(rec["counts"].values()) != rec["calls"]:
            add("memo", "count-mismatch", f"the shared call counter records {sum(rec['counts'].values())} evaluation(s) for {rec['calls']} actual one(s) ({where})")
    return [(side, key, msg) for (side, key), msg in out.items()]


def _np_stub():
    """NumPy as far as mici/states.py uses it: array tokens are `np.ndarray` instances; two of them may share memory
    when one is (a view of) the other."""
    from ..absexec import ArrayType, Obj as _Obj, Token as _Token, _builtin as _b

    def may_share(a, b):
        if not (isinstance(a, _Token) and isinstance(b, _Token)):
            return False
        return a is b or a._attrs.get("view_of") is b or b._attrs.get("view_of") is a

    return _Obj("numpy", ndarray=ArrayType, may_share_memory=_b(may_share), shares_memory=_b(may_share))
