"""C02 - every integrator step is time-reversible or fails loudly.

 R1 step() works on a copy and never writes its argument; no subclass overrides step()
 R2 the time passed to _step is exactly state.dir * self.step_size
 R3 the sequence of dynamics sub-steps on the stepped object is palindromic under the
    adjoint pairing (explicit update <-> implicit update of the same variables/derivatives)
 R4 every implicit / retraction sub-step is covered by a complete forward-backward check in
    the block (loop body) that performs it
"""

from __future__ import annotations

import ast

from ..model import Program, call_name, norm
from ..poly import Rat, eval_expr
from ..report import AnalysisError
from ..stepexec import (
    StepExecutor,
    bcss_arguments,
    composition_lists,
    dynamics_sequence,
    is_palindrome,
)

PROP = "C02"


def integrator_runs(program: Program, tier: str):
    """Yield (class, label, events) for every concrete integrator (composition integrators:
    symbolic free coefficients for n = 0..N and both orders)."""
    nmax = 12 if tier == "thorough" else 6
    ks = program.subclasses("Integrator", concrete_only=True)
    if len(ks) < 5:
        raise AnalysisError(f"expected >= 5 concrete integrators, found {len(ks)}")
    for k in ks:
        if k.is_subclass_of("SymmetricCompositionIntegrator"):
            if k.name == "SymmetricCompositionIntegrator":
                for n in range(nmax + 1):
                    for ih in (True, False):
                        free = [Rat.sym(f"c{i}") for i in range(n)]
                        comp = composition_lists(program, free, ih)
                        yield k, f"{k.name}[n_free={n},h1_first={ih}]", StepExecutor(program, k, comp).run(), comp
            else:
                free, ih = bcss_arguments(program, k)
                comp = composition_lists(program, free, ih)
                yield k, k.name, StepExecutor(program, k, comp).run(), comp
        else:
            yield k, k.name, StepExecutor(program, k).run(), None


def rule_r1_r2(rep, program: Program, prop=PROP, ids=("R1", "R2")):
    r1 = rep.rule(ids[0], "Integrator.step integrates a copy of its argument, never writes the argument, returns the copy; no subclass overrides step", floor=6)
    r2 = rep.rule(ids[1], "time argument of _step is exactly state.dir * self.step_size", floor=1)
    f = program.method("Integrator", "step")
    param = f.params[1]
    body = f.body_without_docstring()
    cur = {param: "param"}
    arith: dict = {}  # arithmetic locals (e.g. a named time step)
    step_call = None
    ret = None
    # a try whose handlers only convert one exception type into another (each handler ends in `raise`) does not
    # change the normal path: its body is analysed in place
    flat = []
    for st in body:
        if isinstance(st, ast.Try) and not st.finalbody and all(h.body and isinstance(h.body[-1], ast.Raise) for h in st.handlers):
            flat += list(st.body) + list(st.orelse)
        else:
            flat.append(st)
    body = flat
    for st in body:
        if isinstance(st, ast.If):
            # guard clauses may only raise
            if not all(isinstance(s, (ast.Raise, ast.Assign, ast.Expr)) for s in ast.walk(st) if isinstance(s, ast.stmt) and s is not st):
                raise AnalysisError("Integrator.step: unrecognised guard")
            continue
        if isinstance(st, ast.Assign) and len(st.targets) == 1 and isinstance(st.targets[0], ast.Name):
            v = st.value
            if isinstance(v, ast.Call) and isinstance(v.func, ast.Attribute) and v.func.attr == "copy" and isinstance(v.func.value, ast.Name) and cur.get(v.func.value.id) == "param":
                cur[st.targets[0].id] = f"copy#{st.lineno}"  # which copy: aliases of one copy share the tag
            elif isinstance(v, ast.Name) and v.id in cur:
                cur[st.targets[0].id] = cur[v.id]
            else:
                cur[st.targets[0].id] = "other"
                try:
                    arith[st.targets[0].id] = eval_expr(v, arith)
                except AnalysisError:
                    arith.pop(st.targets[0].id, None)
            continue
        if isinstance(st, ast.Expr) and isinstance(st.value, ast.Call) and call_name(st.value) == "self._step":
            step_call = (st.value, dict(cur), dict(arith))
            continue
        if isinstance(st, ast.Return):
            ret = (st, dict(cur))
            continue
        # any write through the parameter object
        for n in ast.walk(st):
            if isinstance(n, ast.Attribute) and isinstance(n.ctx, ast.Store) and isinstance(n.value, ast.Name) and cur.get(n.value.id) == "param":
                r1.violate(prop, f"Integrator.step:writes-argument:{norm(n)}", "step() writes an attribute of the state it was given", node=n, file=f.file)
    if step_call is None or ret is None:
        raise AnalysisError("Integrator.step: _step call or return not found")
    call, env_at_call, arith_at_call = step_call
    x = call.args[0]
    kind = env_at_call.get(x.id) if isinstance(x, ast.Name) else None
    r1.inst({"site": "Integrator.step", "stepped object": norm(x), "is": kind})
    if not (kind or "").startswith("copy"):
        r1.violate(prop, "Integrator.step:steps-argument-in-place", f"_step is applied to `{norm(x)}`, which is {kind or 'not'} a copy of the argument: the caller's state object is modified in place", node=call, file=f.file)
    rv = ret[0].value
    if not (isinstance(rv, ast.Name) and isinstance(x, ast.Name) and ret[1].get(rv.id, "?") == kind and (kind or "").startswith("copy")):
        r1.violate(prop, f"Integrator.step:returns:{norm(rv)}", "step() does not return the object it integrated", node=ret[0], file=f.file)
    for k in program.subclasses("Integrator"):
        r1.inst({"class": k.name, "step resolved to": k.resolve("step").qualname})
        if k.resolve("step") is not f:
            r1.violate(prop, f"{k.name}.step:override", f"{k.name} overrides step(): the copy-before-step contract is bypassed", node=k.resolve("step").node, file=k.resolve("step").file)
    # R2
    t = eval_expr(call.args[1], arith_at_call)
    want = Rat.sym(f"{norm(x)}.dir") * Rat.sym("self.step_size")
    r2.inst({"time argument": norm(call.args[1]), "normal form": repr(t)})
    if not t.equals(want):
        r2.violate(prop, f"Integrator.step:time={norm(call.args[1])}", f"the time step handed to _step is `{norm(call.args[1])}` (= {t!r}), not state.dir * self.step_size: reversing the direction flag does not reverse the step / the step does not advance step_size", node=call, file=f.file)
    return r1, r2


def rule_r3(rep, program, runs, prop=PROP, rule="R3"):
    r = rep.rule(rule, "dynamics sub-steps on the stepped object form a palindrome under the adjoint pairing, with equal time coefficients", floor=8)
    for k, label, events, _comp in runs:
        seq = dynamics_sequence(events)
        ok, why = is_palindrome(seq)
        r.inst({"integrator": label, "sub-steps": len(seq)}, exercised=len(seq) > 0)
        if any(e.kind == "error" for e in events):
            continue  # reported by C06-R3
        if not ok:
            r.violate(prop, f"{label}:not-palindromic", f"the composition of sub-steps is not symmetric ({why}); Psi(-t) is not the inverse of Psi(t)", node=k.resolve('_step').node, file=k.resolve('_step').file)
    return r


def _walk_blocks(events):
    """Yield each list of sibling events (a block) recursively."""
    yield events
    for e in events:
        if e.kind == "loop":
            yield from _walk_blocks(e.body)


def _impl_sig(e):
    if e.kind == "update" and e.prim == "impl":
        return ("impl", tuple(sorted(zip(e.vars, e.derivs))))
    if e.kind == "retract":
        return ("retract",)
    return None


def analyse_checks(events):
    """Return (valid checks [(sig, block id)], invalid [(event, reason)])."""
    valid, invalid = [], []
    for block in _walk_blocks(events):
        for i, e in enumerate(block):
            if e.kind != "check":
                continue
            info = e.info
            reason = None
            if "norm_terms" not in info:
                reason = "the tested quantity is not a reverse_check_norm(...) of a difference"
            elif not ((info["side"] == "left" and info["op"] in ("Gt", "GtE")) or (info["side"] == "right" and info["op"] in ("Lt", "LtE"))):
                reason = f"the comparison `{info['test']}` raises when the round-trip error is small, not when it is large"
            elif info["bound"] != "self.reverse_check_tol":
                reason = f"compared against `{info['bound']}` instead of self.reverse_check_tol"
            elif info["raises"] != "NonReversibleStepError":
                reason = f"raises {info['raises']} instead of NonReversibleStepError"
            if reason:
                invalid.append((e, reason))
                continue
            terms = info["norm_terms"]
            if not terms:
                invalid.append((e, "the norm argument is not a difference `copy.var - saved value`"))
                continue
            copies = {c.obj: (j, c) for j, c in enumerate(block[:i]) if c.kind == "copy"}
            ys = {t[0] for t in terms}
            if len(ys) != 1 or next(iter(ys)) not in copies:
                invalid.append((e, f"the compared object(s) {sorted(ys)} are not a copy made in the same block as the check (the forward-integrated state is compared with itself or with a stale copy)"))
                continue
            y = next(iter(ys))
            jy, cy = copies[y]
            x = cy.info["src"]
            back = [b for b in block[jy + 1 : i] if b.obj == y and b.kind in ("update", "flow", "retract")]
            back_impl = [b for b in back if _impl_sig(b)]
            if not back_impl:
                invalid.append((e, "no implicit sub-step is applied to the copy between copying and comparing"))
                continue
            # forward ops on x before the copy, back to the previous copy of x / block start
            start = 0
            fwd = [b for b in block[start:jy] if b.obj == x and b.kind in ("update", "flow")]
            # time coefficients: backward == -forward for matching variables / flows
            ok_time = True
            why = ""
            for b in back:
                if b.kind == "flow":
                    fm = [fw for fw in fwd if fw.kind == "flow" and fw.prim == b.prim]
                    if not fm or not (fm[-1].coeff + b.coeff).is_zero():
                        ok_time, why = False, f"{b.prim} on the copy uses time {b.coeff!r}, forward used {fm[-1].coeff if fm else None!r}"
                elif b.kind == "update":
                    for v, d, c in zip(b.vars, b.derivs, b.coeffs):
                        fm = [(fw, cc) for fw in fwd if fw.kind == "update" for vv, dd, cc in zip(fw.vars, fw.derivs, fw.coeffs) if vv == v and dd == d]
                        if not fm or not (fm[-1][1] + c).is_zero():
                            ok_time, why = False, f"backward update of {v} uses coefficient {c!r}, forward used {fm[-1][1] if fm else None!r}"
            if not ok_time:
                invalid.append((e, f"the backward sub-step is not run with the negated forward time ({why})"))
                continue
            # compared variable is solved for by the backward implicit op; reference is the pre-forward value
            solved = set()
            for b in back_impl:
                solved |= set(b.vars) if b.kind == "update" else {"pos"}
            bad_ref = None
            for (_y, var, ref) in terms:
                if var not in solved:
                    bad_ref = f"compares `{var}`, which the backward implicit sub-step does not solve for (it solves {sorted(solved)})"
                if ref[0] == "saved":
                    if ref[1] != x or ref[2] != var:
                        bad_ref = f"reference value is {ref[1]}.{ref[2]}, not the pre-step {x}.{var}"
                    elif not ref[3]:
                        # alias (no copy) of x.var: in-place forward update would have changed it
                        if any(fw.kind == "update" and fw.prim == "expl" and var in fw.vars for fw in fwd):
                            bad_ref = f"reference `{var}` was saved without a copy and is changed by the in-place forward update"
                elif ref[0] == "obj":
                    z = ref[1]
                    zc = [c for j, c in enumerate(block[:jy]) if c.kind == "copy" and c.obj == z and c.info["src"] == x]
                    if not zc:
                        bad_ref = f"reference object {z} is not a pre-step copy of {x}"
                    else:
                        jz = block.index(zc[0])
                        if not any(fw for fw in block[jz + 1 : jy] if fw.obj == x and fw.kind in ("update", "flow")):
                            bad_ref = f"no forward sub-step lies between the reference copy {z} and the round-trip copy"
            if bad_ref:
                invalid.append((e, bad_ref))
                continue
            # the round trip must start from the state the sub-step actually produces: nothing may
            # change the stepped object between taking the copy and the end of the function (or loop body) that performs the check
            late = [b for b in block[jy + 1 :] if b.obj == x and b.kind in ("update", "flow", "retract", "project") and b.stack[: len(e.stack)] == e.stack]
            if late:
                invalid.append((e, f"the stepped state is still changed after the round-trip copy is taken ({late[0].kind} in {late[0].func}): the check runs the backward sub-step from an intermediate state (e.g. an unprojected momentum), not from the state a genuinely reversed step starts from, so it can pass although the returned state does not reverse"))
                continue
            # the backward solve must start from what a genuinely reversed step has available (the
            # forward-stepped value), not from information about the point it is meant to recover
            seeded = [b for b in back_impl if b.kind == "update" and b.info.get("guess", "current") != "current"]
            if seeded:
                g = seeded[0].info["guess"]
                invalid.append((e, f"the backward implicit solve on the copy is started from `{g.split(':', 1)[1]}` instead of the copy's current value: the point the round trip is meant to recover is (by construction) a fixed point of the backward map, so a solve seeded with it converges at once and the check can never fail - a genuinely reversed step, which starts from the stepped state, may converge elsewhere or diverge"))
                continue
            for b in back_impl:
                valid.append((_impl_sig(b), id(block), e))
    return valid, invalid


def rule_r4(rep, program, runs, prop=PROP, rule="R4"):
    r = rep.rule(rule, "every implicit / retraction sub-step on the stepped object is covered by a complete forward-backward reversibility check raising NonReversibleStepError, in the same block", floor=4)
    seen = set()
    for k, label, events, _comp in runs:
        if label in seen:
            continue
        seen.add(label)
        valid, invalid = analyse_checks(events)
        for e, reason in invalid:
            r.inst({"integrator": label, "check": e.func, "valid": False})
            r.violate(prop, f"{e.func}:invalid-check:{reason[:60]}", f"reversibility check in {e.func} is ineffective: {reason}", node=e.node, file=k.module.path)
        for block in _walk_blocks(events):
            for e in block:
                sig = _impl_sig(e)
                if sig is None or e.obj != "S":
                    continue
                if sig[0] == "retract":
                    cov = [v for v in valid if v[0] == sig and v[1] == id(block)]
                else:
                    cov = [v for v in valid if v[0] == sig]
                r.inst({"integrator": label, "implicit sub-step": f"{e.func}:{sig}", "covered_by": [c[2].func for c in cov]})
                if not cov:
                    where = "in the loop body / block that performs it" if sig[0] == "retract" else "anywhere in the step"
                    r.violate(prop, f"{e.func}:{sig[0]}:{'/'.join(v for v,_ in sig[1]) if len(sig)>1 else 'pos'}:unchecked", f"implicit sub-step {sig} in {e.func} has no complete reversibility check {where}: a converged-but-different solution is returned silently instead of raising NonReversibleStepError", node=e.node, file=k.module.path)
    return r


def rule_r10(rep, program: Program):
    """Reversibility is a property of one map Psi_t: the composition of sub-steps a step applies must be the same
    whatever the state.  A handler inside a step that swallows an integrator / solver error and carries on with other
    sub-steps (retry with a smaller step, fall back to another scheme) makes the map depend on where the solver happens to
    converge: Psi_t from z0 but Psi_{t/2} o Psi_{t/2} back from z1 - each branch reversible on its own, the step not."""
    r = rep.rule("R10", "the sub-step composition of a step does not depend on the state: no handler inside an integrator step swallows an integrator / solver error and continues with other sub-steps", floor=4)
    caught = {"ConvergenceError", "IntegratorError", "NonReversibleStepError", "Error", "Exception", "BaseException", "LinAlgError", "ValueError", "RuntimeError"}
    seen = set()
    for k in program.subclasses("Integrator"):
        for c in k.mro:
            for mname, m in c.methods.items():
                if m.qualname in seen or not (mname == "_step" or mname.startswith(("_step_", "_h2_flow", "_project"))):
                    continue
                seen.add(m.qualname)
                tries = [n for n in ast.walk(m.node) if isinstance(n, ast.Try)]
                r.inst({"method": m.qualname, "try statements": len(tries)})
                for t in tries:
                    for h in t.handlers:
                        names = []
                        if h.type is None:
                            names = ["BaseException"]
                        elif isinstance(h.type, ast.Tuple):
                            names = [norm(x).split(".")[-1] for x in h.type.elts]
                        else:
                            names = [norm(h.type).split(".")[-1]]
                        if not set(names) & caught:
                            continue
                        ends_raise = bool(h.body) and isinstance(h.body[-1], ast.Raise)
                        if not ends_raise:
                            r.violate(prop_of(rep), f"{m.qualname}:fallback-after:{','.join(names)}", f"{m.qualname} catches {names} and carries on (`{norm(h.body[0])[:50] if h.body else 'pass'}` ...): which composition of sub-steps a step applies then depends on whether a solve converges from the current state, so the step is no longer one map with Psi_t^-1 = R Psi_t R - n steps forward and n steps back can end away from the start without any error being raised", node=h, file=m.file)
    return r


def prop_of(rep):
    return PROP


def run(rep, program: Program, tier: str) -> None:
    rep.explanation = (
        "Abstract execution of every concrete integrator's _step on a symbolic state and time "
        "step (composition integrators for n = 0..6/12 symbolic free coefficients in both "
        "orders): copy discipline of step(), direction factor, palindromic composition under "
        "the adjoint pairing, and completeness/placement of the forward-backward checks that "
        "guard every implicit or retraction sub-step."
    )
    rep.assumptions = [
        "component flows h1_flow/h2_flow are exact (C07) and therefore self-adjoint",
        "numeric closeness of the round trip (tolerances) is not decided",
        "a cotangent projection after a flow is treated as part of that (self-adjoint) constrained sub-step; the pairing itself is checked by C04-R4",
    ]
    rep.isolate(rule_r10, rep, program)
    runs = list(integrator_runs(program, tier))
    rep.isolate(rule_r1_r2, rep, program)
    rep.isolate(rule_r3, rep, program, runs)
    rep.isolate(rule_r4, rep, program, runs)
    rep.extra["integrator_instances_executed"] = len(runs)
    # the derivative values a step reads are those of the integrator's own system: the state-level cache
    # identifies the system object (shared with C09-R6)
    from . import c09

    rep.isolate(c09.rule_r6, rep, program, prop=PROP, rule="R5")
    # forward and backward steps must use the same flow maps: nothing derived from the metric may be remembered on the
    # system across a change of the metric (a value cached for +dt and recomputed for -dt breaks the round trip) (shared with C07-R5)
    from . import c07

    rep.isolate(c07.rule_r5, rep, program, prop=PROP, rule="R6")
    # "the input state object is never modified": step() works on state.copy() and the flows update the copy in place,
    # so the copy must own its variable arrays (and its cache dict) for every kind of state (shared with C09-R3)
    rep.isolate(c09.rule_r3, rep, program, prop=PROP, rule="R7")
    # a force that accumulates into the cached gradient differs between the closing half-kick of one step and the opening
    # half-kick of the reversed step: the half-kicks no longer cancel (shared with C09-R9)
    rep.isolate(c09.rule_r9, rep, program, prop=PROP, rule="R8")
    # the constrained step keeps a copy of the previous state for its projection; a cached Jacobian that aliases the
    # position array is changed by the in-place flow and the step is no longer reversible (shared with C09-R12)
    rep.isolate(c09.rule_r12, rep, program, prop=PROP, rule="R9")
