"""Exhaustive exploration of the ChainState protocol in the token domain of mverif.absexec.

`mici/states.py` (ChainState and the two cache decorators) is interpreted abstractly - never imported - with
opaque tokens for arrays, results and system objects.  Starting from a fresh state the explorer applies every
operation of the protocol to every reachable abstract configuration (breadth first, until no new configuration
appears): calls of memoised methods with different declared dependencies / auxiliary outputs / result
conventions, assignments of variables, copies (plain and read-only), and a pickle round trip.  Configurations
are identified by a canonical form of the abstract heap in which tokens are named only by their *role*
(current value of variable v in slot s, result valid for slot s, ...), so the space is finite and the closure is
a proof over all histories for the domain (two live state objects).

Every step is compared with the reference semantics of a transparent, efficient memo:

* a call for which the reference holds a valid value must evaluate nothing (C18) and return that value (C09);
* a call for which it does not must evaluate the wrapped method exactly once and return the fresh value -
  returning anything else is a stale result (C09);
* an assignment invalidates exactly the values that depend on the variable; a copy starts with the values of
  its source, owns its variables, and neither side's later assignments affect the other;
* values dropped by a pickle round trip may be re-evaluated, anything kept must stay exact.
"""

from __future__ import annotations

import ast
import os
import copy as _copy
from collections import Counter, deque

from ..absexec import BUILTINS, Closure, ClassObj, Instance, Interp, Obj, PyRaise, Stub, Token, Unsupported
from ..model import Program

METHODS = {
    # name: (declared dependencies, auxiliary outputs, true reads, result convention)
    "m_pos": (("pos",), (), ("pos",), "bare"),
    "m_mom": (("mom",), (), ("mom",), "bare"),
    "m_both": (("pos", "mom"), (), ("pos", "mom"), "bare"),
    "m_aux_t": (("pos",), ("m_pos",), ("pos",), "tuple"),  # returns (value, value of m_pos)
    "m_aux_b": (("pos",), ("m_pos",), ("pos",), "bare"),  # same decorator, user function returns the value only
    "m_fn": (("pos",), (), ("pos",), "callable"),  # a derivative *function* (not pickled)
}
SLOTS = ("X", "Y")


class Finding(Exception):
    def __init__(self, side, key, msg):
        super().__init__(msg)
        self.side, self.key, self.msg = side, key, msg


class World:
    """Implementation heap (abstract) + reference model, for up to two live state objects."""

    def __init__(self):
        self.impl = {}  # slot -> Instance
        self.ref = {}  # slot -> {"vars": {name: token}, "cache": {method: (token, optional)}, "read_only": bool}
        self.history = []
        self.counter = 0

    def clone(self):
        w = World()
        memo = {}
        w.impl = _copy.deepcopy(self.impl, memo)
        w.ref = {s: {"vars": dict(r["vars"]), "cache": {m: (set(t), o) for m, (t, o) in r["cache"].items()}, "read_only": r["read_only"]} for s, r in self.ref.items()}
        w.history = list(self.history)
        w.counter = self.counter
        return w


def module_interp(program: Program):
    m = next(mm for nm, mm in program.modules.items() if nm.split(".")[-1] == "states")
    tree = ast.parse(m.source)
    it = Interp()
    g = it.globals
    mods = {
        "itertools": Obj("itertools", zip_longest=BUILTINS["zip_longest"], chain=BUILTINS["chain"], islice=BUILTINS["islice"]),
        "functools": Obj("functools", wraps=BUILTINS["wraps"]),
        "numpy": _np_stub(),
        "copy": Obj("copy", copy=BUILTINS["copy_copy"], deepcopy=BUILTINS["copy_copy"]),
    }
    for st in tree.body:
        if isinstance(st, (ast.FunctionDef, ast.ClassDef)):
            it.stmt(st, g)
        elif isinstance(st, ast.Import):
            for a in st.names:
                if a.name in mods:
                    g.set(a.asname or a.name, mods[a.name])
        elif isinstance(st, ast.ImportFrom) and st.module in mods:
            for a in st.names:
                if a.name in mods[st.module]._attrs:
                    g.set(a.asname or a.name, mods[st.module]._attrs[a.name])
        elif isinstance(st, ast.Assign) and len(st.targets) == 1 and isinstance(st.targets[0], ast.Name):
            try:
                g.set(st.targets[0].id, it.ev(st.value, g))
            except (Unsupported, PyRaise):
                pass
    return it


class Explorer:
    def __init__(self, program: Program, methods=None, max_states: int = 4000, n_systems: int = 1):
        self.methods = tuple(methods or METHODS)
        self.n_systems = n_systems
        self.it = module_interp(program)
        g = self.it.globals
        self.cls = g.lookup("ChainState")
        if not isinstance(self.cls, ClassObj):
            raise Unsupported("ChainState is not a class")
        cls = Obj("SystemClass", __name__="SystemClass", __qualname__="SystemClass")
        self.systems = []
        for i in range(n_systems):
            sysobj = Obj(f"system{'AB'[i]}", __class__=cls)
            sysobj._id_token = Token(f"id(system{'AB'[i]})")
            self.systems.append(sysobj)
        self.stubs, self.wrappers = {}, {}
        for name in self.methods:
            deps, aux, _reads, _conv = METHODS[name]
            stub = Stub(name if not name.startswith("m_aux") else name, None)
            if aux:
                deco = self.it.call(g.lookup("cache_in_state_with_aux"), [deps, aux])
            else:
                deco = self.it.call(g.lookup("cache_in_state"), list(deps))
            self.stubs[name] = stub
            self.wrappers[name] = self.it.call(deco, [stub])
        self.max_states = max_states
        self.findings = {}
        self.states_seen = 0
        self.steps = 0
        self.truncated = False

    # ------------------------------------------------------------------ operations
    def fresh(self, counted: bool) -> World:
        w = World()
        kw = {"pos": Token("pos#0", array=True), "mom": Token("mom#0", array=True), "dir": 1}
        if counted:
            kw["_call_counts"] = Counter()
        w.impl["X"] = self.it.call(self.cls, [], dict(kw))
        w.ref["X"] = {"vars": dict(kw), "cache": {}, "read_only": False}
        w.ref["X"]["vars"].pop("_call_counts", None)
        return w

    def ops(self, w: World):
        out = []
        for s in w.impl:
            for m in self.methods:
                for i in range(self.n_systems):
                    out.append(("call", m, s, i))
            for v in ("pos", "mom"):
                out.append(("assign", v, s))
            out.append(("inplace", "pos", s))
            other = "Y" if s == "X" else "X"
            out.append(("copy", s, other, False))
            out.append(("copy", s, other, True))
            out.append(("pickle", s))
        return out

    def apply(self, w: World, op):
        it = self.it
        it.budget = 50000
        w.history.append(op)
        kind = op[0]
        if kind == "call":
            _, m, s, si = op
            deps, aux, reads, conv = METHODS[m]
            st, ref = w.impl[s], w.ref[s]
            w.counter += 1
            fresh = Token(f"{m}!{w.counter}", callable=(conv == "callable"))
            fresh_aux = Token(f"m_pos!{w.counter}")
            stub = self.stubs[m]
            stub.calls, stub.args = 0, []
            stub.result = (fresh, fresh_aux) if conv == "tuple" else fresh
            try:
                ret = it.call(self.wrappers[m], [self.systems[si], st])
            except PyRaise as e:
                raise Finding("transparent", f"call-raises:{e.exc_name}", f"calling a memoised method raises {e.exc_name}") from None
            have = ref["cache"].get((m, si))
            if have is not None:
                toks, optional = have
                if stub.calls == 0:
                    if not any(ret is t for t in toks):
                        raise Finding("transparent", "hit-returns-other", f"the call returns `{ret}` although the value valid for the current variables is `{sorted(map(str, toks))}`")
                    ref["cache"][(m, si)] = ({ret}, optional)
                elif optional:
                    self._store(ref, m, si, fresh, fresh_aux, conv, ret, stub)
                else:
                    raise Finding("memo", "valid-value-re-evaluated", f"the wrapped method is evaluated {stub.calls} time(s) although its value for the current variable values was computed before and nothing it depends on has been assigned since")
            else:
                if stub.calls == 0:
                    raise Finding("transparent", "stale-value-returned", f"the call returns `{ret}` without evaluating the wrapped method although no value computed from the current variable values exists (stale or foreign cache entry)")
                self._store(ref, m, si, fresh, fresh_aux, conv, ret, stub)
        elif kind == "assign":
            _, v, s = op
            st, ref = w.impl[s], w.ref[s]
            w.counter += 1
            new = Token(f"{v}#{w.counter}", array=True)
            try:
                it.set_attribute(st, v, new)
            except PyRaise as e:
                if ref["read_only"] and e.exc_name == "ReadOnlyStateError":
                    return
                raise Finding("transparent", f"assign-raises:{e.exc_name}", f"assigning a variable raises {e.exc_name}") from None
            if ref["read_only"]:
                raise Finding("transparent", "read-only-assigned", "assignment to a variable of a read-only state succeeds")
            ref["vars"][v] = new
            for mk in list(ref["cache"]):
                if v in METHODS[mk[0]][2]:
                    del ref["cache"][mk]
            try:
                got = it.getattr(st, v)
            except PyRaise as e:
                raise Finding("transparent", "variable-unreadable", f"reading the variable back raises {e.exc_name}") from None
            if got is not new:
                raise Finding("transparent", "assignment-lost", f"after `state.{v} = x` the state's `{v}` is `{got}`")
        elif kind == "inplace":
            # `state.v += d`: the array is updated in place and the *same object* is assigned back
            _, v, s = op
            st, ref = w.impl[s], w.ref[s]
            if ref["read_only"]:
                return
            tok = ref["vars"][v]
            try:
                it.set_attribute(st, v, it.getattr(st, v))
            except PyRaise as e:
                raise Finding("transparent", f"assign-raises:{e.exc_name}", f"`state.{v} += d` raises {e.exc_name}") from None
            for s2, r2 in w.ref.items():
                if r2["vars"].get(v) is tok:
                    for mk in list(r2["cache"]):
                        if v in METHODS[mk[0]][2]:
                            del r2["cache"][mk]
        elif kind == "copy":
            _, s, d, ro = op
            st, ref = w.impl[s], w.ref[s]
            try:
                new = it.call(it.getattr(st, "copy"), [], {"read_only": True} if ro else {})
            except PyRaise as e:
                raise Finding("transparent", f"copy-raises:{e.exc_name}", f"copy() raises {e.exc_name}") from None
            if not isinstance(new, Instance):
                raise Finding("transparent", "copy-not-a-state", "copy() does not return a state object")
            w.impl[d] = new
            w.ref[d] = {"vars": dict(ref["vars"]), "cache": {m_: (set(t), o) for m_, (t, o) in ref["cache"].items()}, "read_only": ro}
            for v, tok in ref["vars"].items():
                try:
                    got = it.getattr(new, v)
                except PyRaise as e:
                    raise Finding("transparent", "copy-variable-missing", f"the copy has no variable `{v}` ({e.exc_name})") from None
                if isinstance(tok, Token):
                    if got is tok:
                        raise Finding("transparent", f"copy-shares-variable:{'read-only-source' if ref['read_only'] else 'any'}", f"the copy's `{v}` is the very array object of the source state{' (read-only source)' if ref['read_only'] else ''}: an in-place update through one state changes the other behind its cache")
                    if not (isinstance(got, Token) and got._attrs.get("value_of") is _root(tok)):
                        raise Finding("transparent", "copy-variable-value", f"the copy's `{v}` is `{got}`, not a copy of the source's `{tok}`")
                    w.ref[d]["vars"][v] = got
                elif got != tok:
                    raise Finding("transparent", "copy-variable-value", f"the copy's `{v}` is `{got}`, the source's `{tok}`")
            try:
                if it.getattr(new, "_call_counts") is not it.getattr(st, "_call_counts"):
                    raise Finding("memo", "copy-counter-not-shared", "the copy does not share the call counter of its source: evaluations on copies are not counted")
            except PyRaise:
                pass
        elif kind == "pickle":
            _, s = op
            st, ref = w.impl[s], w.ref[s]
            try:
                if "__getstate__" in self.cls.attrs:
                    payload = it.call(it.getattr(st, "__getstate__"), [])
                else:
                    payload = dict(st.dict)
                payload = _pickle_copy(payload)
                new = it.instantiate(self.cls, [], {}, init=False)
                if "__setstate__" in self.cls.attrs:
                    it.call(it.getattr(new, "__setstate__"), [payload])
                else:
                    new.dict.update(payload)
            except PyRaise as e:
                raise Finding("transparent", f"pickle-raises:{e.exc_name}", f"the pickle round trip raises {e.exc_name}") from None
            w.impl[s] = new
            ref["cache"] = {m_: (t, True) for m_, (t, o) in ref["cache"].items()}
            for v, tok in list(ref["vars"].items()):
                try:
                    got = it.getattr(new, v)
                except PyRaise as e:
                    raise Finding("transparent", "pickle-variable-missing", f"after the round trip the state has no variable `{v}` ({e.exc_name})") from None
                if isinstance(tok, Token):
                    if not (isinstance(got, Token) and _root(got) is _root(tok)):
                        raise Finding("transparent", "pickle-variable-value", f"after the round trip `{v}` is `{got}`, not the value of `{tok}`")
                    ref["vars"][v] = got
                elif got != tok:
                    raise Finding("transparent", "pickle-variable-value", f"after the round trip `{v}` is `{got}`, not `{tok}`")

    def _store(self, ref, m, si, fresh, fresh_aux, conv, ret, stub):
        if stub.calls != 1:
            raise Finding("memo", f"evaluated-{stub.calls}-times", f"one call evaluates the wrapped method {stub.calls} times")
        if ret is not fresh:
            raise Finding("transparent", "miss-returns-other", f"after evaluating the wrapped method the call returns `{ret}`, not the value just computed (`{fresh}`)")
        ref["cache"][(m, si)] = ({fresh}, False)
        if conv == "tuple":
            # the auxiliary output is the value of m_pos for the same variables: later requests cost nothing.  An
            # equally valid older value may be kept instead.
            old = ref["cache"].get(("m_pos", si))
            ref["cache"][("m_pos", si)] = ({fresh_aux} | (old[0] if old is not None else set()), False)

    # ------------------------------------------------------------------ canonical form
    def key(self, w: World):
        roles = {}
        for s, r in w.ref.items():
            for v, tok in r["vars"].items():
                if isinstance(tok, Token):
                    roles.setdefault(id(tok), []).append(f"{v}@{s}")
            for (m, si), (toks, opt) in r["cache"].items():
                for tok in toks:
                    roles.setdefault(id(tok), []).append(f"{m}/{si}{'?' if opt else ''}@{s}")
        seen = {}

        def canon(o, depth=0):
            if depth > 12:
                return "..."
            if isinstance(o, Token):
                if id(o) in roles:
                    return "T[" + ",".join(sorted(roles[id(o)])) + "]"
                nm = o._name
                if nm.startswith(("pos#", "mom#", "copy(")):
                    return "T[old-variable]"
                if "!" in nm:
                    return f"T[old-result:{nm.split('!')[0]}{':fn' if o._attrs.get('callable') else ''}]"
                return f"T[{nm}]"
            if isinstance(o, (str, int, bool, type(None))):
                return repr(o)
            if id(o) in seen:
                return f"@{seen[id(o)]}"
            if isinstance(o, Counter):
                seen[id(o)] = len(seen)
                return "C{" + ",".join(sorted(canon(k, depth + 1) for k in o)) + "}" + f"#{seen[id(o)]}"
            if isinstance(o, dict):
                seen[id(o)] = len(seen)
                items = sorted((canon(k, depth + 1), canon(v, depth + 1)) for k, v in o.items())
                return "{" + ",".join(f"{k}:{v}" for k, v in items) + "}" + (f"#{seen[id(o)]}")
            if isinstance(o, (set, frozenset)):
                seen[id(o)] = len(seen)
                return "s{" + ",".join(sorted(canon(x, depth + 1) for x in o)) + "}" + f"#{seen[id(o)]}"
            if isinstance(o, (list, tuple)):
                return "[" + ",".join(canon(x, depth + 1) for x in o) + "]"
            if isinstance(o, Instance):
                seen[id(o)] = len(seen)
                return f"<{o.cls.name}#{seen[id(o)]} " + canon(o.dict, depth + 1) + ">"
            if isinstance(o, Obj):
                return f"O[{o._name}]"
            return f"?{type(o).__name__}"

        parts = []
        for s in SLOTS:
            if s in w.impl:
                parts.append(s + "=" + canon(w.impl[s]))
                r = w.ref[s]
                parts.append("ref:" + ",".join(sorted(f"{m}/{si}{'?' if o else ''}{len(_t)}" for (m, si), (_t, o) in r["cache"].items())) + ("/ro" if r["read_only"] else ""))
        return "|".join(parts)

    # ------------------------------------------------------------------ closure
    def explore(self):
        queue = deque()
        seen = set()
        for counted in (False, True):
            w = self.fresh(counted)
            k = self.key(w)
            if k not in seen:
                seen.add(k)
                queue.append(w)
        while queue:
            w = queue.popleft()
            for op in self.ops(w):
                if len(seen) >= self.max_states:
                    self.truncated = True
                    break
                w2 = w.clone()
                self.steps += 1
                try:
                    self.apply(w2, op)
                except Finding as f:
                    if (f.side, f.key) not in self.findings:
                        self.findings[(f.side, f.key)] = (f.msg, list(w2.history))
                    continue
                k = self.key(w2)
                if k not in seen:
                    seen.add(k)
                    queue.append(w2)
            if self.truncated:
                break
        self.states_seen = len(seen)
        return self


def _root(tok):
    return tok._attrs.get("value_of", tok)


def _pickle_copy(o, memo=None):
    """What unpickling yields for the abstract payload: fresh containers, equal contents; arrays become new
    array objects of the same value, opaque results keep their identity (they are compared by identity only)."""
    memo = {} if memo is None else memo
    if id(o) in memo:
        return memo[id(o)]
    if isinstance(o, Token):
        if o._attrs.get("array"):
            memo[id(o)] = Token(f"copy({o._name})", **{**o._attrs, "value_of": _root(o)})
            return memo[id(o)]
        return o
    if isinstance(o, Counter):
        memo[id(o)] = c = Counter()
        for k, v in o.items():
            c[_pickle_copy(k, memo)] = v
        return c
    if isinstance(o, dict):
        memo[id(o)] = d = {}
        for k, v in o.items():
            d[_pickle_copy(k, memo)] = _pickle_copy(v, memo)
        return d
    if isinstance(o, set):
        memo[id(o)] = s = set()
        for x in o:
            s.add(_pickle_copy(x, memo))
        return s
    if isinstance(o, list):
        memo[id(o)] = lst = []
        lst.extend(_pickle_copy(x, memo) for x in o)
        return lst
    if isinstance(o, tuple):
        return tuple(_pickle_copy(x, memo) for x in o)
    return o


def describe(history) -> str:
    out = []
    for op in history:
        if op[0] == "call":
            out.append(f"{op[1]}({'system' + 'AB'[op[3]] + ', ' if len(op) > 3 else ''}{op[2]})")
        elif op[0] == "assign":
            out.append(f"{op[2]}.{op[1]} = new")
        elif op[0] == "inplace":
            out.append(f"{op[2]}.{op[1]} += d")
        elif op[0] == "copy":
            out.append(f"{op[2]} = {op[1]}.copy({'read_only=True' if op[3] else ''})")
        else:
            out.append(f"{op[1]} = unpickle(pickle({op[1]}))")
    return "; ".join(out)


# method groups explored separately: memoised methods interact only through shared cache keys (an auxiliary output
# and the method it names), so the product over unrelated methods adds configurations but no behaviour
GROUPS = (
    (("m_pos", "m_mom"), 1),
    (("m_pos", "m_aux_t"), 1),
    (("m_pos", "m_aux_b"), 1),
    (("m_both", "m_fn"), 1),
    (("m_mom", "m_aux_t"), 1),
    (("m_pos",), 2),  # two system objects of one class on the same states
    (("m_pos", "m_aux_t"), 2),
)


_PROGRAM = None  # inherited by the forked workers


def _run_group(args):
    grp, n_sys, max_states = args
    ex = Explorer(_PROGRAM, grp, max_states, n_sys).explore()
    return {"methods": grp, "systems": n_sys, "configurations": ex.states_seen, "steps": ex.steps, "closed": not ex.truncated, "findings": [(side, key, msg, describe(h)) for (side, key), (msg, h) in ex.findings.items()]}


def explore_all(program: Program, max_states: int):
    """-> one record per method group (run in parallel processes); raises Unsupported outside the subset."""
    import multiprocessing as mp

    # a cheap probe in this process first: constructs outside the executor's subset surface here
    Explorer(program, ("m_pos",), 50).explore()
    global _PROGRAM
    _PROGRAM = program
    # the two-system auxiliary group has a far larger configuration space than the others (it does not close within
    # 400 000 configurations): it is explored to a bound, the others to their fixed point
    jobs = [(grp, n, min(max_states, 30000) if (n == 2 and len(grp) > 1) else max_states) for grp, n in GROUPS]
    with mp.get_context("fork").Pool(min(len(jobs), 8)) as pool:
        return pool.map(_run_group, jobs)


def rule(rep, program: Program, tier: str, prop: str, rule_id: str, side: str):
    """Shared driver: C09-R11 reports the 'transparent' side, C18-R8 the 'memo' side of the same exploration."""
    title = {
        "transparent": "state protocol closure: over every reachable configuration of two state objects (calls, assignments, copies, read-only copies, pickle round trips, one or two system objects) a memoised call returns the value computed from the current variable values",
        "memo": "state protocol closure: over every reachable configuration of two state objects a value computed before - on this state, on the state it was copied from, or returned as an auxiliary output - is not evaluated again while nothing it depends on has been assigned",
    }[side]
    r = rep.rule(rule_id, title, floor=len(GROUPS))
    from ..absexec import Unsupported as _Unsupported

    program._tier = tier
    closure(program)
    cache = program._stateproto_cache
    if isinstance(cache, Exception):
        for grp, n in GROUPS:
            r.inst({"methods": grp, "systems": n, "explored": f"no - mici/states.py is outside the abstract executor's subset ({cache}); the structural rules R3-R6 decide alone"}, exercised=False)
        r.notes.append(f"abstract exploration unavailable: {cache}")
        return r
    st = next(mm for nm, mm in program.modules.items() if nm.split(".")[-1] == "states")
    seen = set()
    for rec in cache:
        r.inst({"methods": rec["methods"], "systems": rec["systems"], "configurations": rec["configurations"], "transitions": rec["steps"], "closure reached": rec["closed"], "operations": "call (per method, system), assign pos / mom, in-place update of pos assigned back, copy, copy(read_only=True), pickle round trip; two live state objects"})
        for sd, key, msg, hist in rec["findings"]:
            if sd != side or key in seen:
                continue
            seen.add(key)
            r.violate(prop, f"ChainState-protocol:{key}", f"{msg}; shortest history: {hist}", node=None, file=str(st.path), history=hist)
    return r


def _category(hist: str) -> str:
    if "systemB" in hist:
        return "two-systems"
    if "unpickle(" in hist:
        return "pickle"
    if ".copy(" in hist:
        return "copy"
    return "assign"


def closure(program: Program):
    """The exploration records for `program` (cached), or None when states.py is outside the executor's subset."""
    cache = getattr(program, "_stateproto_cache", None)
    if cache is None:
        from ..absexec import Unsupported as _Unsupported

        tier = getattr(program, "_tier", "quick")
        try:
            cache = explore_all(program, int(os.environ.get("MVERIF_STATEPROTO_CAP", "1500")) if tier != "thorough" else 150000)
        except _Unsupported as exc:
            cache = exc
        program._stateproto_cache = cache
    return None if isinstance(cache, Exception) else cache


def category_rule(rep, program: Program, prop: str, rule_id: str, title: str, side: str, categories):
    """A structural rule of the ChainState protocol decided by the closure instead (when it is available):
    reports the closure's findings of the given side whose shortest history falls in `categories`.
    -> the rule object, or None when the closure is unavailable (the caller runs its structural analysis)."""
    recs = closure(program)
    if recs is None:
        return None
    r = rep.rule(rule_id, title + " [decided by the closure of the ChainState protocol over the token domain; the structural analysis is the fallback]", floor=1)
    st = next(mm for nm, mm in program.modules.items() if nm.split(".")[-1] == "states")
    seen = set()
    n = 0
    for rec in recs:
        for sd, key, msg, hist in rec["findings"]:
            if sd != side or _category(hist) not in categories or key in seen:
                continue
            seen.add(key)
            n += 1
            r.violate(prop, f"ChainState-protocol:{key}", f"{msg}; shortest history: {hist}", node=None, file=str(st.path), history=hist)
    r.inst({"decided by": "protocol closure", "groups": len(recs), "configurations": sum(rec["configurations"] for rec in recs), "categories": sorted(categories), "findings": n})
    return r


def _np_stub():
    """NumPy as far as mici/states.py uses it: array tokens are `np.ndarray` instances; two of them may share memory
    when one is (a view of) the other."""
    from ..absexec import ArrayType, Obj as _Obj, Token as _Token, _builtin as _b

    def may_share(a, b):
        if not (isinstance(a, _Token) and isinstance(b, _Token)):
            return False
        return a is b or a._attrs.get("view_of") is b or b._attrs.get("view_of") is a

    return _Obj("numpy", ndarray=ArrayType, may_share_memory=_b(may_share), shares_memory=_b(may_share))
