"""C20 - log-space arithmetic matches real arithmetic without overflow or precision loss.

 R1 domain safety / cancellation: interval abstract interpretation of log1p_exp, log1m_exp,
    log_sum_exp, log_diff_exp over the whole input domain [-inf, max double] (case split on
    sign/infinity cells and operand order): no log/log1p argument outside its domain, no
    inf - inf, no log1p(x) with x within 1/17 of -1 (catastrophic cancellation)
 R2 homomorphism table of the LogRepFloat operators: each dunder maps to the right log-space
    operation with the right argument order / the same comparison; on the LogRepFloat path
    nothing goes through the linear value (.val, comparison with plain numbers) before the
    log-space operation; zero is guarded before log()
"""

from __future__ import annotations

import ast
import math

from ..interval import Analyzer, input_cells, order_feasible
from ..model import Program, canonical_returns, expand_locals, inline_private_helpers, norm, single_assignment_locals
from ..report import AnalysisError

PROP = "C20"

HELPERS1 = {"log1p_exp": False, "log1m_exp": True}  # name -> negative inputs only
HELPERS2 = ("log_sum_exp", "log_diff_exp")


def module_constants(m):
    out = {}
    for k, v in m.constants.items():
        if isinstance(v, ast.Call) and norm(v.func) == "log" and len(v.args) == 1 and isinstance(v.args[0], ast.Constant):
            out[k] = math.log(v.args[0].value)  # a literal of the analysed module, evaluated by the analyser
        elif isinstance(v, ast.Constant) and isinstance(v.value, (int, float)) and not isinstance(v.value, bool):
            out[k] = float(v.value)
    return out


def rule_r1(rep, program: Program):
    r = rep.rule("R1", "interval analysis of the four stable-formula helpers over [-inf, max]: no domain error, no inf-inf, no cancellation zone of log1p", floor=100)
    m = program.module("utils")
    for n in list(HELPERS1) + list(HELPERS2):
        if n not in m.functions:
            raise AnalysisError(f"utils.{n} not found")
    an = Analyzer(m.tree, module_constants(m))
    for name, neg_only in HELPERS1.items():
        for cn, c in input_cells(negative_only=neg_only):
            an.cell = f"{name}({cn})"
            res, _ = an.call(name, [c])
            r.inst({"call": an.cell, "result": repr(res)})
    for name in HELPERS2:
        for n1, c1 in input_cells():
            for n2, c2 in input_cells():
                for o in ("<", "==", ">"):
                    if not order_feasible(c1, o, c2):
                        continue
                    an.cell = f"{name}({n1} {o} {n2})"
                    res, _ = an.call(name, [c1, c2], o)
                    r.inst({"call": an.cell, "result": repr(res)})
    for pr in an.problems:
        f = m.functions[pr.func]
        r.violate(PROP, f"{pr.func}:{pr.kind}:{norm(pr.node)}", f"{pr.what} [input cell {pr.cell}]", node=pr.node, file=f.file)
    # log_sum_exp factors out the larger operand: the correction term is log1p_exp(d) with d <= 0, i.e. in (0, log 2].
    # With d > 0 the term grows like d and is added to the operand it was derived from: val1 + ((val2 - val1) + small)
    # loses val2's low bits to absorption (absolute error eps*|val1| instead of eps*|result|).
    seen_arg = False
    for (caller, callee), obs in an.call_args.items():
        if caller != "log_sum_exp" or callee != "log1p_exp":
            continue
        for cell, text, args in obs:
            seen_arg = True
            x = args[0]
            if x.hi > 0.0:
                node = next((c for c in ast.walk(m.functions["log_sum_exp"].node) if isinstance(c, ast.Call) and norm(c) == text), m.functions["log_sum_exp"].node)
                r.violate(PROP, f"log_sum_exp:correction-argument-positive:{text}", f"`{text}` is evaluated with a positive argument (interval {x!r}) [input cell {cell}]: the larger operand is not the one factored out, so the result is formed as small_operand + ((large - small) + correction) and the large operand's low-order bits are absorbed - sums of weights of very different magnitude lose accuracy (and overflow to inf near the ends of the range)", node=node, file=m.functions["log_sum_exp"].file)
                break
    r.inst({"log_sum_exp correction arguments observed": sum(len(v) for (c1, c2), v in an.call_args.items() if c1 == "log_sum_exp")})
    if not seen_arg:
        raise AnalysisError("log_sum_exp: no call of log1p_exp observed (the accuracy clause has nothing to decide on)")
    # branch reachability (informational): a branch of a stable formula that no input reaches
    dead = []
    for name in list(HELPERS1) + list(HELPERS2):
        for st in ast.walk(m.functions[name].node):
            if isinstance(st, ast.stmt) and not isinstance(st, ast.FunctionDef) and id(st) not in an.reached and not (isinstance(st, ast.Expr) and isinstance(st.value, ast.Constant)):
                dead.append(f"{name}: `{norm(st)[:50]}`")
    if dead:
        r.notes.append("unreachable for every input cell: " + "; ".join(dead))
    rep.extra["interval_evaluations"] = an.n_evals
    return r


CMP = {"__lt__": ast.Lt, "__gt__": ast.Gt, "__le__": ast.LtE, "__ge__": ast.GtE, "__eq__": ast.Eq, "__ne__": ast.NotEq}
LOGOPS = {
    "__mul__": ("binop", ast.Add),
    "__truediv__": ("binop", ast.Sub),
    "__add__": ("call", "log_sum_exp"),
    "__iadd__": ("call", "log_sum_exp"),
    "__sub__": ("call", "log_diff_exp"),
}


def _isinstance_branch(f):
    """(statements / tests evaluated before, If node, statements after) for the first
    `if isinstance(other, LogRepFloat)` - also when it is written as an inverted guard or sits inside
    the arm of an earlier test (canonical form pushes later code into the arms)."""

    def is_inst(t):
        return isinstance(t, ast.Call) and norm(t.func) == "isinstance" and len(t.args) == 2 and norm(t.args[1]) == "LogRepFloat"

    def search(body, before):
        for i, st in enumerate(body):
            if isinstance(st, ast.If) and is_inst(st.test):
                return before + list(body[:i]), st, list(body[i + 1 :])
            if isinstance(st, ast.If) and isinstance(st.test, ast.UnaryOp) and isinstance(st.test.op, ast.Not) and is_inst(st.test.operand):
                # inverted guard: the linear arm comes first
                if st.orelse:
                    synth = ast.copy_location(ast.If(test=st.test.operand, body=list(st.orelse) + list(body[i + 1 :]), orelse=list(st.body)), st)
                    return before + list(body[:i]), synth, []
                if st.body and isinstance(st.body[-1], (ast.Return, ast.Raise)):
                    synth = ast.copy_location(ast.If(test=st.test.operand, body=list(body[i + 1 :]), orelse=list(st.body)), st)
                    return before + list(body[:i]), synth, []
            if isinstance(st, ast.If):
                # an earlier test: look inside its arms; the test itself is evaluated before
                guard = ast.copy_location(ast.Expr(value=st.test), st)
                for arm in (st.body, st.orelse):
                    got = search(list(arm), before + list(body[:i]) + [guard])
                    if got[1] is not None:
                        return got
        return None, None, None

    return search(f.body_without_docstring(), [])


def _canon(f):
    """The method with private helper methods inlined and in value-level normal form (temporaries
    substituted, every path ending in its own return), so that the operator table does not depend on
    how the branches are spelled."""
    import dataclasses

    g = dataclasses.replace(f, node=inline_private_helpers(f, methods=True))
    return dataclasses.replace(g, node=canonical_returns(g.node))


class _CanonMethods(dict):
    def __init__(self, k):
        super().__init__()
        self.k = k

    def get(self, name, default=None):
        f = self.k.methods.get(name)
        return _canon(f) if f is not None else default

    def __getitem__(self, name):
        return _canon(self.k.methods[name])


def rule_r2(rep, program: Program):
    r = rep.rule("R2", "LogRepFloat operator table: log-space operation, argument order and comparison operator per dunder; LogRepFloat path stays in log space; zero guarded before log", floor=19)
    k = program.cls("LogRepFloat")
    cm = _CanonMethods(k)
    for name, (kind, what) in LOGOPS.items():
        f = cm.get(name)
        if f is None:
            raise AnalysisError(f"LogRepFloat.{name} not found")
        other = f.params[1]
        before, ifnode, _after = _isinstance_branch(f)
        if ifnode is None:
            raise AnalysisError(f"LogRepFloat.{name}: isinstance(other, LogRepFloat) branch not found")
        # log-space purity: nothing before the isinstance test may look at `other` numerically
        for st in before:
            for n in ast.walk(st):
                bad = None
                if isinstance(n, ast.Compare) and any(isinstance(x, ast.Name) and x.id == other for x in [n.left, *n.comparators]):
                    bad = f"`{norm(n)}` compares a LogRepFloat operand through its linear value (exp underflows to 0 / overflows to inf)"
                if isinstance(n, ast.Attribute) and n.attr == "val" and isinstance(n.value, ast.Name) and n.value.id == other:
                    bad = f"`{norm(n)}` converts the operand to linear space"
                if bad:
                    r.violate(PROP, f"LogRepFloat.{name}:linear-test-before-log-path:{norm(n)}", f"{bad} before the log-space branch is chosen: weights whose plain value underflows are treated as zero (or overflow) although their logarithm is finite", node=n, file=f.file)
        # the log-space expression
        exprs = []
        for n in ast.walk(ifnode):
            if n in ast.walk(ifnode.test):
                continue
        lbody = ifnode.body
        guard = None
        if name == "__sub__":
            inner = [s for s in lbody if isinstance(s, ast.If)]
            if inner:
                guard = inner[0].test
                lbody = inner[0].body
        found = None
        for s in lbody:
            for n in ast.walk(s):
                if isinstance(n, ast.keyword) and n.arg == "log_val":
                    found = n.value
                if isinstance(n, ast.Assign) and any(norm(t) == "self.log_val" for t in n.targets):
                    found = n.value
        r.inst({"dunder": name, "log-space expr": norm(found), "guard": norm(guard) if guard is not None else None})
        # the log-space result must leave the method as a LogRepFloat (or be stored in self.log_val): a return that
        # reads a linear attribute of the freshly built object (`.val`) or wraps it (float(...)) goes back to linear space
        if found is not None and name != "__iadd__":
            for s_ in lbody:
                for rt in [n for n in ast.walk(s_) if isinstance(n, ast.Return) and n.value is not None]:
                    v = rt.value
                    builds = any(isinstance(n, ast.keyword) and n.arg == "log_val" for n in ast.walk(v))
                    if builds and not (isinstance(v, ast.Call) and norm(v.func) in ("LogRepFloat", "type(self)", "self.__class__")):
                        r.violate(PROP, f"LogRepFloat.{name}:log-result-linearised:{norm(v)[:40]}", f"{name} computes its result in log space but returns `{norm(v)[:60]}`: the value leaves as a plain float, so a result outside the double range becomes inf / 0 (and follow-on arithmetic NaN) although its logarithm is finite", node=rt, file=f.file)
        if found is None:
            r.violate(PROP, f"LogRepFloat.{name}:no-log-space-result", "the LogRepFloat branch does not produce a log-space result (goes through the linear value: overflow / underflow for large magnitudes)", node=ifnode, file=f.file)
            continue
        a, b = "self.log_val", f"{other}.log_val"
        ok = False
        if kind == "binop":
            ok = isinstance(found, ast.BinOp) and isinstance(found.op, what) and norm(found.left) == a and norm(found.right) == b
            if what is ast.Add and isinstance(found, ast.BinOp) and isinstance(found.op, ast.Add) and {norm(found.left), norm(found.right)} == {a, b}:
                ok = True
        else:
            ok = isinstance(found, ast.Call) and norm(found.func) == what and len(found.args) == 2 and norm(found.args[0]) == a and norm(found.args[1]) == b
            if what == "log_sum_exp" and isinstance(found, ast.Call) and norm(found.func) == what and {norm(x) for x in found.args} == {a, b}:
                ok = True
        if not ok:
            r.violate(PROP, f"LogRepFloat.{name}:expr={norm(found)}", f"log-space result `{norm(found)}` is not the image of the operator ({'log a + log b' if what is ast.Add else 'log a - log b' if what is ast.Sub else what + '(log a, log b)'})", node=found, file=f.file)
        if name == "__sub__":
            if guard is not None and norm(guard) in (f"{a} > {b}", f"{b} < {a}"):
                r.violate(PROP, f"LogRepFloat.__sub__:guard-strict={norm(guard)}", "the log-space branch excludes equal operands: the difference of two equal weights falls through to the linear values, and for log values above ~709.78 that is inf - inf = NaN (the property requires differences of equal values without NaN)", node=guard, file=f.file)
            elif guard is None or norm(guard) not in (f"{a} >= {b}", f"{b} <= {a}"):
                r.violate(PROP, f"LogRepFloat.__sub__:guard={norm(guard) if guard is not None else None}", "log_diff_exp is not guarded by self >= other (a negative difference has no log representation)", node=ifnode, file=f.file)
    # __iadd__ with a plain number: log(other) must be guarded against other == 0
    f = cm["__iadd__"]
    other = f.params[1]
    logs = [n for n in ast.walk(f.node) if isinstance(n, ast.Call) and norm(n.func) == "log" and n.args and norm(n.args[0]) == other]
    for n in logs:
        guarded = any(isinstance(t, ast.If) and norm(t.test) in (f"{other} == 0", f"{other} == 0.0", f"{other} != 0", f"{other} != 0.0", f"not {other}") for t in ast.walk(f.node))
        r.inst({"dunder": "__iadd__", "log(other) zero-guarded": guarded})
        if not guarded:
            r.violate(PROP, "LogRepFloat.__iadd__:log-of-zero", "adding the plain number 0 evaluates log(0): math domain error", node=n, file=f.file)
    # comparisons
    for name, op in CMP.items():
        f = cm.get(name)
        if f is None:
            raise AnalysisError(f"LogRepFloat.{name} not found")
        other = f.params[1]
        _b, ifnode, after = _isinstance_branch(f)
        if ifnode is None:
            raise AnalysisError(f"LogRepFloat.{name}: isinstance branch not found")
        rets = [s.value for s in ifnode.body if isinstance(s, ast.Return)]
        lin = [s.value for s in (ifnode.orelse or after) if isinstance(s, ast.Return)]
        r.inst({"dunder": name, "log branch": norm(rets[0]) if rets else None, "linear branch": norm(lin[0]) if lin else None})
        for which, e, la, lb in (("log", rets[0] if rets else None, "self.log_val", f"{other}.log_val"), ("linear", lin[0] if lin else None, "self.val", other)):
            good = isinstance(e, ast.Compare) and len(e.ops) == 1 and isinstance(e.ops[0], op) and norm(e.left) == la and norm(e.comparators[0]) == lb
            if not good and e is not None:
                # any other spelling is decided on the finite set of order types the result can depend on:
                # the expression is folded for representatives of (weight, comparand) and compared with the real order
                good = _same_order(e, op, which, other)
            if not good:
                r.violate(PROP, f"LogRepFloat.{name}:{which}:{norm(e) if e is not None else None}", f"{name} ({which} branch) evaluates `{norm(e) if e is not None else None}` instead of `{la} {op.__name__} {lb}`: comparisons do not order values as their real counterparts", node=e or f.node, file=f.file)
    # reflected / unary operators
    forms = {
        "__radd__": ("self.__add__({o})", "self + {o}", "{o} + self.val", "self.val + {o}"),
        "__rmul__": ("self.__mul__({o})", "self * {o}", "{o} * self.val", "self.val * {o}"),
        "__rtruediv__": ("{o} / self.val",),
        "__rsub__": ("(-self).__radd__({o})", "{o} - self.val", "{o} + -self.val", "-self.val + {o}"),
        "__neg__": ("-self.val",),
    }
    for name, alts in forms.items():
        f = cm.get(name)
        if f is None:
            raise AnalysisError(f"LogRepFloat.{name} not found")
        o = f.params[1] if len(f.params) > 1 else ""
        rets = [n for n in ast.walk(f.node) if isinstance(n, ast.Return)]
        got = norm(rets[0].value) if len(rets) == 1 else None
        r.inst({"dunder": name, "returns": got})
        if got not in {a.format(o=o) for a in alts}:
            r.violate(PROP, f"LogRepFloat.{name}:{got}", f"{name} returns `{got}`, which is not the reflected/unary image of the real operation ({alts[0].format(o=o)})", node=f.node, file=f.file)
    # val: exp with overflow mapped to inf
    f = k.methods["val"]
    ex = [n for n in ast.walk(f.node) if isinstance(n, ast.Call) and norm(n.func) in ("exp", "math.exp", "np.exp")]
    r.inst({"val": [norm(x) for x in ex]})
    vdefs = single_assignment_locals(f.node)
    if not ex or norm(expand_locals(ex[0].args[0], vdefs)) != "self.log_val":
        r.violate(PROP, "LogRepFloat.val:not-exp", "the linear value is not exp(log_val)", node=f.node, file=f.file)
    # constructor: zero -> -inf, positive -> log
    f = k.methods["__init__"]
    logs = [n for n in ast.walk(f.node) if isinstance(n, ast.Call) and norm(n.func) == "log"]
    for n in logs:
        par = [t for t in ast.walk(f.node) if isinstance(t, ast.If) and any(n is x for s in t.body for x in ast.walk(s))]
        tests = [norm(t.test) for t in par]
        ok = any(t in ("val > 0", "val > 0.0", "0 < val") for t in tests)
        r.inst({"constructor log guarded by": tests})
        if not ok:
            r.violate(PROP, "LogRepFloat.__init__:log-unguarded", "log(val) is not guarded by val > 0 (zero weight must map to -inf, not a domain error)", node=n, file=f.file)
    return r


class _NoFold(Exception):
    pass


def _fold_num(e, env):
    """Constant folding over floats for the comparison dunders (comparisons, and/or/not, conditional
    expressions, log / exp, inf)."""
    if isinstance(e, ast.Constant) and isinstance(e.value, (int, float, bool)):
        return e.value
    t = norm(e)
    if t in env:
        return env[t]
    if t in ("inf", "math.inf", "np.inf"):
        return math.inf
    if isinstance(e, ast.UnaryOp) and isinstance(e.op, ast.USub):
        return -_fold_num(e.operand, env)
    if isinstance(e, ast.UnaryOp) and isinstance(e.op, ast.Not):
        return not _fold_num(e.operand, env)
    if isinstance(e, ast.BoolOp):
        if isinstance(e.op, ast.And):
            v = True
            for x in e.values:
                v = _fold_num(x, env)
                if not v:
                    return v
            return v
        v = False
        for x in e.values:
            v = _fold_num(x, env)
            if v:
                return v
        return v
    if isinstance(e, ast.IfExp):
        return _fold_num(e.body if _fold_num(e.test, env) else e.orelse, env)
    if isinstance(e, ast.Compare):
        left = _fold_num(e.left, env)
        for o, c in zip(e.ops, e.comparators):
            right = _fold_num(c, env)
            ok = {ast.Lt: left < right, ast.LtE: left <= right, ast.Gt: left > right, ast.GtE: left >= right, ast.Eq: left == right, ast.NotEq: left != right}.get(type(o))
            if ok is None:
                raise _NoFold
            if not ok:
                return False
            left = right
        return True
    if isinstance(e, ast.Call) and norm(e.func) in ("log", "math.log", "np.log") and len(e.args) == 1:
        v = _fold_num(e.args[0], env)
        if v <= 0:
            raise _NoFold  # domain error / warning: not an accepted way to compare
        return math.log(v)
    if isinstance(e, ast.Call) and norm(e.func) in ("exp", "math.exp", "np.exp") and len(e.args) == 1:
        return math.exp(_fold_num(e.args[0], env))
    raise _NoFold


def _same_order(e, op, which, other) -> bool:
    import operator as _op

    real = {ast.Lt: _op.lt, ast.LtE: _op.le, ast.Gt: _op.gt, ast.GtE: _op.ge, ast.Eq: _op.eq, ast.NotEq: _op.ne}[op]
    weights = (0.0, 0.5, 1.0, 2.0)
    others = (0.0, 0.5, 1.0, 2.0, 3.0) if which == "log" else (-1.0, 0.0, 0.25, 0.5, 1.0, 2.0, 3.0)
    lg = lambda v: -math.inf if v == 0 else math.log(v)  # noqa: E731
    try:
        for w in weights:
            for o in others:
                env = {"self.val": w, "self.log_val": lg(w)}
                if which == "log":
                    env.update({f"{other}.val": o, f"{other}.log_val": lg(o)})
                else:
                    env[other] = o
                if bool(_fold_num(e, env)) != real(w, o):
                    return False
    except (_NoFold, ValueError, OverflowError, ZeroDivisionError, TypeError):
        return False
    return True


def rule_r3(rep, program: Program):
    r = rep.rule("R3", "in-place operators return self (or a fresh object), never one of their operands; binary operators never return or mutate an operand", floor=2)
    k = program.cls("LogRepFloat")
    for name, f in k.methods.items():
        if not (name.startswith("__") and name.endswith("__")) or name in ("__init__", "__str__", "__repr__", "__array__"):
            continue
        inplace = name.startswith("__i") and name not in ("__init__",)
        params = set(f.params[1:])
        rets = [n for n in ast.walk(f.node) if isinstance(n, ast.Return) and n.value is not None]
        for n in rets:
            v = n.value
            if isinstance(v, ast.Name) and v.id in params:
                r.violate(PROP, f"LogRepFloat.{name}:returns-operand:{v.id}", f"{name} returns its operand `{v.id}` itself: the result aliases the operand, so a later in-place accumulation on the result silently changes the operand", node=n, file=f.file)
            if isinstance(v, ast.Name) and v.id == "self" and not inplace:
                # only __iadd__-style methods and no-ops may return self
                pass
        # writes to operand / self state
        for n in ast.walk(f.node):
            if isinstance(n, ast.Attribute) and isinstance(n.ctx, ast.Store) and isinstance(n.value, ast.Name):
                if n.value.id in params:
                    r.violate(PROP, f"LogRepFloat.{name}:mutates-operand:{norm(n)}", f"{name} assigns `{norm(n)}`: the operand is modified", node=n, file=f.file)
                if n.value.id == "self" and not inplace:
                    r.violate(PROP, f"LogRepFloat.{name}:mutates-self:{norm(n)}", f"binary operator {name} assigns `{norm(n)}`: evaluating an expression changes its left operand", node=n, file=f.file)
        if inplace or rets:
            r.inst({"dunder": name, "returns": sorted({norm(x.value) for x in rets})[:3]})
    # the object is updated in place (__iadd__ assigns self.log_val): nothing derived from log_val may be
    # remembered on the object
    k = program.cls("LogRepFloat")
    mutators = [f.qualname for f in k.methods.values() if f.name != "__init__" and any(isinstance(n, (ast.Assign, ast.AugAssign)) and any(norm(t) == "self.log_val" for t in (n.targets if isinstance(n, ast.Assign) else [n.target])) for n in ast.walk(f.node))]
    memo_decos = {"cached_property", "functools.cached_property", "lru_cache", "functools.lru_cache", "cache", "functools.cache"}
    for f in k.methods.values():
        decos = [norm(d.func if isinstance(d, ast.Call) else d) for d in f.node.decorator_list]
        memo = [d for d in decos if d in memo_decos]
        reads = any(norm(n) == "self.log_val" for n in ast.walk(f.node) if isinstance(n, ast.Attribute))
        lazy_store = [n for n in ast.walk(f.node) if f.name not in ("__init__", "__iadd__") and isinstance(n, ast.Assign) and any(isinstance(t, ast.Attribute) and isinstance(t.value, ast.Name) and t.value.id == "self" and t.attr != "log_val" for t in n.targets)]
        if reads:
            r.inst({"member": f.qualname, "memoised": bool(memo or lazy_store)})
        if reads and mutators and (memo or lazy_store):
            how = memo[0] if memo else f"the attribute store `{norm(lazy_store[0])[:40]}`"
            r.violate(PROP, f"{f.qualname}:memoised-on-mutable", f"{f.qualname} remembers a value derived from log_val ({how}) although {mutators[0]} updates log_val in place: after `w.val; w += x` every later read of the plain value (mixed operations, comparisons with numbers, negation) is that of the old weight", node=f.node, file=f.file)
    return r


def run(rep, program: Program, tier: str) -> None:
    rep.explanation = (
        "Interval abstract interpretation (outward-rounded end points, sign/infinity/order case "
        "split) of the stable-formula helpers, and a structural homomorphism table for the "
        "LogRepFloat operators. Decides freedom from domain errors, inf-inf and the log1p "
        "cancellation zone on the whole input domain, and that each operator is the image of the "
        "real operation in log space without detours through the linear value."
    )
    rep.assumptions = [
        "libm exp/expm1/log/log1p are monotone, within one ulp, and expm1 preserves sign",
        "input domain: log-values in [-inf, max double]; +inf log-values are outside the property",
        "ulp-level accuracy beyond the cancellation criterion is not decided",
    ]
    rep.isolate(rule_r1, rep, program)
    rep.isolate(rule_r2, rep, program)
    rep.isolate(rule_r3, rep, program)
