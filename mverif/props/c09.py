"""C09 - state-level caching is transparent.

Decided (structural necessary conditions, see DESIGN.md section 3/C09):
 R1 declared dependencies >= variables read, per (concrete system class, cached method)
 R2 auxiliary outputs: every aux name is a cached method whose reads are covered by the
    primary's declaration (the aux entry is invalidated with the primary's deps)
 R3 copy(): cache dict is copied (not shared), every variable value is copied
 R4 __setattr__: the variable store is followed by clearing the dependent cache keys;
    nobody else writes _variables / _cache
 R5 pickle tables agree (__getstate__ / __setstate__ / __init__)
 R7 no in-place mutation of a state variable array behind __setattr__'s back
"""

from __future__ import annotations

import ast

from ..effects import StateEffects
from ..model import Program, call_name, expand_locals, is_self_attr, loops_to_comprehensions, norm, single_assignment_locals, unroll_constant_loops, inline_private_helpers
from ..report import AnalysisError

PROP = "C09"

CONTROL_SRC = {
    "mici.states": "def cache_in_state(*a):\n    return lambda f: f\n",
    "mici.systems": '''
from mici.states import cache_in_state
class System:
    def __init__(self, f):
        self._f = wrap_function(f, None)
    @cache_in_state("mom")
    def stale(self, state):
        return self._f(state.pos)
    def sample_momentum(self, state, rng):
        state.pos[:] = 0
        return None
''',
}


def system_classes(program: Program):
    ks = program.subclasses("System", concrete_only=True)
    if not ks:
        msg = "no concrete System subclasses found"
        raise AnalysisError(msg)
    return ks


def cached_pairs(program: Program):
    """(K, name, resolved FuncInfo) for every cached method of every concrete system."""
    for k in system_classes(program):
        names = []
        for c in k.mro:
            for n in c.methods:
                if n not in names:
                    names.append(n)
        for n in names:
            f = k.resolve(n)
            if f is not None and f.cache_deps is not None:
                yield k, n, f


def rule_r1(rep, program: Program, se: StateEffects, prop=PROP, rule="R1"):
    r = rep.rule(rule, "declared dependencies cover every state variable read (per concrete class x cached method, resolved under the C3 MRO)", floor=40)
    for k, n, f in cached_pairs(program):
        sp = se.state_params(f)
        if len(sp) != 1:
            msg = f"cached method {f.qualname} does not have exactly one state parameter"
            raise AnalysisError(msg)
        eff = se.effects(k, f, sp[0])
        declared = set(f.cache_deps)
        reads = set(eff.reads)
        r.inst(
            {
                "class": k.name,
                "method": f.qualname,
                "declared": sorted(declared),
                "reads": sorted(reads),
            },
            exercised=bool(reads or declared),
        )
        missing = reads - declared
        if missing:
            r.violate(
                prop,
                f"{f.qualname}:declared={sorted(declared)}:reads={sorted(reads)}",
                f"cached on {sorted(declared)} but its value depends on {sorted(missing)} "
                f"(read chain: {eff.reads[sorted(missing)[0]][0]}) - stale after assigning "
                f"state.{sorted(missing)[0]}; resolved for class {k.name}",
                node=f.node,
                file=f.file,
                declared=sorted(declared),
                reads={v: c[:3] for v, c in eff.reads.items()},
                concrete_class=k.name,
            )
    # de-duplicate findings that differ only by concrete class
    seen = set()
    uniq = []
    for fd in r.findings:
        if fd.key not in seen:
            seen.add(fd.key)
            uniq.append(fd)
    r.findings = uniq
    return r


def rule_r2(rep, program: Program, se: StateEffects):
    r = rep.rule("R2", "auxiliary outputs resolve to cached methods whose reads the primary's declaration covers", floor=8)
    for k, n, f in cached_pairs(program):
        for aux in f.cache_aux:
            g = k.resolve(aux)
            r.inst({"class": k.name, "primary": f.qualname, "aux": aux})
            if g is None:
                # harmless for transparency (entry never read); C18-R3 reports it
                continue
            if g.cache_deps is None:
                continue
            sp = se.state_params(g)
            eff = se.effects(k, g, sp[0]) if sp else None
            reads = set(eff.reads) if eff else set()
            missing = reads - set(f.cache_deps)
            if missing:
                r.violate(
                    PROP,
                    f"{f.qualname}:aux={aux}:missing={sorted(missing)}",
                    f"auxiliary entry '{aux}' is filled by {f.qualname} and invalidated only "
                    f"on {sorted(f.cache_deps)}, but {g.qualname} depends on {sorted(missing)}",
                    node=f.node,
                    file=f.file,
                )
    seen, uniq = set(), []
    for fd in r.findings:
        if fd.key not in seen:
            seen.add(fd.key)
            uniq.append(fd)
    r.findings = uniq
    return r


COPY_FORMS = ("copy.copy", "copy.deepcopy", "np.array", "np.copy", "dict", "numpy.array")


def _is_copy_of(expr: ast.expr, what: str) -> bool:
    """expr is a (shallow) copy of the expression whose normal form is ``what``."""
    if isinstance(expr, ast.Call):
        cn = call_name(expr)
        if isinstance(expr.func, ast.Attribute) and expr.func.attr in ("copy", "__copy__", "__deepcopy__") and norm(expr.func.value) == what:
            return True
        if cn in COPY_FORMS and expr.args and norm(expr.args[0]) == what:
            return True
    if isinstance(expr, ast.Dict) and len(expr.keys) == 1 and expr.keys[0] is None and norm(expr.values[0]) == what:
        return True  # {**what}
    if isinstance(expr, ast.DictComp) and len(expr.generators) == 1:
        g = expr.generators[0]
        if norm(g.iter) == f"{what}.items()" and not g.ifs:
            return True
    return False


def inline_self_call(program: Program, cls_name: str, e):
    """If e is ``self.m()`` and m's body is a single ``return <expr>``, return that expr."""
    if isinstance(e, ast.Call) and is_self_attr(e.func) and not e.args and not e.keywords:
        g = program.cls(cls_name).resolve(e.func.attr)
        if g is not None:
            b = g.body_without_docstring()
            if len(b) == 1 and isinstance(b[0], ast.Return) and b[0].value is not None:
                return b[0].value
    return e


def filtered_copy_of(expr, what: str):
    """expr is a dict comprehension over ``what``.items() that keeps only some entries:
    returns the filter text, else None."""
    if isinstance(expr, ast.DictComp) and len(expr.generators) == 1:
        g = expr.generators[0]
        if norm(g.iter) == f"{what}.items()" and g.ifs:
            return " and ".join(norm(i) for i in g.ifs)
    return None


def rule_r3(rep, program: Program, prop=PROP, rule="R3"):
    from . import stateproto

    alt = stateproto.category_rule(rep, program, prop, rule, "ChainState.copy passes a copy of the cache dict and a copy of every variable value", "transparent", {"copy"})
    if alt is not None:
        return alt
    r = rep.rule(rule, "ChainState.copy passes a copy of the cache dict and a copy of every variable value", floor=2)
    f = program.method("ChainState", "copy")
    calls = [n for n in ast.walk(f.node) if isinstance(n, ast.Call) and norm(n.func) in ("type(self)", "ChainState", "self.__class__")]
    if len(calls) != 1:
        msg = "ChainState.copy: constructor call not found"
        raise AnalysisError(msg)
    call = calls[0]
    kws = {k.arg: k.value for k in call.keywords}
    # cache
    cache = inline_self_call(program, "ChainState", kws.get("_cache"))
    r.inst({"site": "ChainState.copy:_cache", "expr": norm(cache)})
    if cache is not None and filtered_copy_of(cache, "self._cache"):
        pass  # a filtered copy is still an independent dict: transparent (C18-R4 reports the loss)
    elif isinstance(cache, ast.IfExp) and "self._cache" in (norm(cache.body), norm(cache.orelse)):
        shared_when = norm(cache.test) if norm(cache.body) == "self._cache" else f"not ({norm(cache.test)})"
        r.violate(prop, f"ChainState.copy:_cache=shared-when:{shared_when[:40]}", f"copy() shares the cache dict with the original when `{shared_when}`: an assignment to the original marks the shared entries invalid, the next call on either object refills them from that object's variables, and the other object then reads values computed for different variables", node=call, file=f.file)
    elif cache is not None and norm(cache) == "self._cache":
        r.violate(prop, "ChainState.copy:_cache=shared", "copy() shares the cache dict with the original: a recomputation after an assignment on one object overwrites / resurrects entries seen by the other", node=call, file=f.file)
    elif cache is not None and not (_is_copy_of(cache, "self._cache") or isinstance(cache, ast.Dict) or norm(cache) in ("None", "dict()")):
        msg = f"ChainState.copy: unrecognised _cache expression {norm(cache)}"
        raise AnalysisError(msg)
    # variables
    star = kws.get(None)
    if star is None:
        msg = "ChainState.copy: **variables argument not found"
        raise AnalysisError(msg)
    if isinstance(star, ast.Name):
        # the table may be built before the call: by a loop (-> comprehension) or a single assignment
        from ..model import loops_to_comprehensions, single_assignment_locals

        built = loops_to_comprehensions(f.node.body)
        star = built.get(star.id) or single_assignment_locals(f.node).get(star.id, star)
    r.inst({"site": "ChainState.copy:variables", "expr": norm(star)})

    def copies_values(e):
        """True: every value is copied; False: values are shared; None: not recognised"""
        if isinstance(e, ast.DictComp) and len(e.generators) == 1 and norm(e.generators[0].iter) == "self._variables.items()":
            tgt = e.generators[0].target
            if isinstance(tgt, ast.Tuple) and len(tgt.elts) == 2:
                valname = norm(tgt.elts[1])
                if _is_copy_of(e.value, valname):
                    return True
                if norm(e.value) == valname:
                    return False
            return None
        if norm(e) == "self._variables" or _is_copy_of(e, "self._variables"):
            return False  # dict copied at most, values shared
        return None

    arms = [(None, star)]
    if isinstance(star, ast.IfExp):
        arms = [(norm(star.test), star.body), (f"not ({norm(star.test)})", star.orelse)]
    for cond, e in arms:
        ok = copies_values(e)
        if ok is None:
            msg = f"ChainState.copy: unrecognised variables expression {norm(e)}"
            raise AnalysisError(msg)
        if not ok:
            when = f" when `{cond}`" if cond else ""
            r.violate(prop, f"ChainState.copy:variables=shared{':' + cond[:30] if cond else ''}", f"copy() shares the variable arrays with the original{when}: an in-place update (state.mom -= ...) on the copy changes the original (integrator.step works on a copy and updates it in place, so the state it was given is modified) without invalidating its cache", node=call, file=f.file)
    return r


def _clears_cache_entry(st: ast.stmt, keyvar: str) -> bool:
    """st clears self._cache[keyvar]."""
    if isinstance(st, ast.Assign) and len(st.targets) == 1:
        t = st.targets[0]
        if isinstance(t, ast.Subscript) and norm(t.value) == "self._cache" and norm(t.slice) == keyvar:
            return isinstance(st.value, ast.Constant) and st.value.value is None
    if isinstance(st, ast.Delete):
        return any(isinstance(t, ast.Subscript) and norm(t.value) == "self._cache" and norm(t.slice) == keyvar for t in st.targets)
    if isinstance(st, ast.Expr) and isinstance(st.value, ast.Call):
        c = st.value
        if norm(c.func) == "self._cache.pop" and c.args and norm(c.args[0]) == keyvar:
            return True
    return False


def find_invalidation(body: list[ast.stmt], cls, depth=0):
    """Return ('deps', varexpr) for a loop clearing self._cache over
    self._dependencies[<varexpr>], ('all', None) for a whole-cache clear, else None."""
    for st in body:
        if isinstance(st, ast.For) and isinstance(st.target, ast.Name):
            it = st.iter
            # accept list(...)/tuple(...)/sorted(...) wrappers
            while isinstance(it, ast.Call) and norm(it.func) in ("list", "tuple", "sorted", "set") and it.args:
                it = it.args[0]
            if isinstance(it, ast.Subscript) and norm(it.value) == "self._dependencies":
                if any(_clears_cache_entry(s, st.target.id) for s in st.body):
                    return ("deps", norm(it.slice))
            if isinstance(it, ast.Call) and norm(it.func) == "self._dependencies.get" and it.args:
                if any(_clears_cache_entry(s, st.target.id) for s in st.body):
                    return ("deps", norm(it.args[0]))
        if isinstance(st, ast.Expr) and isinstance(st.value, ast.Call):
            cn = norm(st.value.func)
            if cn == "self._cache.clear":
                return ("all", None)
            if is_self_attr(st.value.func) and depth < 2:
                g = cls.resolve(st.value.func.attr)
                if g is not None:
                    res = find_invalidation(g.body_without_docstring(), cls, depth + 1)
                    if res and res[0] == "deps" and st.value.args:
                        # map helper parameter back to the argument
                        ps = g.params[1:]
                        if res[1] in ps:
                            return ("deps", norm(st.value.args[ps.index(res[1])]))
                    if res:
                        return res
        if isinstance(st, ast.Assign) and any(norm(t) == "self._cache" or norm(t) == "self.__dict__['_cache']" for t in st.targets):
            if isinstance(st.value, ast.Dict) and not st.value.keys:
                return ("all", None)
    return None


def setattr_store_site(program: Program):
    f = program.method("ChainState", "__setattr__")
    name_param = f.params[1]
    for parent in ast.walk(f.node):
        for fld in ("body", "orelse"):
            body = getattr(parent, fld, None)
            if not isinstance(body, list):
                continue
            for i, st in enumerate(body):
                if isinstance(st, ast.Assign) and any(
                    isinstance(t, ast.Subscript) and norm(t.value) == "self._variables" and norm(t.slice) == name_param
                    for t in st.targets
                ):
                    return f, name_param, body, i
    msg = "ChainState.__setattr__: store into self._variables[name] not found"
    raise AnalysisError(msg)


def rule_r4(rep, program: Program):
    from . import stateproto

    r = stateproto.category_rule(rep, program, PROP, "R4", "assignment invalidates dependent cache entries; only the state protocol (mici/states.py) writes _variables/_cache", "transparent", {"assign"})
    if r is None:
        r = rep.rule("R4", "assignment invalidates dependent cache entries; only the state protocol writes _variables/_cache", floor=2)
        f, name_param, body, i = setattr_store_site(program)
        r.inst({"site": "ChainState.__setattr__", "store": norm(body[i])})
        rest = []
        for st in body[i + 1 :]:
            if isinstance(st, ast.Return):
                break
            rest.append(st)
        inv = find_invalidation(rest, f.cls)
        # also accept invalidation placed immediately before the store in the same block
        if inv is None:
            inv = find_invalidation(body[:i], f.cls)
        if inv is None:
            r.violate(PROP, "ChainState.__setattr__:no-invalidation", "assigning a state variable does not clear the cache entries that depend on it: every cached method keeps returning the value for the old variable", node=body[i], file=f.file)
        elif inv[0] == "deps" and inv[1] != name_param:
            r.violate(PROP, f"ChainState.__setattr__:invalidates[{inv[1]}]", f"assignment to variable `{name_param}` clears the dependants of `{inv[1]}` instead", node=body[i], file=f.file)
    # who may write the protocol dictionaries: the functions of mici/states.py (the protocol itself, whatever its
    # internal cut into helpers), nobody else
    states_mod = next(mm for nm, mm in program.modules.items() if nm.split(".")[-1] == "states")
    allowed = {
        "ChainState.__init__", "ChainState.__setattr__", "ChainState.__setstate__",
        "cache_in_state", "cache_in_state_with_aux",
    } | {fn.qualname for fn in program.all_functions() if str(fn.file) == str(states_mod.path)}
    n_sites = 0
    for fn in program.all_functions():
        for n in ast.walk(fn.node):
            tgt = None
            if isinstance(n, (ast.Assign, ast.AugAssign, ast.Delete)):
                tgts = n.targets if isinstance(n, (ast.Assign, ast.Delete)) else [n.target]
                for t in tgts:
                    if isinstance(t, ast.Subscript) and isinstance(t.value, ast.Attribute) and t.value.attr in ("_cache", "_variables"):
                        tgt = t
            if isinstance(n, ast.Call) and isinstance(n.func, ast.Attribute) and n.func.attr in ("pop", "clear", "update", "setdefault", "popitem") and isinstance(n.func.value, ast.Attribute) and n.func.value.attr in ("_cache", "_variables"):
                tgt = n
            if tgt is None:
                continue
            n_sites += 1
            owner = fn.qualname
            if owner not in allowed:
                r.violate(PROP, f"{owner}:writes:{norm(tgt)[:60]}", f"{owner} writes the state's private cache/variable dictionary directly ({norm(tgt)[:60]}), bypassing dependency tracking", node=n, file=fn.file)
    r.inst({"who-may-write sites": n_sites})
    return r


def _is_empty_container(v) -> bool:
    return (isinstance(v, ast.Dict) and not v.keys) or (isinstance(v, ast.Call) and norm(v.func) in ("dict", "Counter", "collections.Counter", "set") and not v.args and not v.keywords)


def _is_fresh_container(v) -> bool:
    if _is_empty_container(v):
        return True
    if isinstance(v, ast.DictComp):
        return True
    return isinstance(v, ast.Call) and norm(v.func) in ("dict.fromkeys", "defaultdict", "collections.defaultdict", "Counter")


def rule_r5(rep, program: Program, prop=PROP, rule="R5"):
    from . import stateproto

    alt = stateproto.category_rule(rep, program, prop, rule, "a pickle round trip keeps the variables, and every cached value it keeps stays subject to invalidation", "transparent", {"pickle"})
    if alt is not None:
        return alt
    r = rep.rule(rule, "pickle tables agree: __getstate__ keys/fields = __setstate__ keys/fields = fields set by __init__", floor=5)
    gs = program.method("ChainState", "__getstate__")
    ss = program.method("ChainState", "__setstate__")
    init = program.method("ChainState", "__init__")
    ret = [n for n in ast.walk(gs.node) if isinstance(n, ast.Return)]
    if len(ret) != 1 or not isinstance(ret[0].value, ast.Dict):
        msg = "ChainState.__getstate__: single dict-literal return not found"
        raise AnalysisError(msg)
    d = ret[0].value
    get_map = {}
    filters = {}
    built = loops_to_comprehensions(gs.body_without_docstring())  # e.g. a filtered cache built by a loop
    gs_defs = single_assignment_locals(gs.node)
    for k, v in zip(d.keys, d.values):
        if isinstance(v, ast.Name) and v.id in built:
            v = built[v.id]
        v = expand_locals(v, gs_defs)  # e.g. a filtered cache held in a local and consulted by another value
        if not (isinstance(k, ast.Constant) and isinstance(k.value, str)):
            msg = "ChainState.__getstate__: non-literal key"
            raise AnalysisError(msg)
        v = inline_self_call(program, "ChainState", v)
        methods = set(program.cls("ChainState").methods)
        # the field that is pickled is the one iterated / returned; filters may consult other fields
        root = v
        while isinstance(root, ast.DictComp):
            root = root.generators[0].iter
        if isinstance(root, ast.Call) and isinstance(root.func, ast.Attribute) and root.func.attr in ("items", "copy", "keys", "values"):
            root = root.func.value
        fields = {n.attr for n in ast.walk(root) if is_self_attr(n) and n.attr not in methods}
        if len(fields) != 1:
            msg = f"ChainState.__getstate__: value for {k.value} does not read exactly one field"
            raise AnalysisError(msg)
        filters[k.value] = v
        get_map[k.value] = fields.pop()
    sparam = ss.params[1]
    set_map = {}
    rebuilt: dict[str, ast.expr] = {}  # fields __setstate__ rebuilds instead of restoring
    ss_stmts = _expand_init_call(init, unroll_constant_loops(ss.body_without_docstring()))
    ss_body = ast.Module(body=ss_stmts, type_ignores=[])
    for st in ast.walk(ss_body):
        if isinstance(st, ast.Assign) and len(st.targets) == 1:
            t = st.targets[0]
            fld = None
            if isinstance(t, ast.Subscript) and norm(t.value) == "self.__dict__" and isinstance(t.slice, ast.Constant):
                fld = t.slice.value
            elif is_self_attr(t):
                fld = t.attr
            if fld is None:
                continue
            v = st.value
            if isinstance(v, ast.Subscript) and norm(v.value) == sparam and isinstance(v.slice, ast.Constant):
                set_map[v.slice.value] = fld
            elif _is_fresh_container(v):
                rebuilt[fld] = v
            else:
                msg = f"ChainState.__setstate__: unrecognised value {norm(v)}"
                raise AnalysisError(msg)
    init_fields = set()
    for st in ast.walk(init.node):
        if isinstance(st, ast.Assign):
            for t in st.targets:
                if isinstance(t, ast.Subscript) and norm(t.value) == "self.__dict__" and isinstance(t.slice, ast.Constant):
                    init_fields.add(t.slice.value)
    for k in sorted(set(get_map) | set(set_map)):
        r.inst({"key": k, "getstate_field": get_map.get(k), "setstate_field": set_map.get(k)})
        if k not in get_map:
            r.violate(prop, f"ChainState.pickle:key={k}:missing-in-getstate", f"__setstate__ reads key '{k}' that __getstate__ never writes (unpickling raises KeyError)", node=ss.node, file=ss.file)
        elif k not in set_map and get_map[k] in rebuilt:
            continue  # pickled but deliberately rebuilt: harmless
        elif k not in set_map:
            r.violate(prop, f"ChainState.pickle:key={k}:missing-in-setstate", f"__getstate__ writes key '{k}' ({get_map[k]}) that __setstate__ never restores", node=gs.node, file=gs.file)
        elif get_map[k] != set_map[k]:
            r.violate(prop, f"ChainState.pickle:key={k}:{get_map[k]}->{set_map[k]}", f"pickle round trip stores field {get_map[k]} under '{k}' but restores it into {set_map[k]}", node=ss.node, file=ss.file)
    # keys kept in the pickled cache must keep their dependency registrations
    _check_dependency_filter(r, gs, get_map, filters, prop)
    # rebuilt fields: the variables must come from the pickle; a restored cache needs its restored
    # dependency table (otherwise the restored entries are never invalidated again)
    for fld, v in sorted(rebuilt.items()):
        r.inst({"field rebuilt by __setstate__": fld, "as": norm(v)[:50]})
        if fld == "_variables":
            r.violate(prop, "ChainState.pickle:variables-not-restored", "__setstate__ does not restore the variables from the pickle", node=v, file=ss.file)
        if fld == "_cache" and not _is_empty_container(v):
            raise AnalysisError(f"ChainState.__setstate__: rebuilt cache is not an empty dict: {norm(v)[:50]}")
        if fld == "_dependencies" and "_cache" in set_map.values():
            r.violate(prop, "ChainState.pickle:cache-restored-without-dependencies", "__setstate__ restores the pickled cache but rebuilds an empty dependency table: the decorators find the restored keys in the cache, never register them again, and later assignments no longer invalidate them - stale values", node=v, file=ss.file)
    missing = init_fields - set(set_map.values()) - set(rebuilt)
    for m in sorted(missing):
        r.violate(prop, f"ChainState.pickle:field={m}:not-restored", f"field {m} set by __init__ is not restored by __setstate__ (attribute access recurses / fails after unpickling)", node=ss.node, file=ss.file)
    return r


def _expand_init_call(init, stmts):
    """`self.__init__(k=v, ..., **vars)` inside __setstate__ written out as the field stores __init__ performs
    for those arguments (parameters not passed take their defaults; `if p is None: p = E` is resolved)."""
    import copy as _copy

    out = []
    for st in stmts:
        c = st.value if isinstance(st, ast.Expr) else None
        if not (isinstance(c, ast.Call) and norm(c.func) in ("self.__init__", "type(self).__init__", "ChainState.__init__")):
            out.append(st)
            continue
        a = init.node.args
        env: dict[str, ast.expr] = {}
        for prm, d in zip(a.kwonlyargs, a.kw_defaults):
            env[prm.arg] = d if d is not None else ast.Constant(value=None)
        pos = a.args[1:]
        for prm, d in zip(pos[len(pos) - len(a.defaults):], a.defaults):
            env[prm.arg] = d
        for kw in c.keywords:
            if kw.arg is None:
                if a.kwarg is not None:
                    env[a.kwarg.arg] = kw.value
            else:
                env[kw.arg] = kw.value

        def subst(e):
            class Sub(ast.NodeTransformer):
                def visit_Name(self, n):  # noqa: N802
                    if isinstance(n.ctx, ast.Load) and n.id in env:
                        return _copy.deepcopy(env[n.id])
                    return n

            return Sub().visit(_copy.deepcopy(e))

        for b in init.body_without_docstring():
            if isinstance(b, ast.If) and not b.orelse and isinstance(b.test, ast.Compare) and len(b.test.ops) == 1 and isinstance(b.test.ops[0], ast.Is) and isinstance(b.test.left, ast.Name) and isinstance(b.test.comparators[0], ast.Constant) and b.test.comparators[0].value is None:
                cur = env.get(b.test.left.id)
                if isinstance(cur, ast.Constant) and cur.value is None:
                    for x in b.body:
                        if isinstance(x, ast.Assign) and len(x.targets) == 1 and isinstance(x.targets[0], ast.Name):
                            env[x.targets[0].id] = subst(x.value)
                continue
            if isinstance(b, ast.Assign) and len(b.targets) == 1 and isinstance(b.targets[0], ast.Name):
                env[b.targets[0].id] = subst(b.value)
                continue
            if isinstance(b, ast.Assign) and len(b.targets) == 1 and isinstance(b.targets[0], ast.Subscript) and norm(b.targets[0].value) == "self.__dict__":
                v = subst(b.value)
                # a conditional wrapper around a restored value (Counter(x) if ... else x) restores x
                subs = [n for n in ast.walk(v) if isinstance(n, ast.Subscript) and isinstance(n.slice, ast.Constant) and isinstance(n.value, ast.Name)]
                if not isinstance(v, ast.Subscript) and subs and not _is_fresh_container(v):
                    v = subs[0]
                out.append(ast.fix_missing_locations(ast.copy_location(ast.Assign(targets=[_copy.deepcopy(b.targets[0])], value=v), st)))
                continue
            if isinstance(b, ast.Expr):
                continue
            raise AnalysisError(f"ChainState.__init__: statement outside the grammar when expanding self.__init__(...) in __setstate__: {norm(b)[:60]}")
    return out


def decorator_func(program: Program, dname: str):
    """The cache decorator with private module-level helpers (e.g. an extracted registration step)
    inlined, so that the protocol rules see the statements where they take effect."""
    import dataclasses

    d = program.func("states", dname)
    # value-preserving guards around the stored value (the aliasing guard of fix F23) stay calls: they do not change
    # which keys are stored or when
    smod = next(mm for nm, mm in program.modules.items() if nm.split(".")[-1] == "states")
    guards = frozenset(nm for nm, fn in smod.functions.items() if any(isinstance(c, ast.Call) and call_name(c) in ("np.may_share_memory", "np.shares_memory") for c in ast.walk(fn.node)))
    return dataclasses.replace(d, node=inline_private_helpers(d, keep=guards))


def wrapper_cross_call_state(program: Program):
    """Stores made by the cache wrappers into objects that outlive a call other than the ChainState:
    containers / names of the enclosing decorator scope, module globals, attributes of the system.
    Returns [(decorator name, node, description)]."""
    out = []
    for dname in ("cache_in_state", "cache_in_state_with_aux"):
        d = decorator_func(program, dname)
        wrappers = [n for n in ast.walk(d.node) if isinstance(n, ast.FunctionDef) and n.name == "wrapper"]
        if len(wrappers) != 1:
            raise AnalysisError(f"{dname}: wrapper function not found")
        w = wrappers[0]
        params = {a.arg for a in w.args.posonlyargs + w.args.args + w.args.kwonlyargs}
        local = set(params)
        for n in ast.walk(w):
            if isinstance(n, ast.Name) and isinstance(n.ctx, ast.Store):
                local.add(n.id)
        nonlocal_decl = {nm for n in ast.walk(w) if isinstance(n, (ast.Nonlocal, ast.Global)) for nm in n.names}
        local -= nonlocal_decl
        state_p = [a.arg for a in w.args.args][1] if len(w.args.args) > 1 else "state"
        self_p = [a.arg for a in w.args.args][0] if w.args.args else "self"

        def root(e):
            while isinstance(e, (ast.Subscript, ast.Attribute)):
                e = e.value
            return e.id if isinstance(e, ast.Name) else None

        for n in ast.walk(w):
            tgts = n.targets if isinstance(n, ast.Assign) else [n.target] if isinstance(n, (ast.AugAssign, ast.AnnAssign)) else []
            for t in tgts:
                for tt in (t.elts if isinstance(t, ast.Tuple) else [t]):
                    if isinstance(tt, ast.Name) and tt.id in nonlocal_decl:
                        out.append((dname, n, f"assigns the enclosing-scope name `{tt.id}`"))
                    if isinstance(tt, (ast.Subscript, ast.Attribute)):
                        rt = root(tt)
                        if rt is not None and rt != state_p and (rt not in local or rt == self_p):
                            out.append((dname, n, f"stores into `{norm(tt)[:40]}`, which persists between calls ({'the system object' if rt == self_p else 'enclosing scope'})"))
            if isinstance(n, ast.Call) and isinstance(n.func, ast.Attribute) and n.func.attr in ("append", "extend", "update", "add", "setdefault", "pop", "insert", "clear"):
                rt = root(n.func.value)
                if rt is not None and rt != state_p and (rt not in local or rt == self_p):
                    out.append((dname, n, f"mutates `{norm(n.func.value)[:40]}`, which persists between calls"))
    return out


def rule_r6(rep, program: Program, prop=PROP, rule="R6"):
    PROP = prop  # noqa: N806
    r = rep.rule(rule, "decorator protocol: cache key identifies class, method and system object; every stored key is registered under every declared dependency; the miss test recognises the invalidation marker", floor=6)
    kf = program.func("states", "_cache_key_func")
    rets = [n for n in ast.walk(kf.node) if isinstance(n, ast.Return)]
    v = rets[-1].value if rets else None
    txt = norm(v) if v is not None else ""
    sysp, methp = kf.params[0], kf.params[1]
    has_id = any(isinstance(c, ast.Call) and norm(c.func) == "id" and c.args and norm(c.args[0]) == sysp for c in ast.walk(v)) if v is not None else False
    # names derived from the method parameter (e.g. `name = method if isinstance(method, str) else method.__name__`)
    derived = {methp}
    for _ in range(3):
        for a in ast.walk(kf.node):
            if isinstance(a, ast.Assign) and len(a.targets) == 1 and isinstance(a.targets[0], ast.Name) and derived & {x.id for x in ast.walk(a.value) if isinstance(x, ast.Name)}:
                derived.add(a.targets[0].id)
    has_method = bool(derived & {x.id for x in ast.walk(v) if isinstance(x, ast.Name)}) if v is not None else False
    has_type = f"type({sysp})" in txt or f"{sysp}.__class__" in txt
    r.inst({"cache key": txt, "system identity": has_id, "method": has_method, "class": has_type})
    if not has_id:
        r.violate(PROP, "_cache_key_func:no-system-identity", "the cache key does not contain the identity of the system object: two system objects of one class sharing a state read each other's cached values", node=kf.node, file=kf.file)
    if not has_method:
        r.violate(PROP, "_cache_key_func:no-method", "the cache key does not contain the method name: different methods overwrite each other's entries", node=kf.node, file=kf.file)
    # invalidation marker of __setattr__
    sf, name_param, body, i = setattr_store_site(program)
    marker = None
    for st in ast.walk(sf.node):
        if isinstance(st, ast.Assign) and isinstance(st.targets[0], ast.Subscript) and norm(st.targets[0].value) == "self._cache":
            marker = norm(st.value)
        if isinstance(st, ast.Delete) or (isinstance(st, ast.Expr) and isinstance(st.value, ast.Call) and norm(st.value.func) == "self._cache.pop"):
            marker = marker or "<deleted>"
    from ..absexec import Unsupported
    from . import cachewrap

    for dname in ("cache_in_state", "cache_in_state_with_aux"):
        d = decorator_func(program, dname)
        # abstract runs of the decorator over every combination of entry states, result conventions and callers
        # decide what is returned and registered; the shape clauses below are the fallback outside the subset
        try:
            records = cachewrap.run_scenarios(program, dname)
        except Unsupported as exc:
            r.inst({"decorator": dname, "abstract runs": f"outside the executor's subset ({exc}); falling back to the shape clauses"})
            records = None
        if records is not None:
            verdicts = cachewrap.judge(records, dname)
            for form in sorted({rec["form"] for rec in records}):
                r.inst({"decorator": dname, "argument spelling": form, "abstract runs": sum(1 for rec in records if rec["form"] == form), "reports": [f"{side}:{key}" for side, key, _ in verdicts]})
            for side, key, msg in verdicts:
                if side == "transparent":
                    r.violate(PROP, f"{dname}.wrapper:{key}", msg, node=d.node, file=d.file)
            continue
        ws = [n for n in ast.walk(d.node) if isinstance(n, ast.FunctionDef) and n.name == "wrapper"]
        if len(ws) != 1:
            raise AnalysisError(f"{dname}: wrapper not found")
        w = ws[0]
        sp = w.args.args[1].arg
        # registration: for dep in depends_on: state._dependencies[dep].add(key)
        regs = [n for n in ast.walk(w) if isinstance(n, ast.For) and norm(n.iter) == "depends_on" and any(isinstance(c, ast.Call) and norm(c.func) == f"{sp}._dependencies[{norm(n.target)}].add" for c in ast.walk(n))]
        r.inst({"decorator": dname, "registration loops": len(regs)})
        if not regs:
            r.violate(PROP, f"{dname}.wrapper:no-registration", "cached keys are not registered under the declared dependencies: assigning a variable never invalidates them", node=w, file=d.file)
        else:
            # every key that can be stored must be covered: with aux the registration iterates over all keys
            if dname == "cache_in_state_with_aux":
                outer = [n for n in ast.walk(w) if isinstance(n, ast.For) and any(x is regs[0] for x in ast.walk(n)) and n is not regs[0]]
                over_keys = any(norm(o.iter) in ("keys", "enumerate(keys)") for o in outer)
                r.inst({"decorator": dname, "registration covers primary and auxiliary keys": over_keys})
                if not over_keys:
                    r.violate(PROP, f"{dname}.wrapper:aux-keys-not-registered", "auxiliary cache keys are stored but not registered under the dependencies: auxiliary values survive an assignment of the variable they depend on", node=w, file=d.file)
        # miss test recognises the marker
        tests = [norm(n.test) for n in ast.walk(w) if isinstance(n, ast.If) and any(isinstance(c, ast.Call) and isinstance(c.func, ast.Name) and c.func.id == "method" for s2 in n.body for c in ast.walk(s2))]
        r.inst({"decorator": dname, "miss test": tests, "invalidation marker": marker})
        if marker == "None" and tests and not any("is None" in t for t in tests):
            r.violate(PROP, f"{dname}.wrapper:marker-not-recognised", "__setattr__ invalidates an entry by storing None, but the wrapper's miss test does not treat a None entry as missing: the invalidated entry (None) is returned", node=w, file=d.file)
    # the wrappers keep nothing between calls except in the ChainState: cache keys contain id(system),
    # so anything remembered per class / per decorator is wrong for the next system object
    cross = wrapper_cross_call_state(program)
    r.inst({"cross-call state in the wrappers": [c[2] for c in cross]})
    for dname, node, what in cross:
        r.violate(PROP, f"{dname}.wrapper:cross-call-state:{norm(node)[:40]}", f"the {dname} wrapper {what}: cache keys identify the system object (id(system)), so keys or values remembered across calls are those of whichever system called first - another system object of the same class then reads and writes the wrong cache entries", node=node, file=program.func("states", dname).file)
    return r


def _pred_cases(pred: ast.expr, keyname: str, case: str):
    """Evaluate a filter predicate on a cache key for an entry that IS in the cache with a value of
    kind `case` in {'none', 'value', 'callable'}; returns True/False or raises AnalysisError."""
    if isinstance(pred, ast.UnaryOp) and isinstance(pred.op, ast.Not):
        return not _pred_cases(pred.operand, keyname, case)
    if isinstance(pred, ast.BoolOp):
        vals = [_pred_cases(x, keyname, case) for x in pred.values]
        return all(vals) if isinstance(pred.op, ast.And) else any(vals)
    t = norm(pred)
    val_exprs = (f"self._cache.get({keyname})", f"self._cache[{keyname}]", f"self._cache.get({keyname}, None)")

    def filtered_cache(e):
        """e is `{k: v for k, v in self._cache.items() if ...}`: -> does it keep an entry of kind `case`?"""
        if isinstance(e, ast.DictComp) and len(e.generators) == 1 and norm(e.generators[0].iter) == "self._cache.items()" and isinstance(e.generators[0].target, ast.Tuple) and norm(e.key) == norm(e.generators[0].target.elts[0]) and norm(e.value) == norm(e.generators[0].target.elts[1]):
            g = e.generators[0]
            kn, vn = (norm(x) for x in g.target.elts)
            kept = True
            for cond in g.ifs:
                txt = norm(cond).replace(vn, f"self._cache[{kn}]") if vn in {n.id for n in ast.walk(cond) if isinstance(n, ast.Name)} else norm(cond)
                kept = kept and _pred_cases(ast.parse(txt, mode="eval").body, kn, case)
            return kept
        return None

    # a look-up in a filtered copy of the cache: the entry if the filter keeps it, else absent (None from .get)
    if isinstance(pred, ast.Compare) and len(pred.ops) == 1:
        left = pred.left
        src = None
        if isinstance(left, ast.Call) and isinstance(left.func, ast.Attribute) and left.func.attr == "get" and left.args and norm(left.args[0]) == keyname:
            src = left.func.value
        elif isinstance(left, ast.Subscript) and norm(left.slice) == keyname:
            src = left.value
        kept = filtered_cache(src) if src is not None else None
        if kept is not None and norm(pred.comparators[0]) == "None":
            isnone = (case == "none") or not kept
            return isnone if isinstance(pred.ops[0], (ast.Is, ast.Eq)) else not isnone
        if isinstance(pred.ops[0], (ast.In, ast.NotIn)) and norm(pred.left) == keyname and filtered_cache(pred.comparators[0]) is not None:
            kept = filtered_cache(pred.comparators[0])
            return kept if isinstance(pred.ops[0], ast.In) else not kept
    if isinstance(pred, ast.Compare) and len(pred.ops) == 1:
        l, r_ = norm(pred.left), norm(pred.comparators[0])
        if isinstance(pred.ops[0], ast.In) and l == keyname and r_ == "self._cache":
            return True
        if isinstance(pred.ops[0], ast.NotIn) and l == keyname and r_ == "self._cache":
            return False
        if l in val_exprs and r_ == "None":
            isnone = case == "none"
            return isnone if isinstance(pred.ops[0], (ast.Is, ast.Eq)) else not isnone
    if isinstance(pred, ast.Call) and norm(pred.func) == "callable" and norm(pred.args[0]) in val_exprs:
        return case == "callable"
    raise AnalysisError(f"ChainState.__getstate__: filter predicate outside the grammar: {t[:60]}")


def _check_dependency_filter(r, gs, get_map, filters, prop=PROP):
    dep_key = next((k for k, fld in get_map.items() if fld == "_dependencies"), None)
    cache_key = next((k for k, fld in get_map.items() if fld == "_cache"), None)
    if dep_key is None or cache_key is None:
        return
    dv, cv = filters[dep_key], filters[cache_key]
    # cache filter: which kinds of entries are pickled
    kept_cases = ["none", "value", "callable"]
    if isinstance(cv, ast.DictComp) and cv.generators[0].ifs:
        g = cv.generators[0]
        kn, vn = (norm(x) for x in g.target.elts)
        kept_cases = []
        for case in ("none", "value", "callable"):
            ok = True
            for cond in g.ifs:
                txt = norm(cond).replace(vn, f"self._cache[{kn}]") if vn in {n.id for n in ast.walk(cond) if isinstance(n, ast.Name)} else norm(cond)
                ok = ok and _pred_cases(ast.parse(txt, mode="eval").body, kn, case)
            if ok:
                kept_cases.append(case)
    # dependency filter (possibly nested comprehension over the key sets)
    preds = []
    for n in ast.walk(dv):
        if isinstance(n, (ast.SetComp, ast.ListComp, ast.GeneratorExp, ast.DictComp)) and n is not dv or (n is dv and isinstance(dv, ast.DictComp)):
            for g in n.generators:
                for cond in g.ifs:
                    names = {x.id for x in ast.walk(g.target) if isinstance(x, ast.Name)}
                    preds.append((cond, sorted(names)))
    r.inst({"pickled cache keeps entries of kind": kept_cases, "dependency filter": [norm(p) for p, _ in preds]})
    for cond, names in preds:
        keyname = names[0] if len(names) == 1 else None
        if keyname is None:
            raise AnalysisError("ChainState.__getstate__: dependency filter over a compound target")
        for case in kept_cases:
            if not _pred_cases(cond, keyname, case):
                what = {"none": "an invalidated entry (value None)", "value": "a valid entry", "callable": "a function-valued entry"}[case]
                r.violate(prop, f"ChainState.__getstate__:dependencies-filter:{norm(cond)[:50]}", f"the pickled dependency table drops a key for which the pickled cache still holds {what} (filter `{norm(cond)}`): after unpickling the decorators find the key in the cache, never register it again, and later assignments no longer invalidate it - stale values", node=cond, file=gs.file)
                return


MUTATING_METHODS = {"sort", "fill", "resize", "put", "itemset", "partition"}
STATE_VARS = {"pos", "mom", "dir"}


def _root_state_var(e: ast.expr):
    """If e is <name>.<var> with var a chain-state variable return (name, var)."""
    if isinstance(e, ast.Attribute) and isinstance(e.value, ast.Name) and e.attr in STATE_VARS:
        return (e.value.id, e.attr)
    return None


def inplace_sites(fn) -> list[tuple[ast.AST, str]]:
    """In-place mutations of a chain-state variable array that bypass __setattr__."""
    out = []
    aliases: dict[str, str] = {}  # local name -> 'state.var' it aliases (no copy)
    for st in ast.walk(fn.node):
        if isinstance(st, ast.Assign) and len(st.targets) == 1 and isinstance(st.targets[0], ast.Name):
            rv = _root_state_var(st.value)
            if rv and not rv[0].startswith("self"):
                aliases[st.targets[0].id] = f"{rv[0]}.{rv[1]}"
    # a name that is re-bound to something else anywhere is dropped (flow-insensitive, conservative towards silence)
    for st in ast.walk(fn.node):
        if isinstance(st, ast.Assign):
            for t in st.targets:
                for tt in (t.elts if isinstance(t, ast.Tuple) else [t]):
                    if isinstance(tt, ast.Name) and tt.id in aliases and _root_state_var(st.value) is None:
                        aliases.pop(tt.id, None)

    def targets_state(e):
        rv = _root_state_var(e)
        if rv:
            return f"{rv[0]}.{rv[1]}"
        if isinstance(e, ast.Name) and e.id in aliases:
            return f"{aliases[e.id]} (via alias {e.id})"
        return None

    for n in ast.walk(fn.node):
        if isinstance(n, (ast.Assign, ast.AugAssign)):
            tgts = n.targets if isinstance(n, ast.Assign) else [n.target]
            for t in tgts:
                if isinstance(t, ast.Subscript):
                    w = targets_state(t.value)
                    if w:
                        out.append((n, f"subscript store into {w}"))
                if isinstance(n, ast.AugAssign) and isinstance(t, ast.Name) and t.id in aliases:
                    out.append((n, f"augmented assignment on alias {t.id} of {aliases[t.id]}"))
        if isinstance(n, ast.Call):
            for kw in n.keywords:
                if kw.arg == "out":
                    for e in (kw.value.elts if isinstance(kw.value, ast.Tuple) else [kw.value]):
                        w = targets_state(e)
                        if w:
                            out.append((n, f"out= into {w}"))
            if isinstance(n.func, ast.Attribute) and n.func.attr in MUTATING_METHODS:
                w = targets_state(n.func.value)
                if w:
                    out.append((n, f".{n.func.attr}() on {w}"))
            if call_name(n) in ("np.fill_diagonal", "np.copyto", "np.put", "np.place", "np.putmask") and n.args:
                w = targets_state(n.args[0])
                if w:
                    out.append((n, f"{call_name(n)} on {w}"))
    # `x = state.var; x op= e; state.var = x` is what `state.var op= e` means (load, in-place operator, store through
    # __setattr__): an in-place update through an alias that is assigned back in the same block, with no use of the state
    # object in between, goes through __setattr__ after all
    from ..model import _blocks

    def assigned_back(node) -> bool:
        for block in _blocks(fn.node):
            for i, st in enumerate(block):
                if st is not node:
                    continue
                t = node.target if isinstance(node, ast.AugAssign) else None
                if not (isinstance(t, ast.Name) and t.id in aliases):
                    return False
                state_name, var = aliases[t.id].split(".")
                for later in block[i + 1 :]:
                    if isinstance(later, ast.Assign) and len(later.targets) == 1 and _root_state_var(later.targets[0]) == (state_name, var) and isinstance(later.value, ast.Name) and later.value.id == t.id:
                        return True
                    if any(isinstance(x, ast.Name) and x.id == state_name for x in ast.walk(later)):
                        return False
                return False
        return False

    out = [(n, w) for n, w in out if not assigned_back(n)]
    return out


def param_mutators(program: Program):
    """Functions that mutate an array parameter in place (AugAssign / subscript store on a
    bare parameter name)."""
    out = []
    for fn in program.all_functions():
        if fn.module.name == "mici.states":
            continue
        ps = set(fn.params) - {"self"}
        for n in ast.walk(fn.node):
            if isinstance(n, ast.AugAssign) and isinstance(n.target, ast.Name) and n.target.id in ps:
                # only array-like params matter: skip obvious scalars/counters
                out.append((fn, n.target.id, n))
    return out


def rule_r7(rep, program: Program, control: bool = True, prop=PROP, rule="R7"):
    r = rep.rule(rule, "no in-place mutation of a state variable array that bypasses __setattr__ (subscript store, out=, mutating method, alias +=); parameter-mutating helpers get their result assigned back", floor=2)
    n_funcs = 0
    for fn in program.all_functions():
        if fn.module.name in ("mici.states",):
            continue
        n_funcs += 1
        for node, what in inplace_sites(fn):
            r.violate(prop, f"{fn.qualname}:{norm(node)[:70]}", f"{what}: the array is changed without going through ChainState.__setattr__, so cached values depending on it stay in the cache", node=node, file=fn.file)
    r.inst({"functions scanned": n_funcs})
    # helpers mutating an array parameter: each call site that passes X.var must assign back to X.var
    muts = {}
    for fn, p, n in param_mutators(program):
        muts.setdefault((fn.name, p), (fn, n))
    for (fname, p), (fn, n) in sorted(muts.items()):
        idx = fn.params.index(p) - (1 if fn.cls is not None else 0)
        for caller in program.all_functions():
            for st in ast.walk(caller.node):
                if not isinstance(st, (ast.Assign, ast.Expr, ast.Return, ast.AugAssign)):
                    continue
                for c in ast.walk(st):
                    if isinstance(c, ast.Call) and isinstance(c.func, ast.Attribute) and c.func.attr == fname and len(c.args) > idx:
                        arg = c.args[idx]
                        rv = _root_state_var(arg)
                        if rv is None:
                            continue
                        r.inst({"mutating helper": fn.qualname, "param": p, "call": f"{caller.qualname}: {norm(st)[:80]}"})
                        ok = isinstance(st, ast.Assign) and len(st.targets) == 1 and norm(st.targets[0]) == norm(arg) and st.value is c
                        if not ok and isinstance(st, ast.Assign) and len(st.targets) == 1 and isinstance(st.targets[0], ast.Name) and st.value is c:
                            # result held in a local that is assigned back to the variable afterwards
                            # (before anything else reads the state)
                            loc = st.targets[0].id
                            body_stmts = [x for x in ast.walk(caller.node) if isinstance(x, ast.stmt)]
                            later = [x for x in body_stmts if getattr(x, "lineno", 0) > st.lineno]
                            later.sort(key=lambda x: x.lineno)
                            ok = bool(later) and isinstance(later[0], ast.Assign) and len(later[0].targets) == 1 and norm(later[0].targets[0]) == norm(arg) and isinstance(later[0].value, ast.Name) and later[0].value.id == loc
                        if not ok:
                            r.violate(prop, f"{caller.qualname}:{norm(c)[:70]}", f"{fn.qualname} updates its parameter `{p}` in place; the call passes {norm(arg)} but does not assign the result back to it, so the array changes without invalidating the cache", node=c, file=caller.file)
    if control:
        cp = Program(sources=CONTROL_SRC)
        fired = any(inplace_sites(f) for f in cp.all_functions())
        r.positive_control = fired
    return r


# --------------------------------------------------------------------------- R8: cached aliases
VIEW_METHODS = {"reshape", "ravel", "view", "squeeze", "transpose", "swapaxes", "flatten_view"}
VIEW_FUNCS = {"np.asarray", "np.atleast_1d", "np.atleast_2d", "np.asanyarray", "np.ravel", "np.reshape", "np.squeeze", "np.transpose", "np.broadcast_to"}


def pass_through_classes(program: Program):
    """Matrix classes whose `M @ x` (left) / `x @ M` (right) may return the array x itself rather
    than a new array; least fixed point (a product passes through iff one of its factors may)."""
    base = program.classes.get("Matrix")
    if base is None:
        raise AnalysisError("Matrix base class not found")
    ks = [k for k in program.classes.values() if base in k.mro]
    P = {"_left_matrix_multiply": set(), "_right_matrix_multiply": set()}
    n_bodies = 0
    changed = True
    while changed:
        changed = False
        n_bodies = 0
        for k in ks:
            for meth in P:
                f = k.methods.get(meth)
                if f is None or f.is_abstract:
                    continue
                n_bodies += 1
                if k.name in P[meth]:
                    continue
                if _returns_param(f, P):
                    P[meth].add(k.name)
                    changed = True
    return P, n_bodies


def _returns_param(f, P) -> bool:
    """May a return value of this _left/_right_matrix_multiply be its array parameter itself?"""
    param = f.params[1]
    flags = {param: True}

    def alias(e):
        if isinstance(e, ast.Name):
            return flags.get(e.id, False)
        if isinstance(e, ast.BinOp) and isinstance(e.op, ast.MatMult):
            # matrix @ array: passes through iff some class may pass through on that side;
            # a private attribute (self._array, ...) is a plain ndarray: ndarray @ ndarray is new
            def is_array(x):
                return is_self_attr(x) and x.attr.startswith("_") or isinstance(x, ast.Call) and norm(x.func).startswith("np.")

            return (alias(e.right) and not is_array(e.left) and bool(P["_left_matrix_multiply"])) or (alias(e.left) and not is_array(e.right) and bool(P["_right_matrix_multiply"]))
        if isinstance(e, ast.Attribute) and e.attr == "T":
            return alias(e.value)
        if isinstance(e, ast.Subscript):
            return alias(e.value)
        if isinstance(e, ast.Call) and isinstance(e.func, ast.Attribute) and e.func.attr in VIEW_METHODS:
            return alias(e.func.value)
        if isinstance(e, ast.Call) and norm(e.func) in VIEW_FUNCS and e.args:
            return alias(e.args[0])
        if isinstance(e, ast.IfExp):
            return alias(e.body) or alias(e.orelse)
        return False

    result = []

    def block(stmts):
        for st in stmts:
            if isinstance(st, ast.Assign) and len(st.targets) == 1 and isinstance(st.targets[0], ast.Name):
                flags[st.targets[0].id] = alias(st.value)
            elif isinstance(st, ast.For):
                # documented invariant of the product classes: at least one factor, so the body runs;
                # iterate the body to a fixed point of the flags
                for _ in range(3):
                    block(st.body)
            elif isinstance(st, ast.If):
                before = dict(flags)
                block(st.body)
                a = dict(flags)
                flags.clear()
                flags.update(before)
                block(st.orelse)
                for key in set(a) | set(flags):
                    flags[key] = a.get(key, False) or flags.get(key, False)
            elif isinstance(st, ast.Return) and st.value is not None:
                result.append(alias(st.value))
            elif isinstance(st, (ast.With, ast.Try)):
                block(st.body)

    block(f.body_without_docstring())
    return any(result)


def rule_r8(rep, program: Program, prop=PROP, rule="R8"):
    PROP = prop  # noqa: N806
    r = rep.rule(rule, "a cached value is never (a view of) a state variable array itself: copies share cache entries, so an in-place update of one state's array would change what another state's cache holds", floor=15)
    P, n_bodies = pass_through_classes(program)
    r.inst({"matrix multiply bodies analysed": n_bodies, "left pass-through": sorted(P["_left_matrix_multiply"]), "right pass-through": sorted(P["_right_matrix_multiply"])})
    inplace = []
    for fn in program.all_functions():
        for n in ast.walk(fn.node):
            if isinstance(n, ast.AugAssign) and _root_state_var(n.target):
                inplace.append(f"{fn.qualname}: {norm(n)[:50]}")
    r.inst({"in-place updates of state variables (through the setter)": len(inplace), "sample": inplace[:4]})
    seen = set()
    for k, name, f in cached_pairs(program):
        if f.qualname in seen:
            continue
        seen.add(f.qualname)
        state_p = f.params[1] if len(f.params) > 1 else None
        locals_: dict[str, list[ast.expr]] = {}
        for n in ast.walk(f.node):
            if isinstance(n, ast.Assign) and len(n.targets) == 1 and isinstance(n.targets[0], ast.Name):
                locals_.setdefault(n.targets[0].id, []).append(n.value)

        def alias(e, depth=0, k=k, f=f, state_p=state_p, locals_=locals_):
            """Set of state variables the value of e may alias."""
            if depth > 6:
                return set()
            if isinstance(e, ast.Attribute) and isinstance(e.value, ast.Name) and e.value.id == state_p and not e.attr.startswith("_"):
                return {e.attr}
            if isinstance(e, ast.Name):
                out = set()
                for v in locals_.get(e.id, []):
                    out |= alias(v, depth + 1)
                return out
            if isinstance(e, ast.BinOp) and isinstance(e.op, ast.MatMult):
                out = set()
                if P["_left_matrix_multiply"]:
                    out |= alias(e.right, depth + 1)
                if P["_right_matrix_multiply"]:
                    out |= alias(e.left, depth + 1)
                return out
            if isinstance(e, ast.Attribute) and e.attr == "T":
                return alias(e.value, depth + 1)
            if isinstance(e, ast.Subscript):
                return alias(e.value, depth + 1)
            if isinstance(e, ast.Call) and isinstance(e.func, ast.Attribute) and e.func.attr in VIEW_METHODS:
                return alias(e.func.value, depth + 1)
            if isinstance(e, ast.Call) and norm(e.func) in VIEW_FUNCS and e.args:
                return alias(e.args[0], depth + 1)
            if isinstance(e, ast.IfExp):
                return alias(e.body, depth + 1) | alias(e.orelse, depth + 1)
            if isinstance(e, ast.Tuple):
                out = set()
                for x in e.elts:
                    out |= alias(x, depth + 1)
                return out
            return set()

        rets = [n for n in ast.walk(f.node) if isinstance(n, ast.Return) and n.value is not None]
        al = set()
        where = None
        for rt in rets:
            a = alias(rt.value)
            if a:
                al |= a
                where = where or rt
        r.inst({"cached method": f.qualname, "may alias": sorted(al)})
        if al and inplace:
            via = " (through a matrix product that returns its operand for " + "/".join(sorted(P["_left_matrix_multiply"] | P["_right_matrix_multiply"])) + ")" if not (isinstance(where.value, ast.Attribute) and norm(where.value).startswith(f"{state_p}.")) else ""
            r.violate(PROP, f"{f.qualname}:caches-alias-of:{','.join(sorted(al))}", f"{f.qualname} caches `{norm(where.value)}`, which may be the array object of state variable {sorted(al)} itself{via}: ChainState.copy() copies the variables but shares cache entries, so after `c = s.copy()` an in-place update of s ({inplace[0]} and {len(inplace) - 1} more sites) silently changes the value cached in c - it no longer equals a from-scratch evaluation on c", node=where, file=f.file)
    return r


def rule_r9(rep, program: Program, prop=PROP, rule="R9"):
    """A value returned by a state-cached method *is* the cache entry (and is shared by every copy
    of the state): updating it in place changes what later calls return."""
    PROP = prop  # noqa: N806
    r = rep.rule(rule, "values returned by state-cached methods are never updated in place (augmented assignment, subscript store, out=, mutating method) - the returned array is the cache entry, shared by all copies of the state", floor=8)
    cached: dict[str, str] = {}  # method name -> return annotation text
    for k in system_classes(program):
        for c in k.mro:
            for mname, m in c.methods.items():
                if m.cache_deps is not None:
                    cached.setdefault(mname, norm(m.node.returns) if m.node.returns is not None else "")
    # auxiliary outputs are cached under their own method names too (already in the table)
    array_valued = {n for n, ann in cached.items() if "Scalar" not in ann and "float" not in ann}
    r.inst({"cached methods": len(cached), "array or object valued": len(array_valued)})
    n_bound = 0
    for fn in program.all_functions():
        if fn.module.name in ("mici.states",):
            continue
        # locals bound directly to the result of a cached method call
        bound: dict[str, ast.Call] = {}
        for n in ast.walk(fn.node):
            if isinstance(n, ast.Assign) and len(n.targets) == 1 and isinstance(n.targets[0], ast.Name) and isinstance(n.value, ast.Call) and isinstance(n.value.func, ast.Attribute) and n.value.func.attr in array_valued and len(n.value.args) == 1 and not n.value.keywords:
                recv = norm(n.value.func.value)
                if recv in ("self", "self.system", "system", "self._system"):
                    bound[n.targets[0].id] = n.value
        if not bound:
            continue
        # a name that is also bound to something else anywhere in the function is not tracked
        for n in ast.walk(fn.node):
            if isinstance(n, ast.Assign):
                for t in n.targets:
                    for tt in (t.elts if isinstance(t, ast.Tuple) else [t]):
                        if isinstance(tt, ast.Name) and tt.id in bound and n.value is not bound[tt.id]:
                            bound.pop(tt.id, None)
        for nm, call in bound.items():
            n_bound += 1
            sites = []
            for n in ast.walk(fn.node):
                if isinstance(n, ast.AugAssign) and isinstance(n.target, ast.Name) and n.target.id == nm:
                    sites.append((n, f"`{norm(n)[:60]}` updates it in place"))
                if isinstance(n, (ast.Assign, ast.AugAssign)):
                    for t in (n.targets if isinstance(n, ast.Assign) else [n.target]):
                        if isinstance(t, ast.Subscript) and isinstance(t.value, ast.Name) and t.value.id == nm:
                            sites.append((n, f"`{norm(n)[:60]}` stores into it"))
                if isinstance(n, ast.Call):
                    for kw in n.keywords:
                        if kw.arg == "out" and any(isinstance(x, ast.Name) and x.id == nm for x in ast.walk(kw.value)):
                            sites.append((n, f"`{norm(n)[:60]}` writes into it through out="))
                    if isinstance(n.func, ast.Attribute) and isinstance(n.func.value, ast.Name) and n.func.value.id == nm and n.func.attr in MUTATING_METHODS:
                        sites.append((n, f"`{norm(n)[:60]}` mutates it"))
            r.inst({"function": fn.qualname, "local": nm, "holds": norm(call)[:50], "mutated": bool(sites)})
            for n, how in sites:
                r.violate(PROP, f"{fn.qualname}:mutates-cached:{call.func.attr}:{nm}", f"in {fn.qualname} the local `{nm}` is the array returned by the state-cached method `{norm(call)}` and {how}: the array is the cache entry itself (shared with every copy of the state), so each further call at the same position returns the already-updated array - the result depends on how often it was requested", node=n, file=fn.file)
    r.inst({"locals bound to cached results": n_bound})
    return r


def rule_r10(rep, program: Program, prop=PROP, rule="R10"):
    """State-cached values are keyed on state variables only.  A cached method that also reads a
    system attribute (self.metric) goes stale when that attribute is replaced; whoever replaces it
    must invalidate the states it goes on using (re-assign the variables the affected entries
    depend on) before calling system methods on them."""
    PROP = prop  # noqa: N806
    r = rep.rule(rule, "after a system attribute read by state-cached methods is replaced (system.metric by the metric adapters), the chain states' dependent cache entries are invalidated before the states are used again", floor=3)
    # cached methods that (transitively, through self.<method>(state) calls) read self.metric
    affected: dict[str, set] = {}
    for k, name, f in cached_pairs(program):
        seen, todo, reads = set(), [f], False
        while todo:
            g = todo.pop()
            if g.qualname in seen:
                continue
            seen.add(g.qualname)
            for n in ast.walk(g.node):
                if is_self_attr(n) and n.attr == "metric" and isinstance(n.ctx, ast.Load):
                    reads = True
                if isinstance(n, ast.Call) and isinstance(n.func, ast.Attribute) and isinstance(n.func.value, ast.Name) and n.func.value.id == "self":
                    h = k.resolve(n.func.attr)
                    if h is not None and h.cache_deps is None:
                        todo.append(h)
        if reads:
            affected.setdefault(f.qualname, set()).update(f.cache_deps or ())
    dep_vars = set().union(*affected.values()) if affected else set()
    r.inst({"cached methods reading self.metric": sorted(affected)[:12], "keyed on": sorted(dep_vars)})
    if not affected:
        return r
    # writers of <system>.metric outside constructors
    for fn in program.all_functions():
        if fn.name == "__init__":
            continue
        stores = [n for n in ast.walk(fn.node) if isinstance(n, ast.Assign) and any(isinstance(t, ast.Attribute) and t.attr == "metric" and not is_self_attr(t) for t in n.targets)]
        for st in stores:
            # statements executed after the store in the same function (source order)
            later = [n for n in ast.walk(fn.node) if isinstance(n, ast.Call) and getattr(n, "lineno", 0) > st.lineno and isinstance(n.func, ast.Attribute) and "system" in norm(n.func.value) and n.args]
            r.inst({"metric replaced in": fn.qualname, "system calls on states afterwards": [norm(c)[:50] for c in later]})
            for c in later:
                # the state argument of the call
                sargs = [a for a in c.args[:1] if isinstance(a, ast.Name)]
                for a in sargs:
                    need = {v for v in dep_vars if v != "mom"}  # the call itself re-assigns / draws the momentum
                    done = set()
                    for n in ast.walk(fn.node):
                        if isinstance(n, ast.Assign) and st.lineno < getattr(n, "lineno", 0) <= c.lineno:
                            for t in n.targets:
                                if isinstance(t, ast.Attribute) and isinstance(t.value, ast.Name) and t.value.id == a.id:
                                    done.add(t.attr)
                    missing = need - done
                    if missing:
                        r.violate(PROP, f"{fn.qualname}:stale-after-metric-change:{a.id}:{sorted(missing)}", f"{fn.qualname} replaces the system's metric and then calls `{norm(c)[:60]}` on `{a.id}` without re-assigning {sorted(missing)}: state-cached quantities that read self.metric but are keyed on {sorted(missing)} only ({', '.join(sorted(affected)[:4])} ...) are still those of the old metric - e.g. the re-sampled momentum of a constrained system is projected with the old Gram matrix and does not lie in the cotangent space of the new metric", node=c, file=fn.file)
    return r


def rule_r12(rep, program: Program, prop=PROP, rule="R12"):
    """Copies of a state share cache entries while the flows update the variable arrays in place (`state.pos += ...`).
    A cached value that is (a view of) a variable array - a user model function may legitimately return its argument or
    a view of it - is therefore changed in every copy by such an update.  Values must enter the cache through a guard
    that copies arrays which may share memory with a state variable."""
    PROP = prop  # noqa: N806
    r = rep.rule(rule, "every value stored in the state cache by the decorators passes a guard that copies arrays possibly sharing memory with a state variable (user functions may return views of their argument)", floor=2)
    smod = next(mm for nm, mm in program.modules.items() if nm.split(".")[-1] == "states")
    guards = set()
    raw_mod = ast.parse(smod.source)  # the source as written: the normaliser inlines new private helpers
    for fn in raw_mod.body:
        if not isinstance(fn, ast.FunctionDef):
            continue
        txt = {call_name(c) for c in ast.walk(fn) if isinstance(c, ast.Call)}
        if txt & {"np.may_share_memory", "np.shares_memory"} and any(isinstance(c, ast.Call) and ((isinstance(c.func, ast.Attribute) and c.func.attr == "copy") or call_name(c) in ("np.array", "np.copy")) for c in ast.walk(fn)):
            guards.add(fn.name)
    r.inst({"aliasing guards in states.py": sorted(guards)})
    for dname in ("cache_in_state", "cache_in_state_with_aux"):
        d = program.func("states", dname)
        raw = ast.parse(smod.source)
        dn = next(n for n in ast.walk(raw) if isinstance(n, ast.FunctionDef) and n.name == dname)
        stores = []
        for n in ast.walk(dn):
            if isinstance(n, ast.Assign) and any(isinstance(t, ast.Subscript) and norm(t.value).endswith("._cache") for t in n.targets):
                stores.append((n, n.value))
            if isinstance(n, ast.Expr) and isinstance(n.value, ast.Call) and isinstance(n.value.func, ast.Attribute) and n.value.func.attr in ("update", "setdefault") and norm(n.value.func.value).endswith("._cache"):
                stores.append((n, n.value))
        n_ok = 0
        for st, v in stores:
            if isinstance(v, ast.Constant) and v.value is None:
                continue
            guarded = any(isinstance(c, ast.Call) and call_name(c).split(".")[-1] in guards for c in ast.walk(v))
            if not guarded and isinstance(v, ast.Name):
                # the stored local was bound to a guarded value (`value = guard(state, method(...))`) and not re-bound
                defs = [a for a in ast.walk(dn) if isinstance(a, ast.Assign) and len(a.targets) == 1 and isinstance(a.targets[0], ast.Name) and a.targets[0].id == v.id]
                guarded = len(defs) == 1 and any(isinstance(c, ast.Call) and call_name(c).split(".")[-1] in guards for c in ast.walk(defs[0].value))
            # inline guard: the store itself is conditional on a may_share_memory test handled in place
            inline = any(isinstance(c, ast.Call) and call_name(c) in ("np.may_share_memory", "np.shares_memory") for c in ast.walk(dn)) and not guards
            r.inst({"decorator": dname, "store": norm(st)[:70], "guarded": guarded or inline})
            if guarded or inline:
                n_ok += 1
                continue
            r.violate(PROP, f"{dname}.wrapper:cache-store-may-alias-variable:{norm(st)[:40]}", f"`{norm(st)[:70]}` stores the wrapped method's value as it is: when a (user supplied) function returns its argument or a view of it - `jacob_constr=lambda q: q[None]`, `grad_neg_log_dens=lambda q: q` - the cached value aliases the state's position array; copies share cache entries, so the next in-place update of that array (`state.pos += ...` in h2_flow) silently changes the value cached in the copies - e.g. the previous state's constraint Jacobian inside the constrained leapfrog step, which then is no longer reversible", node=st, file=d.file)
        if not stores:
            raise AnalysisError(f"{dname}: no store into the state cache found")
    return r


def run(rep, program: Program, tier: str) -> None:
    rep.explanation = (
        "Static effect analysis of the cache protocol: for every concrete System class the "
        "cached methods are resolved under the class's C3 MRO and the set of ChainState "
        "variables each one (transitively) reads is compared with its declared dependencies; "
        "auxiliary-output tables, copy(), __setattr__ invalidation, pickle tables and "
        "in-place mutation sites are checked structurally. Decides the code-visible ways a "
        "cached value can go stale; does not execute any history."
    )
    rep.assumptions = [
        "user model functions are pure functions of the position array they receive",
        "system attributes other than state variables (e.g. self.metric) are constant between calls on one state (adapters re-sample momentum after changing the metric; noted in DESIGN.md)",
        "state variables are those accessed as <state>.<name> with a public name",
    ]
    se = StateEffects(program)
    r1 = rule_r1(rep, program, se)
    # positive control for R1 on an embedded fragment
    cp = Program(sources=CONTROL_SRC)
    cse = StateEffects(cp)
    k = cp.cls("System")
    f = k.methods["stale"]
    eff = cse.effects(k, f, "state")
    r1.positive_control = bool(set(eff.reads) - set(f.cache_deps))
    rep.isolate(rule_r2, rep, program, se)
    rep.isolate(rule_r3, rep, program)
    rep.isolate(rule_r4, rep, program)
    rep.isolate(rule_r5, rep, program)
    rep.isolate(rule_r6, rep, program)
    rep.isolate(rule_r7, rep, program)
    rep.isolate(rule_r8, rep, program)
    rep.isolate(rule_r9, rep, program)
    rep.isolate(rule_r10, rep, program)
    from . import stateproto

    rep.isolate(stateproto.rule, rep, program, tier, PROP, "R11", "transparent")
    rep.isolate(rule_r12, rep, program)
    rep.extra["callsites_resolved"] = se.resolved_calls
    rep.extra["callsites_unresolved"] = len(se.unresolved)
